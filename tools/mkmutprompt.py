#!/usr/bin/env python3
"""Writes the prompt for an independent mutation agent: tools/mkmutprompt.py <ID> <worktree> <round> > file.
The agent sees only the property text (and a summary of changes already delivered, so it picks another mechanism)."""
import glob
import json
import os
import sys

HERE = os.path.dirname(os.path.abspath(__file__))
pid, wt, rnd = sys.argv[1], sys.argv[2], int(sys.argv[3])
prop = next(json.loads(l) for l in open(os.path.join(HERE, "..", "properties.jsonl")) if json.loads(l)["id"] == pid)
text = "%s — %s\n\n%s\n\nQuantified over: %s\n" % (pid, prop["title"], prop["statement"], prop["quantifier"]["text"])
prev = []
for d in sorted(glob.glob(os.path.join(HERE, "..", "seeded", pid.lower() + "-*"))):
    m = json.load(open(os.path.join(d, "meta.json")))
    prev.append("  previous change: %s\n  files: %s\n" % (" ".join(m["summary"].split())[:600], m["files"]))
if prev:
    text += ("\n\nIMPORTANT: other engineers have ALREADY delivered the following change(s) for this property; yours must use a "
             "DIFFERENT mechanism in a different function (ideally a different file or a different clause of the property) "
             "— do not produce a variation of any of them:\n" + "\n".join(prev))
t = open(os.path.join(HERE, "mutation_prompt.txt")).read()
sys.stdout.write(t.replace("{WT}", wt).replace("{PROP}", text).replace("{ID}", pid))
