#!/venv/bin/python
"""Regenerate /verif/MANIFEST.json from the table below (single source of truth) and validate it."""
import json
import os
import subprocess
import sys

VERIF = os.path.dirname(os.path.dirname(os.path.abspath(__file__)))

CHECKS = {
    "C12": dict(
        category="model_checking", design_ref="DESIGN.md section 4 (C12)",
        technique="TLA+ spec (FifoObs/Fifo/FifoImpl) model-checked by TLC; edge-covering tours of the model graph "
                  "replayed on the real FIFOs and seeded random walks, all validated by TLC against FifoTrace",
        text="TLC exhaustively checks that the implementation-structured model of SyncFIFO/SyncFIFOBuffered refines the "
             "bounded-queue contract for every strobe sequence (depth 0..5 quick, ..8 thorough, data {0,1}); the real "
             "classes are bound to the contract by trace validation: every edge of the model graph and long random walks "
             "(depth up to 31, width 0..8) are executed in pysim and each recorded cycle is judged by TLC.",
        note="Trusted: TLC, pysim as executor of the FIFO, the recording testbench (samples outputs before each edge). "
             "Liveness is checked as bounded response (2 cycles). Data independence assumed for model checking."),
}

NOT_YET = "check not built yet (work in progress; see DESIGN.md section 4)"


def main():
    props = [json.loads(l)["id"] for l in open(os.path.join(VERIF, "properties.jsonl")) if l.strip()]
    commits = []
    hooks_file = os.path.join(VERIF, "hooks_commits.txt")
    if os.path.exists(hooks_file):
        commits = [l.split()[0] for l in open(hooks_file) if l.strip() and not l.startswith("#")]
    m = {
        "version": 1,
        "setup_cmd": "./check --selftest",
        "hooks": {
            "guard": "AMARANTH_VERIF",
            "enable": "no in-tree hooks are required: the harness imports amaranth from /repo's working tree "
                      "(PYTHONPATH=/repo) and wraps objects of the real engine after construction; the checks set "
                      "AMARANTH_VERIF=1 but nothing in /repo reads it",
            "baseline_off_cmd": "cd /repo && /venv/bin/python -m pytest -ra -q -p no:cacheprovider --timeout=900 "
                                "--continue-on-collection-errors",
            "source_commits": commits,
            "add_only": True,
        },
        "engines": [{
            "name": "tlc", "path": "/verif/spec",
            "serves_properties": sorted(CHECKS),
            "kind_free_text": "explicit TLA+ specification (spec/*.tla) model-checked with TLC 1.8; conformance by "
                              "replaying TLC-generated behaviours into amaranth and by TLC trace validation of "
                              "executions recorded from amaranth (harness/)",
        }],
        "checks": [],
        "notes": "Run ./check <ID> --tier quick|thorough. Exit 0 ok, 1 VIOLATION, 2 machinery failure. "
                 "known_findings.json lists genuine defects recorded rather than repaired and the fix: commits.",
        "not_applicable": [],
    }
    for p in props:
        c = CHECKS.get(p)
        if c is None:
            m["not_applicable"].append({"property_id": p, "reason": NOT_YET})
            continue
        m["checks"].append({
            "property_id": p,
            "quick_cmd": "./check %s --tier quick" % p,
            "thorough_cmd": "./check %s --tier thorough" % p,
            "evidence_file": "/verif/evidence/%s.json" % p,
            "replay_cmd_template": "./check %s --replay {path}" % p,
            "engine": "tlc",
            "level_claimed": {"category": c["category"], "text": c["text"], "design_ref": c["design_ref"]},
            "level_note": c["note"],
            "technique": c["technique"],
        })
    if not m["not_applicable"]:
        del m["not_applicable"]
    path = os.path.join(VERIF, "MANIFEST.json")
    with open(path, "w") as f:
        json.dump(m, f, indent=1)
        f.write("\n")
    try:
        import jsonschema
        jsonschema.validate(m, json.load(open("/root/.vp/MANIFEST.schema.json")))
        print("MANIFEST.json valid;", len(m["checks"]), "checks")
    except ImportError:
        r = subprocess.run(["python3-vt", "-c", "import json,jsonschema,sys;jsonschema.validate(json.load(open(%r)),json.load(open('/root/.vp/MANIFEST.schema.json')));print('MANIFEST.json valid')" % path])
        sys.exit(r.returncode)


if __name__ == "__main__":
    main()
