#!/venv/bin/python
"""Regenerate /verif/MANIFEST.json from the table below (single source of truth) and validate it."""
import json
import os
import subprocess
import sys

VERIF = os.path.dirname(os.path.dirname(os.path.abspath(__file__)))

CHECKS = {
    "C01": dict(
        category="model_checking", design_ref="DESIGN.md section 4 (C01)",
        technique="TLA+ spec AmBits/AmShape/AmExpr (typed stack machine, one action per operator) enumerated by TLC; "
                  "every reachable state (program + expected shape + value table over all valuations) replayed on the "
                  "real amaranth in a simulated circuit",
        text="TLC enumerates every single operator over every pair of leaf shapes (widths 0..3 quick / 0..4 thorough, "
             "signed/unsigned/constants/zero width) with ALL operand values, three-operand choice operators, all "
             "two-operator compositions (thorough) and random deep compositions, checking on the model that every value "
             "lies in the range of the documented result shape (NoOverflow). Each program is then built through the "
             "public operator API, its reported shape compared with the model and a circuit computing it simulated "
             "for every valuation against TLC's table.",
        note="Trusted: TLC, the program renderer (postfix record -> Python operator call), pysim's ctx.set/ctx.get on "
             "plain signals. Widths of intermediates <= 24 bits (TLC 32-bit integers). Constant part-select offsets "
             "only inside the operand; array indices in range."),
    "C02": dict(
        category="model_checking", design_ref="DESIGN.md section 4 (C02)",
        technique="TLA+ builder state machine of the Module DSL (AmStmt) with assignment-target semantics (AmLhs); "
                  "TLC enumerates/simulates DSL call sequences with their meaning tables; every closed program is "
                  "replayed through the real DSL in pysim",
        text="TLC enumerates all nestings of If/Elif/Else/Switch/Case/Default up to a length bound, every assignable "
             "target form alone, in overlapping pairs and under a condition, FSM/State/next programs, and random long "
             "programs over the full vocabulary; each state carries, for every valuation of inputs x previous register "
             "contents x previous FSM state, the value of every comb-driven signal and the next value of every "
             "sync-driven one, with AtMostOneSelected/FrameCondition invariants checked on the model. Each closed "
             "program is rebuilt with the real Module DSL and simulated for all valuations (registers loaded by state "
             "restore, one clock edge), comparing every signal, FSM state, ongoing() and the state after reset.",
        note="Trusted: TLC, the syntactic renderer from program records to DSL calls, ctx.set-based state restore of "
             "registers. One driving domain per signal inside a program; array indices in range."),
    "C19": dict(
        category="model_checking", design_ref="DESIGN.md section 4 (C19)",
        technique="TLA+ contract ResMgrOps/ResMgr model-checked over all request histories of several platform tables; "
                  "edge-covering tours replayed on the real ResourceManager; random histories and offline vendor "
                  "constraint files validated by TLC against ResMgrTrace",
        text="TLC explores every request history (up to length 4 quick / 5 thorough) over platform tables with "
             "subsignals, differential pairs, chained connectors, overlapping pins, inversion and clocks, checking "
             "OneToOne, AtMostOnce and RefusedLeavesStateUnchanged on the model (a leaking mutant must fail). Every edge "
             "of those graphs is replayed on a fresh real ResourceManager and compared with the model's successor state "
             "(outcome class, pin names in order, inversion, direction); random histories on random tables and the "
             "constraint files rendered offline for iCE40/ECP5/Nexus/Gowin are validated by ResMgrTrace.",
        note="Trusted: TLC, the syntactic table rendering (JSON <-> Resource/Connector objects), the constraint-file "
             "regexes and RTLIL top-port reader. Toolchains needing Yosys are skipped (stated in evidence)."),
    "C03": dict(
        category="model_checking", design_ref="DESIGN.md section 4 (C03)",
        technique="TLA+ event semantics of clock domains and a declarative meaning of inserter/renamer stacks (AmDesign) "
                  "model-checked by TLC; TLC -simulate behaviours (design configuration + event sequence) replayed on the "
                  "real ClockDomain/ResetInserter/EnableInserter/DomainRenamer in pysim",
        text="TLC checks on the model, over all event sequences (clock edges of two domains incl. simultaneous ones, reset, "
             "control and data changes) of small design sets, that registers change only at their own domain's active "
             "edge or async reset assertion, that reset-less registers ignore every reset, and that logic outside a "
             "wrapper is unaffected. Thousands of simulated behaviours over all 36 domain style pairs (pos/neg edge x "
             "none/sync/async reset), every wrapper stack of depth <= 3 over 8 wrappers and all register placements are "
             "replayed on the real classes, comparing every register after every event.",
        note="Trusted: TLC, the syntactic design renderer, pysim as executor. Input/control/reset changes never coincide "
             "with a clock edge in one testbench write (a testbench race in pysim). The memory under the wrappers is one "
             "row with a write port, a read port and a transparent read port (always enabled)."),
    "C11": dict(
        category="model_checking", design_ref="DESIGN.md section 4 (C11)",
        technique="TLA+ memory semantics (AmMemOps: declarative per-bit contract + operational step function, AmMem state "
                  "machine) model-checked by TLC with seeded mutants; edge-covering tours of the model graphs and seeded "
                  "random configurations replayed on lib.memory.Memory; all executions validated by TLC against AmMemTrace",
        text="TLC checks, for 9 (quick) / 23 (thorough) small memory configurations (unsigned, signed and aggregate rows; "
             "depth 0-3 incl. non-powers of two; 0-2 read and write ports, comb/sync, two domains, transparency subsets, "
             "granularity none/1/w/2) and every event sequence up to 5/7 events (coincident edges, testbench row reads "
             "and writes), that an operational step function satisfies a per-bit declarative contract of the documented "
             "semantics. The real Memory is bound to that contract by trace validation: every edge of each model graph and "
             "64/1000 seeded random configurations x 250/300 events are executed in pysim and every recorded event (all "
             "read-port outputs and all rows) is judged by TLC; each configuration also passes rtlil.convert.",
        note="Trusted: TLC, pysim as executor, the recording testbench (inputs applied before a single Cat(clkA, clkB) clock "
             "event; outputs and rows sampled after it). Unspecified behaviour (read beyond depth, colliding writes, "
             "cross-domain read/write at a coincident edge, sync output before its first capture) is generated but not "
             "asserted. Simulator/RTLIL agreement of memories is evaluated by C04 (memory designs); here every configuration only has to pass rtlil.convert."),
    "C13": dict(
        category="model_checking", design_ref="DESIGN.md section 4 (C13)",
        technique="TLA+ spec (FifoObs contract, implementation-structured FifoAsyncImpl, FifoTrace) model-checked by TLC with "
                  "mutants over every interleaving of the two clocks; edge-covering tours of the model graph and seeded "
                  "clock-schedule walks replayed on AsyncFIFO/AsyncFIFOBuffered and validated by TLC; constructor sweep "
                  "against the TLC-computed depth table",
        text="TLC explores the full reachable graph of a model of AsyncFIFO/AsyncFIFOBuffered (Gray pointers, 2-flop "
             "synchronisers, registered levels, output register) under every sequence of {write edge, read edge, both} x "
             "(w_en, w_data, r_en) for depth 2/3/4 (quick) and 5 (thorough), data {0,1}, against the async contract plus "
             "bounded liveness (K=8) and order / nothing-lost with bounded histories; five seeded design errors must fail. "
             "The real classes are bound by trace validation: every edge of the model graph and seeded clock-ratio walks "
             "(1:1 .. 1:7, jitter, coincident edges; depth up to 33, width 0..8, write-free tail) are executed in pysim with "
             "truly coincident edges and each event is judged by TLC; a constructor sweep (depth 0..17 x exact_depth) "
             "must elaborate and match the rounding table TLC computes.",
        note="Trusted: TLC, pysim as executor, the recording testbench (one ctx.set per clock event, outputs sampled before "
             "it). Data independence assumed; depths >= 8 by random walks only; synchronisers are ideal flops; the "
             "write-domain reset is checked on the model only."),
    "C14": dict(
        category="model_checking", design_ref="DESIGN.md section 4 (C14)",
        technique="TLA+ builder specification of signature trees (Wiring) with Flip/Flatten/Compliant/ConnectOutcome "
                  "operators and theorems as invariants; every closed state replayed on amaranth.lib.wiring (flip, "
                  "flatten, compliance, connect in all argument orders with pysim data-flow, corruptions, metadata)",
        text="TLC enumerates every signature tree within the bounds (nested, array dimensions, In/Out at each level, "
             "flipped sub-signatures) as reachable states of the builder, proves FlipFlip, FlipReverses, EachLeafOnce, "
             "CreatedComplies, PermInvariant and ConnectSound on each and dumps the expected observations. Each closed "
             "state is replayed on the real library: flip equality, create/is_compliant, flatten as multiset with "
             "effective directions, sub-interface access through plain and flipped objects, connect() on 6 interface "
             "tuples in every argument order (error class, emitted statements, one-leaf-at-a-time toggling in pysim), "
             "all single-point corruptions, and Component metadata validated with jschon.",
        note="Trusted: TLC, the tree-to-Signature renderer, pysim, jschon. Flatten order and error messages are not "
             "compared; no-connection outcomes are treated as unspecified; metadata checked on a deterministic subset of "
             "the large configurations."),
    "C15": dict(
        category="model_checking", design_ref="DESIGN.md section 4 (C15)",
        technique="TLA+ builder specification of layouts (DataLayout): reachable states are layout trees carrying their "
                  "expected tables, theorems are invariants, seeded mutants must fail; the state dump is replayed against "
                  "amaranth.lib.data / lib.enum (constants, views in pysim, assignments, RTLIL elaboration)",
        text="TLC enumerates every struct/union/array/flexible layout tree of a bounded family (depth <= 2, <= 3 fields over "
             "unsigned/signed/Enum/Flag/signed-Enum leaves, <= 8 bits quick / 10 thorough) plus TLC-tabulated random trees "
             "to depth 4 and 9 Enum/Flag classes, checking placement, Pack/Unpack, read-back, nested-slice, assignment-frame "
             "and flag-operator theorems for all bit patterns. Every state's table is compared literally with the real "
             "classes: size/offset/width/shape, from_bits/as_bits/const round trips, Const field reads, data.Struct/Union "
             "classes, Signal(layout) views in pysim for all fields x all patterns, assignment through fields in comb, "
             "sync and ctx.set, dynamic array index, FlagView operators three-way with Python's enum.Flag.",
        note="Trusted: TLC, the TLA value parser, pysim as executor, Python's enum as third witness. Exhaustive only inside "
             "the bounded family; synthesis is only shown to elaborate (RTLIL semantics belong to C04)."),
    "C16": dict(
        category="model_checking", design_ref="DESIGN.md section 4 (C16)",
        technique="bit-serial TLA+ model of the Williams/Rocksoft CRC and a cycle-level Processor machine (Crc) "
                  "model-checked by TLC with mutants; TLC-printed CRCs compared literally with compute(); software and "
                  "per-cycle hardware executions validated by TLC against CrcTrace",
        text="TLC exhaustively checks the cycle-level Processor machine for every parameter set with crc_width <= 3 "
             "(thorough <= 4), data width 1..4 and every start/valid/data schedule within a history bound: crc equals the "
             "Williams fold of the words since the last start, the own CRC in transmission order gives match_detected, "
             "any other trailer does not (odd polynomials). The real code is bound by literal comparison of TLC-printed "
             "CRCs for all small parameter sets and by TLC trace validation of compute()/residue() results and "
             "per-cycle Processor executions for catalogue entries x data widths {1,3,8,16,32} with idle gaps, restarts, "
             "own and corrupted trailers; every published check/residue value is recomputed from the spec.",
        note="Trusted: TLC with CommunityModules overrides, pysim as executor, the recording testbench, the frozen "
             "check-value table transcribed from the repository snapshot (no network). Widths above 4 are sampled, not "
             "exhaustive."),
    "C04": dict(
        category="translation_validation", design_ref="DESIGN.md section 4 (C04)",
        technique="explicit TLA+ semantics of the emitted RTLIL subset (Rtlil) evaluated by TLC over the flattened "
                  "netlist of each design; RtlilTrace steps every design through the stimulus recorded in pysim and "
                  "compares every port after every step",
        text="For each generated design (batches of TLC-simulated AmExpr programs, closed AmStmt programs incl. FSMs, "
             "AmDesign behaviours with pos/neg edges, sync/async resets and inserter/renamer stacks, and seeded random "
             "module hierarchies with signals crossing module boundaries, partially driven, undriven and zero-width "
             "signals) the RTLIL text of rtlil.convert() is parsed by an independent strict reader, flattened, and "
             "TLC evaluates it cell by cell under the published cell/process/register semantics for the same input and "
             "clock/reset sequence that was applied in pysim; every top-level output and register must match after "
             "every step, and the settled values must solve every node equation (the evaluation order is not trusted). "
             "As C01-C03 bind pysim to the language specification, this closes the triangle spec = pysim = RTLIL.",
        note="Trusted: TLC, the RTLIL reader and the structural flattening (hierarchy expansion, sigspec to net lists), "
             "Rtlil.tla as a rendering of the Yosys cell library documentation. Values < 2^30; x/z digits read as 0; "
             "$print/$check text, foreign instances and inout ports are not evaluated (memories are: $mem_v2/$memrd_v2/$memwr_v2)."),
    "C05": dict(
        category="model_checking", design_ref="DESIGN.md section 4 (C05)",
        technique="same TLC-enumerated AmExpr programs as C01, evaluated by the testbench tree walker ctx.get(expr); "
                  "write side: AmLhs target programs replayed with ctx.set on signals and on memory rows; "
                  "shape-castable round trip (from_bits / const) over the cases of AmShapeCases",
        text="Every AmExpr program TLC enumerates (see C01) is also evaluated with ctx.get(expr) inside a testbench for "
             "every valuation; the value must equal TLC's table, which C01 binds to the compiled circuit, so the two "
             "interpreters are compared through the specification. Zero-width selectors and operands are in the box.",
        note="Trusted: TLC, the program renderer. A mismatch of the compiled circuit is reported by C01, of the "
             "testbench evaluator here."),
    "C06": dict(
        category="model_checking", design_ref="DESIGN.md section 4 (C06)",
        technique="TLA+ oracle for driver conflicts and bit-precise combinational cycles (Drivers) as a builder machine; "
                  "every enumerated configuration built with real Modules / Fragments / Instance / Memory / IOBuffer and "
                  "converted; the observed outcome class must be in the set TLC computed",
        text="TLC enumerates every configuration within the bounds (<= 3 modules in four hierarchy shapes, 1-2 signals of "
             "2-3 bits, driver records per (module, domain) or primitive output over bit ranges, dependency edges from "
             "bit-precise and word-level constructs) with the allowed outcome set {ok, driver_conflict, comb_cycle}, and "
             "proves theorems such as bit-disjoint drivers never conflict and forward-only dependencies never cycle (two "
             "oracle mutants must fail). Every state is built through the Module DSL with rtlil.convert and through the "
             "Fragment API with build_netlist (plus Memory / io.Buffer variants); the rejecting layer and exception class "
             "must match.",
        note="Trusted: the Drivers.tla oracle (written from the guide and the property), the record-to-statement binding, "
             "the exception-to-class mapping. If/Elif chains and two primitive outputs on one bit are not generated; a "
             "cycle running only through always-overridden assignments allows either outcome."),
    "C07": dict(
        category="model_checking", design_ref="DESIGN.md section 4 (C07)",
        technique="TLA+ builder HierGen enumerates design descriptions (hierarchies, clash-prone names, zero widths, "
                  "instances, memories); each is converted by the real backend, read by a strict independent RTLIL parser "
                  "and judged by TLC against the RtlilWF predicates over the JSON document",
        text="TLC enumerates every design description of the HierGen machine (module trees, signal / port / submodule names "
             "incl. duplicates, private names and $-suffixed look-alikes, widths incl. 0, every driver module and kind, "
             "every set of reading modules, memories, foreign instances with parameters / attributes / i, o, io ports, "
             "empty submodules); each is rendered with real Modules, converted with back.rtlil.convert, parsed, and TLC "
             "evaluates UniqueNames, RefsExist, SlicesInBounds, WidthsAgree (against the Yosys cell library kept as TLA+ "
             "data), PortIdsDense, SubmoduleCellsMatch, ForeignInstanceFaithful and ExactlyOneDriver per wire bit. Seeded "
             "random larger designs and hand-picked corners take the same path; doctored documents must be rejected.",
        note="Trusted: TLC, the RTLIL reader (grammar self-tested on malformed texts), the syntactic renderer. Port indices "
             "may start at 0 or 1; foreign connections compared bit for bit only in the top module; identifiers without "
             "blanks. Emitting an empty submodule is not a violation (the property only asks that it breaks nothing)."),
    "C09": dict(
        category="exploration", design_ref="DESIGN.md section 4 (C09)",
        technique="TLA+ history monitor Observe(key, config, digest) (Repro / ReproTrace) run by TLC over histories recorded "
                  "from real elaborations, simulations and build plans in interpreters with different hash seeds; TLA+ "
                  "order-sensitivity model ElabOrder steering the design catalogue",
        text="Histories are recorded in fresh interpreters differing in PYTHONHASHSEED (5 quick, 17 thorough) and "
             "validated by TLC: rtlil.convert of 34 hand-written plus seeded random designs aimed at the features ElabOrder "
             "shows to be order-sensitive (>= 2 implicitly created domains, name clashes, anonymous submodules), converted "
             "twice and rebuilt; simulations run fresh / again / after reset() with traces, engine state and time-0 state; "
             "build plans with files, digest(), archive bytes (also under a shifted clock) and the extract listing. TLC "
             "proves the monitor exact on a small producer model and finds the set-iteration counterexample in ElabOrder.",
        note="The TLA+ content is a thin monitor and a targeting model: the level is exploration. Trusted: TLC, sha256 "
             "digests and their interning, the child-interpreter protocol, private engine attributes for the post-reset "
             "snapshot. Detection of hash-seed dependence is probabilistic in the seeds used."),
    "C08": dict(
        category="model_checking", design_ref="DESIGN.md section 4 (C08)",
        technique="TLA+ kernel model AmSim (RunProc enabled for any ready process) model-checked over all schedules for a "
                  "design family ranging over truth tables; TLC's unique observation sequence per (design, script) replayed "
                  "on pysim under injected permutations of the ready-process and trigger sets, as RTL and as user processes",
        text="TLC explores every order of running ready processes for every design of a family (two comb fragments, two "
             "registers feeding each other, a clock generator; process functions range over truth tables) and several "
             "testbench scripts of set/get/tick().sample/delay/elapsed-time operations, checking ScheduleIndependent, "
             "SetReturnsSettled and NoTimeTravel on the model (a mutant reading queued values must fail). The observation "
             "sequence TLC derives for each (design, script, clock period/phase) is then reproduced on the real simulator "
             "unpermuted and under seeded permutations of the process/trigger iteration order, with the fragments as RTL "
             "and replaced by user processes written as the simulator guide prescribes; values, tick samples and elapsed "
             "femtoseconds must match exactly.",
        note="Trusted: TLC; the permutation injection (engine._processes/_active_triggers replaced by a set subclass "
             "with seeded iteration order); the script interpreter. Excluded as documented order-dependent: Print order "
             "across fragments, spurious wake-up counts, user processes sharing Python state."),
    "C10": dict(
        category="model_checking", design_ref="DESIGN.md section 4 (C10)",
        technique="declarative TLA+ definitions (least width, congruence mod 2^w) enumerated by TLC over integer boxes "
                  "with minimality/uniqueness invariants; every enumerated case asked of the real API",
        text="AmShape defines casting of ranges/enumerations and constant normalisation declaratively; TLC enumerates "
             "all ranges, enumerations, (value, shape) pairs, bit-count arguments, range-shaped initial values and "
             "constant Cat/Slice expressions inside stated boxes, proves the exactness/minimality theorems on each, and "
             "every case is replayed on Shape.cast, Const, Signal(init=), MemoryData(init=), bits_for, ceil_log2, "
             "Const.cast. Exhaustive inside the boxes.",
        note="Trusted: TLC and the thin Python glue that phrases each case as an API call. Boxes: see evidence assumptions."),
    "C17": dict(
        category="model_checking", design_ref="DESIGN.md section 4 (C17)",
        technique="TLA+ spec Cdc (contract operators + implementation-structured models) model-checked by TLC with "
                  "seeded mutants; edge-covering tours and random schedules on the real primitives validated by TLC "
                  "against CdcTrace",
        text="TLC exhaustively checks models of FFSynchronizer, AsyncFFSynchronizer/ResetSynchronizer and "
             "PulseSynchronizer against the documented latency, release and pulse contracts over every interleaving of "
             "clock edges, coincident edges, input changes and resets (stages 2-4, widths 1-2, all inits). The real "
             "classes are bound to the same contract operators by trace validation of tours of the model graphs and "
             "seeded random schedules executed in pysim, each event judged by TLC.",
        note="Trusted: TLC, pysim as executor, the recording testbench (one ctx.set per event; edge-coincident input "
             "changes come from a harness source register because direct testbench races are unspecified). Pulse "
             "contract assumes an output-clock edge strictly between consecutive input pulses; power-on output of the "
             "async synchronisers adopted from observation."),
    "C18": dict(
        category="model_checking", design_ref="DESIGN.md section 4 (C18)",
        technique="TLA+ port algebra and buffer equations (IoBuf), builder enumeration (IoBufCases), FFBuffer state machine "
                  "(IoBufFF) model-checked with mutants; cases replayed on io.SimulationPort/Buffer/FFBuffer in pysim, FF "
                  "edge tours and exported netlists of real ports validated by TLC against IoBufTrace",
        text="TLC enumerates every port expression of depth <= 2 over simulation-port leaves of width 0..2 (0..3 thorough) "
             "with every inversion mask and direction built from slicing, indexing, ~ and +, proves the algebra theorems "
             "(involution, slice/concat recovery, width additivity, direction rules, loopback) and one-cycle latency of "
             "the FFBuffer machine over all event sequences. Every expression is rebuilt from real SimulationPort objects "
             "(len/direction/invert compared literally); Buffer/FFBuffer constructors and pysim runs are compared wire by "
             "wire with TLC-computed values; edge tours of the FFBuffer graph, random runs and NIR netlists on "
             "SingleEnded/Differential ports (one IOBuffer per bit, inversion on the fabric side) are judged by IoBufTrace.",
        note="Trusted: TLC, pysim as executor, the recording testbench (inputs set before the clock), build_netlist and "
             "the cell exporter. Not covered: DDRBuffer, platform overrides, power-on register contents, lo > hi slices."),
    "C20": dict(
        category="model_checking", design_ref="DESIGN.md section 4 (C20)",
        technique="TLA+ rendering of the format mini-language (Fmt) enumerated field by field (FmtCases) with round-trip "
                  "theorems and mutants; timing machine FmtTiming over a catalogue of nestings; every case and history "
                  "replayed on Format/Print/Assert/Assume in pysim; three-way triangulation with Python's str.format",
        text="TLC builds the stated format grammar (fill, align, sign, #, 0, width, grouping, type b/o/d/x/X/c/s) x shapes "
             "with the expected class (accepted / rejected) and text per value, and all (catalogue program, input history) "
             "pairs with the expected Print emission list and Assert/Assume stop edge; width/round-trip/grouping theorems "
             "hold on every state. Every case is replayed on the real Format (construction accepted or rejected), the text "
             "printed by a sync Print and carried by a failing Assert/Assume in pysim is compared literally with TLC's "
             "character codes, and emission/stop instants are compared for every history. Fmt is continuously "
             "triangulated against Python's own str.format (a disagreement is a machinery failure, never a violation).",
        note="Trusted: TLC, Fmt.tla as a rendering of Python's format mini-language (triangulated at run time), the RFC-50 "
             "subset classification of accepted specs, pysim testbench scheduling. Excluded: c on surrogates / beyond "
             "U+10FFFF, s on invalid UTF-8, combinational Print timing."),
    "C12": dict(
        category="model_checking", design_ref="DESIGN.md section 4 (C12)",
        technique="TLA+ spec (FifoObs/Fifo/FifoImpl) model-checked by TLC; edge-covering tours of the model graph "
                  "replayed on the real FIFOs and seeded random walks, all validated by TLC against FifoTrace",
        text="TLC exhaustively checks that the implementation-structured model of SyncFIFO/SyncFIFOBuffered refines the "
             "bounded-queue contract for every strobe sequence (depth 0..5 quick, ..8 thorough, data {0,1}); the real "
             "classes are bound to the contract by trace validation: every edge of the model graph and long random walks "
             "(depth up to 31, width 0..8) are executed in pysim and each recorded cycle is judged by TLC.",
        note="Trusted: TLC, pysim as executor of the FIFO, the recording testbench (samples outputs before each edge). "
             "Liveness is checked as bounded response (2 cycles). Data independence assumed for model checking."),
}

NOT_YET = "check not built yet (work in progress; see DESIGN.md section 4)"


def main():
    props = [json.loads(l)["id"] for l in open(os.path.join(VERIF, "properties.jsonl")) if l.strip()]
    commits = []
    hooks_file = os.path.join(VERIF, "hooks_commits.txt")
    if os.path.exists(hooks_file):
        commits = [l.split()[0] for l in open(hooks_file) if l.strip() and not l.startswith("#")]
    m = {
        "version": 1,
        "setup_cmd": "./check --selftest",
        "hooks": {
            "guard": "AMARANTH_VERIF",
            "enable": "no in-tree hooks are required: the harness imports amaranth from /repo's working tree "
                      "(PYTHONPATH=/repo) and wraps objects of the real engine after construction; the checks set "
                      "AMARANTH_VERIF=1 but nothing in /repo reads it",
            "baseline_off_cmd": "cd /repo && /venv/bin/python -m pytest -ra -q -p no:cacheprovider --timeout=900 "
                                "--continue-on-collection-errors",
            "source_commits": commits,
            "add_only": True,
        },
        "engines": [{
            "name": "tlc", "path": "/verif/spec",
            "serves_properties": sorted(CHECKS),
            "kind_free_text": "explicit TLA+ specification (spec/*.tla) model-checked with TLC 1.8; conformance by "
                              "replaying TLC-generated behaviours into amaranth and by TLC trace validation of "
                              "executions recorded from amaranth (harness/)",
        }],
        "checks": [],
        "notes": "Run ./check <ID> --tier quick|thorough. Exit 0 ok, 1 VIOLATION, 2 machinery failure. "
                 "known_findings.json lists genuine defects recorded rather than repaired and the fix: commits.",
        "not_applicable": [],
    }
    for p in props:
        c = CHECKS.get(p)
        if c is None:
            m["not_applicable"].append({"property_id": p, "reason": NOT_YET})
            continue
        m["checks"].append({
            "property_id": p,
            "quick_cmd": "./check %s --tier quick" % p,
            "thorough_cmd": "./check %s --tier thorough" % p,
            "evidence_file": "/verif/evidence/%s.json" % p,
            "replay_cmd_template": "./check %s --replay {path}" % p,
            "engine": "tlc",
            "level_claimed": {"category": c["category"], "text": c["text"], "design_ref": c["design_ref"]},
            "level_note": c["note"],
            "technique": c["technique"],
        })
    if not m["not_applicable"]:
        del m["not_applicable"]
    path = os.path.join(VERIF, "MANIFEST.json")
    with open(path, "w") as f:
        json.dump(m, f, indent=1)
        f.write("\n")
    try:
        import jsonschema
        jsonschema.validate(m, json.load(open("/root/.vp/MANIFEST.schema.json")))
        print("MANIFEST.json valid;", len(m["checks"]), "checks")
    except ImportError:
        r = subprocess.run(["python3-vt", "-c", "import json,jsonschema,sys;jsonschema.validate(json.load(open(%r)),json.load(open('/root/.vp/MANIFEST.schema.json')));print('MANIFEST.json valid')" % path])
        sys.exit(r.returncode)


if __name__ == "__main__":
    main()
