#!/venv/bin/python
"""Run the repository's pinned test suite (guard off) and compare with BASELINE.json's stable_pass list.
usage: tools/baseline.py [repo_dir]   -> exit 0 iff every stable_pass test passes."""
import json, os, subprocess, sys, tempfile, xml.etree.ElementTree as ET
repo = sys.argv[1] if len(sys.argv) > 1 else "/repo"
base = json.load(open("/root/.vp/BASELINE.json"))
fd, out = tempfile.mkstemp(suffix=".xml"); os.close(fd)
env = dict(os.environ); env.pop("AMARANTH_VERIF", None)
subprocess.run(["/venv/bin/python", "-m", "pytest", "-q", "-p", "no:cacheprovider", "--timeout=900",
                "--continue-on-collection-errors", "-n", "8" if "--par" in sys.argv else "0", "--junitxml=" + out] if False else
               ["/venv/bin/python", "-m", "pytest", "-q", "-p", "no:cacheprovider", "--timeout=900",
                "--continue-on-collection-errors", "--junitxml=" + out],
               cwd=repo, env=env, stdout=subprocess.DEVNULL, stderr=subprocess.DEVNULL)
passed = set()
for tc in ET.parse(out).getroot().iter("testcase"):
    if not any(ch.tag in ("failure", "error", "skipped") for ch in tc):
        passed.add("%s::%s" % (tc.get("classname"), tc.get("name")))
os.unlink(out)
missing = [t for t in base["stable_pass"] if t not in passed]
print("stable_pass: %d, passing now: %d, regressions: %d" % (len(base["stable_pass"]), len(base["stable_pass"]) - len(missing), len(missing)))
for t in missing[:40]:
    print("  REGRESSION", t)
sys.exit(1 if missing else 0)
