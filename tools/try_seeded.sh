#!/bin/bash
# usage: tools/try_seeded.sh <dir with patch.diff [demo.py]> <check id>...   — applies the seeded change to a private copy
# of /repo (never to /repo itself), shows that the demo fails there, and runs the named quick checks against the copy.
set -u
D=$1; shift
T=$(mktemp -d /tmp/repo_try.XXXX)
cp -r /repo/. $T/ && git -C $T checkout -q -- . && git -C $T apply $D/patch.diff || { echo "PATCH DOES NOT APPLY"; rm -rf $T; exit 2; }
if [ -f $D/demo.py ]; then
  (cd /repo && PYTHONPATH=/repo /venv/bin/python $D/demo.py >/dev/null 2>&1; echo "demo on clean /repo: exit $?")
  (cd $T && PYTHONPATH=$T /venv/bin/python $D/demo.py >/dev/null 2>&1; echo "demo with change: exit $?")
fi
for c in "$@"; do
  VERIF_REPO=$T /verif/check $c --tier ${TIER:-quick} > $T/.out_$c 2>&1; rc=$?
  echo "check $c on changed copy: exit $rc  ($(grep -c '^VIOLATION' $T/.out_$c) VIOLATION lines)"; grep -m2 -A1 '^VIOLATION' $T/.out_$c | cut -c1-300; tail -1 $T/.out_$c | cut -c1-200
done
rm -rf $T
