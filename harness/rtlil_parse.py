"""Strict reader for the RTLIL text representation (the format written by amaranth/back/rtlil.py and read by
Yosys' `read_rtlil`).  Independent of any particular check: used by C07 (structural well-formedness, spec/RtlilWF.tla)
and meant to be reused by C04 (behavioural equivalence).

Grammar (Yosys manual, chapter "RTLIL text representation"; the body of a process follows the Yosys parser,
which allows any number of switches in a case body):

    file      ::= [autoidx INT EOL] module*
    module    ::= attr* "module" ID EOL mbody* "end" EOL
    mbody     ::= "parameter" ID [const] EOL | wire | memory | cell | process | "connect" sigspec sigspec EOL
    attr      ::= "attribute" ID const EOL
    wire      ::= attr* "wire" wopt* ID EOL
    wopt      ::= "width" INT | "offset" INT | "input" INT | "output" INT | "inout" INT | "upto" | "signed"
    memory    ::= attr* "memory" ("width" INT | "size" INT | "offset" INT)* ID EOL
    cell      ::= attr* "cell" ID ID EOL cbody* "end" EOL
    cbody     ::= "parameter" ["signed" | "real"] ID const EOL | "connect" ID sigspec EOL
    process   ::= attr* "process" ID EOL casebody sync* "end" EOL
    casebody  ::= ( "assign" sigspec sigspec EOL | switch )*
    switch    ::= attr* "switch" sigspec EOL (attr* "case" [sigspec ("," sigspec)*] EOL casebody)* "end" EOL
    sync      ::= "sync" ("low"|"high"|"posedge"|"negedge"|"edge") sigspec EOL upd*
                | "sync" ("global"|"init"|"always") EOL upd*
    upd       ::= "update" sigspec sigspec EOL
    sigspec   ::= const | ID | sigspec "[" INT [":" INT] "]" | "{" sigspec* "}"
    const     ::= VALUE | INT | STRING
    ID        ::= ("\\" | "$") followed by any characters up to the next blank
    VALUE     ::= DIGITS "'" ["s"] (0|1|x|z|m|-)*           (MSB first)
    INT       ::= ["-"] DIGITS          STRING ::= '"' (escapes \\n \\t \\r \\" \\\\ and octal \\ooo) '"'
    '#' starts a comment; statements are terminated by end of line.

Anything else raises RtlilSyntaxError (line, column, message).  The parser is *syntactic*: it does not reject
documents that are grammatical but inconsistent (unknown wires, slices out of range, duplicate names, width
mismatches, several drivers) -- those judgements belong to the specification RtlilWF.  It only refuses what it cannot
represent: a slice applied to a constant/concatenation that falls outside of it.

Result of parse(text) (JSON-able; every list keeps source order; nothing is de-duplicated):

  {"autoidx": int|None,
   "modules": [ {"name": "\\top", "line": n, "attrs": [[name, const]...], "params": [[name, const|None]...],
                 "wires":     [{"name", "width", "offset", "upto", "signed", "port": None | {"dir": "input"|"output"|"inout", "id": n},
                                "attrs": [[name, const]...], "line"}],
                 "memories":  [{"name", "width", "size", "offset", "attrs", "line"}],
                 "cells":     [{"type", "name", "attrs", "params": [[name, const]...]   (const carries "signed"/"real"),
                                "conns": [[port, sigspec]...], "line"}],
                 "processes": [{"name", "attrs", "body": [item...], "syncs": [{"type", "signal": sigspec|None,
                                "updates": [[lhs, rhs]...], "line"}], "line"}],
                 "connects":  [{"lhs": sigspec, "rhs": sigspec, "line"}],
                 "order":     [["wire"|"memory"|"cell"|"process"|"connect", index]...]       (declaration order) } ] }

  item     = {"k": "assign", "lhs": sigspec, "rhs": sigspec, "line"}
           | {"k": "switch", "sel": sigspec, "attrs", "cases": [{"patterns": [sigspec...] ([] = default), "attrs",
                                                                 "body": [item...], "line"}], "line"}
  const    = {"t": "int", "v": n} | {"t": "str", "v": text} | {"t": "bits", "w": n, "bits": "<MSB first>", "s": bool}
             (digits are truncated / extended to the width as Yosys does; "ndigits": k is added when k != w digits were written)
             (+ "signed": True / "real": True when the parameter statement carried that keyword)
  sigspec  = {"chunks": [chunk...], "width": n | None}          chunks are listed LSB FIRST
  chunk    = {"k": "const", "bits": "<bit i at index i, LSB first>", "width": n}
           | {"k": "wire", "name": id, "lo": n, "hi": n, "whole": bool}     bits lo..hi of the wire, lo is the LSB of the chunk;
             whole=True for a bare wire id: lo=0, hi=width-1 of the wire declared in the same module (anywhere in it);
             if no such wire exists hi=-1 and "unknown": True, and the sigspec's width is None.
  A plain integer used as a sigspec is a 32-bit constant, a string 8 bits per character (Yosys semantics).

Helpers: sigspec_bits, const_int, attrs_dict, params_dict, cell_port_width, CELL_TABLE, wf_document (the plain
restructuring consumed by spec/RtlilWF.tla), iter_items (walk a process body).
"""
import re

__all__ = ["parse", "RtlilSyntaxError", "CELL_TABLE", "AMARANTH_EMITS", "sigspec_bits", "const_int", "attrs_dict",
           "params_dict", "cell_port_width", "cell_output_ports", "wf_document", "iter_items", "wf_const"]


class RtlilSyntaxError(Exception):
    def __init__(self, line, col, msg, text=""):
        super().__init__("line %d, column %d: %s%s" % (line, col, msg, ("  [%s]" % text.strip()[:120]) if text else ""))
        self.line = line
        self.col = col
        self.msg = msg


# ------------------------------------------------------------------------------------------------------------------
# lexer
# ------------------------------------------------------------------------------------------------------------------
KEYWORDS = frozenset("""autoidx module attribute parameter signed real wire memory width upto offset size input output
inout cell connect switch case assign sync low high posedge negedge edge always global init update memwr process end""".split())

_TOKEN = re.compile(r"""
    (?P<ws>[ \t\r]+)
  | (?P<comment>\#.*)
  | (?P<str>"(?:[^"\\]|\\.)*")
  | (?P<id>[\\$][^ \t\r\n]+)
  | (?P<value>[0-9]+'s?[01xzm-]*)(?![0-9A-Za-z_'])
  | (?P<int>-?[0-9]+)(?![0-9A-Za-z_'])
  | (?P<kw>[a-z_]+)(?![0-9A-Za-z_'])
  | (?P<punct>[\[\]\{\}:,])
""", re.X)

_STR_ESC = {"n": "\n", "t": "\t", "r": "\r", '"': '"', "\\": "\\"}


def _unescape(s, line, col):
    out = []
    i = 1
    n = len(s) - 1
    while i < n:
        c = s[i]
        if c == "\\":
            i += 1
            d = s[i]
            if d in _STR_ESC:
                out.append(_STR_ESC[d])
            elif d in "01234567":
                j = i
                while j < n and j < i + 3 and s[j] in "01234567":
                    j += 1
                out.append(chr(int(s[i:j], 8)))
                i = j - 1
            else:
                raise RtlilSyntaxError(line, col + i, "unknown escape \\%s in string" % d)
        else:
            out.append(c)
        i += 1
    return "".join(out)


def _lex_line(text, lineno):
    toks = []
    pos = 0
    n = len(text)
    while pos < n:
        m = _TOKEN.match(text, pos)
        if not m:
            raise RtlilSyntaxError(lineno, pos + 1, "unexpected character %r" % text[pos], text)
        k = m.lastgroup
        if k not in ("ws", "comment"):
            v = m.group(k)
            if k == "kw" and v not in KEYWORDS:
                raise RtlilSyntaxError(lineno, pos + 1, "unknown keyword %r" % v, text)
            toks.append((k, v, pos + 1))
        pos = m.end()
    return toks


class _Lines:
    """Token lines (blank and comment-only lines dropped) with one-line lookahead."""

    def __init__(self, text):
        self.lines = []
        if "\0" in text:
            raise RtlilSyntaxError(1, 1, "NUL character in input")
        raw = text.split("\n")
        for i, ln in enumerate(raw):
            toks = _lex_line(ln, i + 1)
            if toks:
                self.lines.append((i + 1, toks, ln))
        if self.lines and self.lines[-1][0] == len(raw):
            raise RtlilSyntaxError(len(raw), len(raw[-1]) + 1, "last statement is not terminated by end of line")
        self.i = 0

    def peek(self):
        return self.lines[self.i] if self.i < len(self.lines) else None

    def head(self):
        """Keyword that starts the next line, or None at end of input."""
        ln = self.peek()
        if ln is None:
            return None
        k, v, col = ln[1][0]
        if k != "kw":
            raise RtlilSyntaxError(ln[0], col, "statement must start with a keyword, found %r" % v, ln[2])
        return v

    def take(self):
        ln = self.lines[self.i]
        self.i += 1
        return _Stmt(*ln)

    def eof_error(self, what):
        last = self.lines[-1][0] if self.lines else 1
        return RtlilSyntaxError(last + 1, 1, "unexpected end of input, expected %s" % what)


class _Stmt:
    def __init__(self, lineno, toks, text):
        self.lineno = lineno
        self.toks = toks
        self.text = text
        self.i = 1          # token 0 is the leading keyword

    def err(self, msg, tok=None):
        col = tok[2] if tok else (self.toks[self.i][2] if self.i < len(self.toks) else len(self.text) + 1)
        return RtlilSyntaxError(self.lineno, col, msg, self.text)

    def peek(self):
        return self.toks[self.i] if self.i < len(self.toks) else (None, None, len(self.text) + 1)

    def next(self, what="token"):
        if self.i >= len(self.toks):
            raise self.err("unexpected end of line, expected %s" % what)
        t = self.toks[self.i]
        self.i += 1
        return t

    def expect_kind(self, kind, what):
        t = self.next(what)
        if t[0] != kind:
            raise self.err("expected %s, found %r" % (what, t[1]), t)
        return t[1]

    def accept_kw(self, *words):
        t = self.peek()
        if t[0] == "kw" and t[1] in words:
            self.i += 1
            return t[1]
        return None

    def accept_punct(self, p):
        t = self.peek()
        if t[0] == "punct" and t[1] == p:
            self.i += 1
            return True
        return False

    def end(self):
        if self.i < len(self.toks):
            raise self.err("unexpected %r before end of line" % self.toks[self.i][1])

    def nat(self, what):
        t = self.next(what)
        if t[0] != "int" or t[1].startswith("-"):
            raise self.err("expected %s (a non-negative integer), found %r" % (what, t[1]), t)
        return int(t[1])


# ------------------------------------------------------------------------------------------------------------------
# constants and signal specifications
# ------------------------------------------------------------------------------------------------------------------
def _const_from_token(st, t):
    k, v, col = t
    if k == "int":
        n = int(v)
        if not -2 ** 31 <= n < 2 ** 31:
            raise st.err("integer constant %s does not fit 32 bits" % v, t)
        return {"t": "int", "v": n}
    if k == "str":
        return {"t": "str", "v": _unescape(v, st.lineno, col)}
    if k == "value":
        w, bits = v.split("'", 1)
        signed = bits.startswith("s")
        if signed:
            bits = bits[1:]
        w = int(w)
        nd = len(bits)
        if len(bits) > w:
            # more digits than the width: grammatical; Yosys keeps the least significant `w` digits
            # (amaranth writes the zero-width constant as 0'0)
            bits = bits[len(bits) - w:]
        if len(bits) < w:
            # fewer digits: Yosys extends with the most significant digit if it is x or z, with 0 otherwise
            pad = bits[0] if bits and bits[0] in "xz" else "0"
            bits = pad * (w - len(bits)) + bits
        if nd != w:
            return {"t": "bits", "w": w, "bits": bits, "s": signed, "ndigits": nd}
        return {"t": "bits", "w": w, "bits": bits, "s": signed}
    raise st.err("expected a constant, found %r" % (v,), t)


def _parse_const(st):
    return _const_from_token(st, st.next("constant"))


def _const_chunk(c):
    if c["t"] == "int":
        v = c["v"] & 0xFFFFFFFF
        bits = "".join("1" if (v >> i) & 1 else "0" for i in range(32))
    elif c["t"] == "str":
        data = c["v"].encode("latin-1", "replace")
        v = int.from_bytes(data, "big") if data else 0
        bits = "".join("1" if (v >> i) & 1 else "0" for i in range(8 * len(data)))
    else:
        bits = c["bits"][::-1]
    return {"k": "const", "bits": bits, "width": len(bits)}


# A sigspec under construction is a list of bit descriptors, LSB first:
#   ("c", ch) constant digit;  ("w", name, index) wire bit;  ("W", name) placeholder for a whole wire (expanded later)
def _parse_sigspec(st):
    t = st.next("signal specification")
    k, v, col = t
    if k in ("int", "str", "value"):
        ch = _const_chunk(_const_from_token(st, t))
        bits = [("c", b) for b in ch["bits"]]
    elif k == "id":
        bits = [("W", v)]
    elif k == "punct" and v == "{":
        parts = []
        while not st.accept_punct("}"):
            if st.peek()[0] is None:
                raise st.err("unterminated '{'")
            parts.append(_parse_sigspec(st))
        bits = []
        for p in reversed(parts):          # text lists the most significant part first
            bits.extend(p)
    else:
        raise st.err("expected a signal specification, found %r" % (v,), t)
    while st.accept_punct("["):
        hi = st.next("bit index")
        if hi[0] != "int":
            raise st.err("expected a bit index, found %r" % (hi[1],), hi)
        hi_v = int(hi[1])
        lo_v = hi_v
        if st.accept_punct(":"):
            lo = st.next("bit index")
            if lo[0] != "int":
                raise st.err("expected a bit index, found %r" % (lo[1],), lo)
            lo_v = int(lo[1])
        if not st.accept_punct("]"):
            raise st.err("expected ']'")
        if len(bits) == 1 and bits[0][0] == "W":
            # slice of a wire: kept symbolic, bounds are judged by the specification, not here
            bits = [("S", bits[0][1], lo_v, hi_v)]
        elif len(bits) == 1 and bits[0][0] == "S":
            _, name, lo0, hi0 = bits[0]
            if lo_v < 0 or hi_v < lo_v or lo0 + hi_v > hi0:
                raise st.err("slice [%d:%d] outside of the sliced signal specification" % (hi_v, lo_v), hi)
            bits = [("S", name, lo0 + lo_v, lo0 + hi_v)]
        else:
            if any(b[0] in ("W", "S") for b in bits):
                raise st.err("slice of a concatenation containing wires is not supported by this reader", hi)
            if lo_v < 0 or hi_v < lo_v or hi_v >= len(bits):
                raise st.err("slice [%d:%d] outside of a %d-bit constant" % (hi_v, lo_v, len(bits)), hi)
            bits = bits[lo_v:hi_v + 1]
    return bits


def _finish_sigspec(bits, widths):
    """Bit descriptors -> {"chunks", "width"}; adjacent constant digits are merged, wire references kept as written."""
    chunks = []
    width = 0
    for b in bits:
        if b[0] == "c":
            if chunks and chunks[-1]["k"] == "const":
                chunks[-1]["bits"] += b[1]
                chunks[-1]["width"] += 1
            else:
                chunks.append({"k": "const", "bits": b[1], "width": 1})
            if width is not None:
                width += 1
        elif b[0] == "W":
            w = widths.get(b[1])
            if w is None:
                chunks.append({"k": "wire", "name": b[1], "lo": 0, "hi": -1, "whole": True, "unknown": True})
                width = None
            else:
                chunks.append({"k": "wire", "name": b[1], "lo": 0, "hi": w - 1, "whole": True})
                if width is not None:
                    width += w
        else:
            _, name, lo, hi = b
            chunks.append({"k": "wire", "name": name, "lo": lo, "hi": hi, "whole": False})
            if width is not None:
                width += max(0, hi - lo + 1)
    return {"chunks": chunks, "width": width}


# ------------------------------------------------------------------------------------------------------------------
# statements
# ------------------------------------------------------------------------------------------------------------------
def _parse_attr(st):
    name = st.expect_kind("id", "attribute name")
    c = _parse_const(st)
    st.end()
    return [name, c]


def _take_attrs(L):
    attrs = []
    while L.head() == "attribute":
        attrs.append(_parse_attr(L.take()))
    return attrs


def _parse_wire(st, attrs):
    w = {"name": None, "width": 1, "offset": 0, "upto": False, "signed": False, "port": None, "attrs": attrs,
         "line": st.lineno}
    seen = set()
    while True:
        t = st.peek()
        if t[0] == "kw":
            opt = t[1]
            if opt not in ("width", "offset", "input", "output", "inout", "upto", "signed"):
                raise st.err("unknown wire option %r" % opt, t)
            key = "port" if opt in ("input", "output", "inout") else opt
            if key in seen:
                raise st.err("wire option %r given twice" % opt, t)
            seen.add(key)
            st.next()
            if opt == "width":
                w["width"] = st.nat("wire width")
            elif opt == "offset":
                o = st.next("offset")
                if o[0] != "int":
                    raise st.err("expected an integer offset", o)
                w["offset"] = int(o[1])
            elif opt in ("input", "output", "inout"):
                w["port"] = {"dir": opt, "id": st.nat("port index")}
            else:
                w[opt] = True
        else:
            break
    w["name"] = st.expect_kind("id", "wire name")
    st.end()
    return w


def _parse_memory(st, attrs):
    m = {"name": None, "width": 1, "size": 0, "offset": 0, "attrs": attrs, "line": st.lineno}
    seen = set()
    while st.peek()[0] == "kw":
        t = st.next()
        if t[1] not in ("width", "size", "offset"):
            raise st.err("unknown memory option %r" % t[1], t)
        if t[1] in seen:
            raise st.err("memory option %r given twice" % t[1], t)
        seen.add(t[1])
        m[t[1]] = st.nat("memory " + t[1])
    m["name"] = st.expect_kind("id", "memory name")
    st.end()
    return m


def _parse_cell(L, st, attrs, pending):
    c = {"type": st.expect_kind("id", "cell type"), "name": None, "attrs": attrs, "params": [], "conns": [],
         "line": st.lineno}
    c["name"] = st.expect_kind("id", "cell name")
    st.end()
    while True:
        h = L.head()
        if h is None:
            raise L.eof_error("'end' of cell %s" % c["name"])
        s = L.take()
        if h == "end":
            s.end()
            return c
        if h == "parameter":
            mod = s.accept_kw("signed", "real")
            name = s.expect_kind("id", "parameter name")
            v = _parse_const(s)
            s.end()
            if mod == "signed":
                v["signed"] = True
            elif mod == "real":
                if v["t"] != "str":
                    raise s.err("a real parameter must be written as a string")
                v["real"] = True
            c["params"].append([name, v])
        elif h == "connect":
            port = s.expect_kind("id", "cell port name")
            spec = _parse_sigspec(s)
            s.end()
            slot = [port, None]
            pending.append((slot, 1, spec))
            c["conns"].append(slot)
        else:
            raise s.err("unexpected %r inside a cell" % h, s.toks[0])


def _parse_case_body(L, pending, what):
    """(assign | switch)* ; returns the items, stops before 'case', 'end', 'sync'."""
    items = []
    while True:
        h = L.head()
        if h is None:
            raise L.eof_error("'end' of %s" % what)
        if h == "assign":
            s = L.take()
            lhs = _parse_sigspec(s)
            rhs = _parse_sigspec(s)
            s.end()
            it = {"k": "assign", "lhs": None, "rhs": None, "line": s.lineno}
            pending.append((it, "lhs", lhs))
            pending.append((it, "rhs", rhs))
            items.append(it)
        elif h in ("attribute", "switch"):
            mark = L.i
            attrs = _take_attrs(L)
            if attrs and L.head() == "case":
                L.i = mark          # the attributes belong to the next case of the enclosing switch
                return items
            if L.head() != "switch":
                ln = L.peek()
                if ln is None:
                    raise L.eof_error("'switch' after attributes")
                raise RtlilSyntaxError(ln[0], 1, "attributes inside a process body must be followed by 'switch'", ln[2])
            s = L.take()
            sel = _parse_sigspec(s)
            s.end()
            sw = {"k": "switch", "sel": None, "attrs": attrs, "cases": [], "line": s.lineno}
            pending.append((sw, "sel", sel))
            while True:
                cattrs = _take_attrs(L)
                h2 = L.head()
                if h2 is None:
                    raise L.eof_error("'end' of switch")
                if h2 == "end":
                    if cattrs:
                        ln = L.peek()
                        raise RtlilSyntaxError(ln[0], 1, "attributes must be followed by 'case'", ln[2])
                    L.take().end()
                    break
                if h2 != "case":
                    ln = L.peek()
                    raise RtlilSyntaxError(ln[0], 1, "expected 'case' or 'end' inside a switch, found %r" % h2, ln[2])
                s = L.take()
                case = {"patterns": [], "attrs": cattrs, "body": None, "line": s.lineno}
                if s.peek()[0] is not None:
                    while True:
                        pat = _parse_sigspec(s)
                        case["patterns"].append(None)
                        pending.append((case["patterns"], len(case["patterns"]) - 1, pat))
                        if not s.accept_punct(","):
                            break
                s.end()
                case["body"] = _parse_case_body(L, pending, "switch")
                sw["cases"].append(case)
            items.append(sw)
        else:
            return items


def _parse_process(L, st, attrs, pending):
    p = {"name": st.expect_kind("id", "process name"), "attrs": attrs, "body": None, "syncs": [], "line": st.lineno}
    st.end()
    p["body"] = _parse_case_body(L, pending, "process %s" % p["name"])
    while True:
        h = L.head()
        if h is None:
            raise L.eof_error("'end' of process %s" % p["name"])
        s = L.take()
        if h == "end":
            s.end()
            return p
        if h != "sync":
            raise s.err("unexpected %r in a process after the case body" % h, s.toks[0])
        ty = s.accept_kw("low", "high", "posedge", "negedge", "edge", "global", "init", "always")
        if ty is None:
            raise s.err("expected a sync type")
        sy = {"type": ty, "signal": None, "updates": [], "line": s.lineno}
        if ty in ("low", "high", "posedge", "negedge", "edge"):
            pending.append((sy, "signal", _parse_sigspec(s)))
        s.end()
        while L.head() == "update":
            u = L.take()
            lhs = _parse_sigspec(u)
            rhs = _parse_sigspec(u)
            u.end()
            slot = [None, None]
            pending.append((slot, 0, lhs))
            pending.append((slot, 1, rhs))
            sy["updates"].append(slot)
        if L.head() == "memwr":
            ln = L.peek()
            raise RtlilSyntaxError(ln[0], 1, "'memwr' sync actions are not supported by this reader", ln[2])
        p["syncs"].append(sy)


def _parse_module(L, attrs):
    st = L.take()
    m = {"name": st.expect_kind("id", "module name"), "line": st.lineno, "attrs": attrs, "params": [], "wires": [],
         "memories": [], "cells": [], "processes": [], "connects": [], "order": []}
    st.end()
    pending = []        # (container, key, bit descriptors): sigspecs are finished once all wires are known
    while True:
        a = _take_attrs(L)
        h = L.head()
        if h is None:
            raise L.eof_error("'end' of module %s" % m["name"])
        s = L.take()
        if h == "end":
            if a:
                raise s.err("attributes must be followed by wire, memory, cell or process", s.toks[0])
            s.end()
            break
        if h == "wire":
            m["order"].append(["wire", len(m["wires"])])
            m["wires"].append(_parse_wire(s, a))
        elif h == "memory":
            m["order"].append(["memory", len(m["memories"])])
            m["memories"].append(_parse_memory(s, a))
        elif h == "cell":
            m["order"].append(["cell", len(m["cells"])])
            m["cells"].append(_parse_cell(L, s, a, pending))
        elif h == "process":
            m["order"].append(["process", len(m["processes"])])
            m["processes"].append(_parse_process(L, s, a, pending))
        elif h == "connect":
            if a:
                raise s.err("a connect statement cannot carry attributes", s.toks[0])
            lhs = _parse_sigspec(s)
            rhs = _parse_sigspec(s)
            s.end()
            c = {"lhs": None, "rhs": None, "line": s.lineno}
            pending.append((c, "lhs", lhs))
            pending.append((c, "rhs", rhs))
            m["order"].append(["connect", len(m["connects"])])
            m["connects"].append(c)
        elif h == "parameter":
            if a:
                raise s.err("a module parameter cannot carry attributes", s.toks[0])
            name = s.expect_kind("id", "parameter name")
            v = _parse_const(s) if s.peek()[0] is not None else None
            s.end()
            m["params"].append([name, v])
        else:
            raise s.err("unexpected %r in a module body" % h, s.toks[0])
    widths = {}
    for w in m["wires"]:
        widths.setdefault(w["name"], w["width"])
    for obj, key, bits in pending:
        obj[key] = _finish_sigspec(bits, widths)
    return m


def parse(text):
    """RTLIL text -> document (see module docstring).  Raises RtlilSyntaxError on anything outside the grammar."""
    if not isinstance(text, str):
        raise TypeError("RTLIL text must be a str")
    L = _Lines(text)
    doc = {"autoidx": None, "modules": []}
    if L.head() == "autoidx":
        s = L.take()
        doc["autoidx"] = s.nat("autoidx value")
        s.end()
    while L.head() is not None:
        attrs = _take_attrs(L)
        h = L.head()
        if h != "module":
            ln = L.peek()
            if ln is None:
                raise L.eof_error("'module' after attributes")
            raise RtlilSyntaxError(ln[0], ln[1][0][2], "expected 'module' at top level, found %r" % h, ln[2])
        doc["modules"].append(_parse_module(L, attrs))
    return doc


# ------------------------------------------------------------------------------------------------------------------
# helpers on parsed documents
# ------------------------------------------------------------------------------------------------------------------
def sigspec_bits(spec):
    """LSB-first list of bits: "0" "1" "x" "z" "m" "-" for constant digits, (wire name, bit index) for wire bits.
    (A whole reference to an unknown wire contributes nothing.)"""
    out = []
    for ch in spec["chunks"]:
        if ch["k"] == "const":
            out.extend(ch["bits"])
        else:
            out.extend((ch["name"], i) for i in range(ch["lo"], ch["hi"] + 1))
    return out


def const_int(c, signed=None):
    """Integer value of a constant (None if it has x/z digits or is a string). signed defaults to the constant's own flag."""
    if c["t"] == "int":
        return c["v"]
    if c["t"] == "str":
        return None
    if any(b not in "01" for b in c["bits"]):
        return None
    v = int(c["bits"], 2) if c["bits"] else 0
    sg = c.get("signed", c.get("s", False)) if signed is None else signed
    if sg and c["w"] and c["bits"][0] == "1":
        v -= 1 << c["w"]
    return v


def attrs_dict(pairs):
    """[[name, const]...] -> {name: const} (later entries win, as in Yosys)."""
    return {k: v for k, v in pairs}


def params_dict(cell):
    return {k: v for k, v in cell["params"]}


def iter_items(body):
    """All assign/switch items of a process body, depth first, in source order."""
    for it in body:
        yield it
        if it["k"] == "switch":
            for case in it["cases"]:
                yield from iter_items(case["body"])


# ------------------------------------------------------------------------------------------------------------------
# cell library: the internal cell types of Yosys (manual chapter "Internal cell library") that amaranth emits,
# plus a few close relatives.  port -> (direction, width factors); the width of a port is the product of the
# factors, a factor being an integer or the name of an integer parameter of the cell.
# ------------------------------------------------------------------------------------------------------------------
def _unary():
    return {"ports": {"A": ("in", ("A_WIDTH",)), "Y": ("out", ("Y_WIDTH",))}, "params": ("A_SIGNED", "A_WIDTH", "Y_WIDTH")}


def _binary():
    return {"ports": {"A": ("in", ("A_WIDTH",)), "B": ("in", ("B_WIDTH",)), "Y": ("out", ("Y_WIDTH",))},
            "params": ("A_SIGNED", "B_SIGNED", "A_WIDTH", "B_WIDTH", "Y_WIDTH")}


CELL_TABLE = {}
for _t in ("$not", "$neg", "$pos", "$reduce_and", "$reduce_or", "$reduce_xor", "$reduce_xnor", "$reduce_bool", "$logic_not"):
    CELL_TABLE[_t] = _unary()
for _t in ("$add", "$sub", "$mul", "$div", "$mod", "$divfloor", "$modfloor", "$shl", "$shr", "$sshl", "$sshr", "$shift",
           "$shiftx", "$and", "$or", "$xor", "$xnor", "$eq", "$ne", "$eqx", "$nex", "$lt", "$le", "$gt", "$ge",
           "$logic_and", "$logic_or", "$pow"):
    CELL_TABLE[_t] = _binary()
CELL_TABLE.update({
    "$mux": {"ports": {"A": ("in", ("WIDTH",)), "B": ("in", ("WIDTH",)), "S": ("in", (1,)), "Y": ("out", ("WIDTH",))},
             "params": ("WIDTH",)},
    "$pmux": {"ports": {"A": ("in", ("WIDTH",)), "B": ("in", ("WIDTH", "S_WIDTH")), "S": ("in", ("S_WIDTH",)),
                        "Y": ("out", ("WIDTH",))}, "params": ("WIDTH", "S_WIDTH")},
    "$tribuf": {"ports": {"A": ("in", ("WIDTH",)), "EN": ("in", (1,)), "Y": ("out", ("WIDTH",))}, "params": ("WIDTH",)},
    "$dff": {"ports": {"D": ("in", ("WIDTH",)), "CLK": ("in", (1,)), "Q": ("out", ("WIDTH",))},
             "params": ("WIDTH", "CLK_POLARITY")},
    "$dffe": {"ports": {"D": ("in", ("WIDTH",)), "CLK": ("in", (1,)), "EN": ("in", (1,)), "Q": ("out", ("WIDTH",))},
              "params": ("WIDTH", "CLK_POLARITY", "EN_POLARITY")},
    "$adff": {"ports": {"D": ("in", ("WIDTH",)), "CLK": ("in", (1,)), "ARST": ("in", (1,)), "Q": ("out", ("WIDTH",))},
              "params": ("WIDTH", "CLK_POLARITY", "ARST_POLARITY", "ARST_VALUE")},
    "$meminit_v2": {"ports": {"ADDR": ("in", ("ABITS",)), "DATA": ("in", ("WIDTH", "WORDS")), "EN": ("in", ("WIDTH",))},
                    "params": ("MEMID", "ABITS", "WIDTH", "WORDS", "PRIORITY")},
    "$memwr_v2": {"ports": {"ADDR": ("in", ("ABITS",)), "DATA": ("in", ("WIDTH",)), "EN": ("in", ("WIDTH",)),
                            "CLK": ("in", (1,))},
                  "params": ("MEMID", "ABITS", "WIDTH", "CLK_ENABLE", "CLK_POLARITY", "PORTID", "PRIORITY_MASK")},
    "$memrd_v2": {"ports": {"ADDR": ("in", ("ABITS",)), "DATA": ("out", ("WIDTH",)), "EN": ("in", (1,)), "CLK": ("in", (1,)),
                            "ARST": ("in", (1,)), "SRST": ("in", (1,))},
                  "params": ("MEMID", "ABITS", "WIDTH", "TRANSPARENCY_MASK", "COLLISION_X_MASK", "ARST_VALUE", "SRST_VALUE",
                             "INIT_VALUE", "CE_OVER_SRST", "CLK_ENABLE", "CLK_POLARITY")},
    "$print": {"ports": {"EN": ("in", (1,)), "ARGS": ("in", ("ARGS_WIDTH",)), "TRG": ("in", ("TRG_WIDTH",))},
               "params": ("FORMAT", "ARGS_WIDTH", "PRIORITY", "TRG_ENABLE", "TRG_WIDTH", "TRG_POLARITY")},
    "$check": {"ports": {"EN": ("in", (1,)), "ARGS": ("in", ("ARGS_WIDTH",)), "TRG": ("in", ("TRG_WIDTH",)),
                         "A": ("in", (1,))},
               "params": ("FORMAT", "ARGS_WIDTH", "PRIORITY", "TRG_ENABLE", "TRG_WIDTH", "TRG_POLARITY", "FLAVOR")},
    "$anyconst": {"ports": {"Y": ("out", ("WIDTH",))}, "params": ("WIDTH",)},
    "$anyseq": {"ports": {"Y": ("out", ("WIDTH",))}, "params": ("WIDTH",)},
    "$allconst": {"ports": {"Y": ("out", ("WIDTH",))}, "params": ("WIDTH",)},
    "$allseq": {"ports": {"Y": ("out", ("WIDTH",))}, "params": ("WIDTH",)},
    "$initstate": {"ports": {"Y": ("out", (1,))}, "params": ()},
})
del _t

# exactly the cell types amaranth/back/rtlil.py can emit (ModuleEmitter.emit_operator/emit_part/emit_flip_flop/
# emit_io_buffer/emit_memory/emit_write_port/emit_read_port/emit_print/emit_any_value/emit_initial)
AMARANTH_EMITS = frozenset("""$neg $not $reduce_bool $reduce_or $reduce_and $reduce_xor
$add $sub $mul $divfloor $modfloor $shl $shr $sshr $and $or $xor $eq $ne $lt $gt $le $ge $mux $shift
$dff $adff $tribuf $meminit_v2 $memwr_v2 $memrd_v2 $print $check $anyconst $anyseq $initstate""".split())


def cell_port_width(cell, port):
    """Width the cell library prescribes for `port` of an internal cell, from the cell's parameters; None if the
    type/port is not in the table or a needed parameter is missing or not an integer."""
    ent = CELL_TABLE.get(cell["type"])
    if ent is None or port not in ent["ports"]:
        return None
    ps = params_dict(cell)
    w = 1
    for f in ent["ports"][port][1]:
        if isinstance(f, int):
            w *= f
        else:
            v = const_int(ps[f], signed=False) if f in ps else None
            if v is None:
                return None
            w *= v
    return w


def cell_output_ports(cell_type):
    """Names of the output ports of an internal cell type (None for unknown types, e.g. module instances)."""
    ent = CELL_TABLE.get(cell_type)
    if ent is None:
        return None
    return [p for p, (d, _w) in ent["ports"].items() if d == "out"]


# ------------------------------------------------------------------------------------------------------------------
# the form read by spec/RtlilWF.tla: positional tuples only, no judgement (no widths compared, nothing counted,
# nothing looked up) -- plain restructuring of the parse result.
# ------------------------------------------------------------------------------------------------------------------
def _wf_name(n):
    """RTLIL identifiers are passed on unchanged, sigil included (TLC prints and compares them as ordinary strings)."""
    return n


def _wf_chunks(spec):
    """sigspec -> [[kind, name-or-digits, lo, hi]...] LSB first; kind "c" constant (list of digits LSB first, lo=0, hi=n-1),
    "w" wire slice lo..hi, "W" whole wire (bounds to be resolved by the reader of the document)."""
    out = []
    for ch in spec["chunks"]:
        if ch["k"] == "const":
            out.append(["c", list(ch["bits"]), 0, ch["width"] - 1])
        elif ch["whole"]:
            out.append(["W", _wf_name(ch["name"]), 0, 0])
        else:
            out.append(["w", _wf_name(ch["name"]), ch["lo"], ch["hi"]])
    return out


def wf_const(c):
    """constant -> [kind, int, digits, flag]: ["int", v, [], ""], ["str", 0, [], text],
    ["bits", width, [bit...] LSB first as "0"/"1"/"x"/..., "signed"|""], ["real", 0, [], text]."""
    if c.get("real"):
        return ["real", 0, [], c["v"]]
    if c["t"] == "int":
        v = c["v"]
        if not -(1 << 31) < v < (1 << 31):      # beyond TLC's integers: binary digits (see c07.wide_int)
            w = ((-v - 1).bit_length() + 1) if v < 0 else v.bit_length()
            u = v & ((1 << w) - 1)
            return ["wint", 0, ["1" if (u >> i) & 1 else "0" for i in range(w)], "neg" if v < 0 else ""]
        return ["int", v, [], "signed" if c.get("signed") else ""]
    if c["t"] == "str":
        return ["str", 0, [], c["v"]]
    return ["bits", c["w"], list(c["bits"][::-1]), "signed" if (c.get("signed") or c.get("s")) else ""]


def _wf_process(p):
    assigns = []
    switches = []
    for it in iter_items(p["body"]):
        if it["k"] == "assign":
            assigns.append([_wf_chunks(it["lhs"]), _wf_chunks(it["rhs"]), it["line"]])
        else:
            switches.append([_wf_chunks(it["sel"]), [[_wf_chunks(pat) for pat in case["patterns"]] for case in it["cases"]],
                             it["line"]])
    for sy in p["syncs"]:
        for lhs, rhs in sy["updates"]:
            assigns.append([_wf_chunks(lhs), _wf_chunks(rhs), sy["line"]])
    return [_wf_name(p["name"]), assigns, switches, p["line"]]


def wf_document(doc, foreign=(), origin=None):
    """Parsed document -> the data RtlilWF reads.

      {"mods": [{"name", "attrs": [[name, const]...], "wires": [[name, width, dir|"" , port id, line]...], "mems": [[name, width, size, line]...],
                 "cells": [[type, name, [[param, const]...], [[port, chunks]...], [[attr, const]...], line]...],
                 "procs": [[name, [[lhs, rhs, line]...], [[sel, [[pattern...]...], line]...], line]...],
                 "conns": [[lhs, rhs, line]...]}...],
       "foreign": [[type, [[param, const]...], [[attr, const]...], [[port, dir "i"|"o"|"io", width, expected chunks or []]...]]...],
       "origin": anything printable (ignored by the spec)}

    `foreign` describes the instances of modules that are *not* part of the document (amaranth `Instance`), as the
    author of the design stated them; constants in wf_const form."""
    mods = []
    for m in doc["modules"]:
        mods.append({
            "name": _wf_name(m["name"]),
            "attrs": [[_wf_name(k), wf_const(v)] for k, v in m["attrs"]],
            "wires": [[_wf_name(w["name"]), w["width"], w["port"]["dir"] if w["port"] else "",
                       w["port"]["id"] if w["port"] else 0, w["line"]] for w in m["wires"]],
            "mems": [[_wf_name(x["name"]), x["width"], x["size"], x["line"]] for x in m["memories"]],
            "cells": [[_wf_name(c["type"]), _wf_name(c["name"]),
                       [[_wf_name(k), wf_const(v)] for k, v in c["params"]],
                       [[_wf_name(k), _wf_chunks(v)] for k, v in c["conns"]],
                       [[_wf_name(k), wf_const(v)] for k, v in c["attrs"]], c["line"]] for c in m["cells"]],
            "procs": [_wf_process(p) for p in m["processes"]],
            "conns": [[_wf_chunks(c["lhs"]), _wf_chunks(c["rhs"]), c["line"]] for c in m["connects"]],
        })
    return {"mods": mods, "foreign": list(foreign), "origin": origin if origin is not None else ""}
