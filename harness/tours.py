"""State graphs dumped by TLC (`-dump dot,actionlabels`) and edge-covering walks over them."""
import re
from collections import deque

from . import tlaval

_node = re.compile(r'^(-?\d+) \[label="((?:[^"\\]|\\.)*)"(?:,|\])')
_edge = re.compile(r'^(-?\d+) -> (-?\d+) \[label="((?:[^"\\]|\\.)*)"')


class Graph:
    def __init__(self):
        self.nodes = {}      # id -> state dict (parsed lazily)
        self._raw = {}
        self.out = {}        # id -> list of (label, dst)
        self.init = []

    def state(self, nid):
        if nid not in self.nodes:
            self.nodes[nid] = tlaval.parse_conj(self._raw[nid].replace("\\n", "\n").replace("\\\\", "\\").replace('\\"', '"'))
        return self.nodes[nid]

    @property
    def n_edges(self):
        return sum(len(v) for v in self.out.values())


def parse_action(label):
    """'Cycle(TRUE,0,FALSE)' -> ('Cycle', (True, 0, False))"""
    m = re.match(r"^(\w+)(?:\((.*)\))?$", label.replace("\\n", " "), re.S)
    if not m:
        return label, ()
    if m.group(2) is None or m.group(2).strip() == "":
        return m.group(1), ()
    args = tlaval.parse("<<" + m.group(2).replace('\\"', '"') + ">>")
    return m.group(1), args


def load_dot(path):
    g = Graph()
    with open(path) as f:
        for line in f:
            m = _edge.match(line)
            if m:
                s, d, lab = int(m.group(1)), int(m.group(2)), m.group(3)
                g.out.setdefault(s, []).append((lab, d))
                continue
            m = _node.match(line)
            if m:
                nid = int(m.group(1))
                g._raw[nid] = m.group(2)
                g.out.setdefault(nid, [])
                if "style = filled" in line:
                    g.init.append(nid)
    return g


def covering_walks(g, max_len=400, rng=None):
    """Walks (each starting at an initial state) that together traverse every edge of g at least once.
    Returns list of walks; a walk is (init_id, [(label, dst_id), ...])."""
    uncovered = {(s, i) for s, es in g.out.items() for i in range(len(es))}
    by_src = {}
    for s, i in uncovered:
        by_src.setdefault(s, set()).add(i)
    walks = []

    def path_to_uncovered(src):
        # BFS from src to the nearest node with an uncovered out-edge
        if by_src.get(src):
            return []
        prev = {src: None}
        dq = deque([src])
        while dq:
            u = dq.popleft()
            for i, (lab, v) in enumerate(g.out[u]):
                if v in prev:
                    continue
                prev[v] = (u, i)
                if by_src.get(v):
                    path = []
                    x = v
                    while prev[x] is not None:
                        pu, pi = prev[x]
                        path.append((pu, pi))
                        x = pu
                    return list(reversed(path))
                dq.append(v)
        return None

    inits = list(g.init)
    while uncovered:
        progressed = False
        for init in inits:
            cur = init
            walk = []
            while len(walk) < max_len:
                p = path_to_uncovered(cur)
                if p is None:
                    break
                for (u, i) in p:
                    lab, v = g.out[u][i]
                    walk.append((lab, v))
                    cur = v
                idxs = by_src.get(cur)
                if not idxs:
                    break
                i = min(idxs) if rng is None else rng.choice(sorted(idxs))
                idxs.discard(i)
                uncovered.discard((cur, i))
                lab, v = g.out[cur][i]
                walk.append((lab, v))
                cur = v
                progressed = True
            if walk:
                walks.append((init, walk))
            if not uncovered:
                break
        if not progressed:
            break   # remaining edges unreachable from the initial states (cannot happen for TLC graphs)
    return walks
