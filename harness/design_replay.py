"""Replay of AmDesign behaviours (clock domains, resets, control inserters) on the real amaranth (C03).

A behaviour = design configuration (cfg) + list of (event, expected values).  The design is rendered
syntactically: submodule S with r1 (domain d1), r2 (domain d2, reset_less), both loading input d, wrapped in the
stack of ResetInserter / EnableInserter / DomainRenamer; r3 in domain A at the top level."""
from amaranth.hdl import (Signal, Module, ClockDomain, Cat, ResetInserter, EnableInserter, DomainRenamer, signed)
from amaranth.sim import Simulator


def build(cfg):
    top = Module()
    cds = {}
    for name in ("A", "B"):
        dc = cfg[name]
        cd = ClockDomain(name, clk_edge=dc["edge"], reset_less=dc["rst"] == "none", async_reset=dc["rst"] == "async")
        cds[name] = cd
    d = Signal(name="d")
    c = {"c1": Signal(name="c1"), "c2": Signal(name="c2")}
    r1 = Signal(name="r1", init=1)
    r2 = Signal(name="r2", init=1, reset_less=True)
    r3 = Signal(name="r3", init=1)
    s = Module()
    decl = cfg.get("decl", "top")
    outer = top                     # the module holding the logic outside the wrappers (r3)
    if decl == "shadow":            # the top level declares idle namesakes; the real domains are declared where they are used
        outer = Module()
        top.submodules.outer = outer
    for name in ("A", "B"):         # declared at the top level; with decl = "inner" the wrapped submodule declares the
        if decl == "shadow":        # same ClockDomain objects once more itself (domains do not propagate upwards, so the
            dc = cfg[name]          # top level needs its declaration in any case)
            setattr(top.domains, name, ClockDomain(name, clk_edge=dc["edge"], reset_less=dc["rst"] == "none",
                                                   async_reset=dc["rst"] == "async"))
            setattr(s.domains, name, cds[name])
            setattr(outer.domains, name, cds[name])
            continue
        setattr(top.domains, name, cds[name])
        if decl == "inner":
            setattr(s.domains, name, cds[name])
    s.d[cfg["d1"]] += r1.eq(d)
    s.d[cfg["d2"]] += r2.eq(d)
    r4 = Signal(signed(2), name="r4", init=-1)    # one (signed) signal, bits split between the two domains
    s.d[cfg["d1"]] += r4[0].eq(d)
    s.d[cfg["d2"]] += r4[1].eq(d)
    # r5: bits 1..2 of a three-bit register are reached through a slice of a three-part concatenation (they behave
    # like r1: same domain, same data); bit 0 is driven by nothing and keeps its initial value
    p0, p1 = Signal(name="p0"), Signal(name="p1")
    r5 = Signal(3, name="r5", init=7)
    s.d[cfg["d1"]] += Cat(p0, p1, r5)[3:5].eq(Cat(d, d))
    # a one-bit memory row inside S: write port in d1 (data d), read port in d2, transparent read port in d1
    from amaranth.lib.memory import Memory
    mem = Memory(shape=1, depth=2, init=[1, 0])
    s.submodules.mem = mem
    wp = mem.write_port(domain=cfg["d1"])
    rp = mem.read_port(domain=cfg["d2"])
    rt = mem.read_port(domain=cfg["d1"], transparent_for=(wp,))
    s.d.comb += [wp.addr.eq(0), wp.data.eq(d), wp.en.eq(1), rp.addr.eq(0), rt.addr.eq(0)]
    mr, mt = Signal(name="mr"), Signal(name="mt")       # named copies of the read port outputs (ports of the RTLIL)
    top.d.comb += [mr.eq(rp.data), mt.eq(rt.data)]
    wrapped = s
    for w in cfg["ws"]:
        if w["k"] == "reset":
            wrapped = ResetInserter({w["dom"]: c[w["c"]]})(wrapped)
        elif w["k"] == "enable":
            wrapped = EnableInserter({w["dom"]: c[w["c"]]})(wrapped)
        elif w["k"] == "rename":
            wrapped = DomainRenamer({w["dom"]: w["to"]})(wrapped)
        else:
            raise ValueError(w)
    top.submodules.s = wrapped
    outer.d.A += r3.eq(d)
    # keep both domains alive even when every register was renamed into the other one
    ka, kb = Signal(name="ka"), Signal(name="kb")
    outer.d.A += ka.eq(~ka)
    outer.d.B += kb.eq(~kb)
    sigs = {"d": d, "c1": c["c1"], "c2": c["c2"], "r1": r1, "r2": r2, "r3": r3, "r4": r4, "r5": r5, "mw": mem.data[0], "mr": mr, "mt": mt,
            "clkA": cds["A"].clk, "clkB": cds["B"].clk}
    if cfg["A"]["rst"] != "none":
        sigs["rstA"] = cds["A"].rst
    if cfg["B"]["rst"] != "none":
        sigs["rstB"] = cds["B"].rst
    return top, sigs


def run(cfg, events):
    """events: list of ("clk", ca, cb) | ("set", name, value). Returns list of (r1, r2, r3, r4, mw, mr, mt, r5) after each event."""
    top, sigs = build(cfg)
    sim = Simulator(top)
    out = []

    async def tb(ctx):
        for ev in events:
            if ev[0] == "clk":
                ctx.set(Cat(sigs["clkA"], sigs["clkB"]), ev[1] | (ev[2] << 1))
            else:
                ctx.set(sigs[ev[1]], ev[2])
            v4 = ctx.get(sigs["r4"])            # the model speaks of the bit pattern of the (signed) split register
            v4 = v4 & 3 if -2 <= v4 <= 1 else ("not a value of signed(2)", v4)
            out.append((ctx.get(sigs["r1"]), ctx.get(sigs["r2"]), ctx.get(sigs["r3"]), v4,
                        ctx.get(sigs["mw"]), ctx.get(sigs["mr"]), ctx.get(sigs["mt"]), ctx.get(sigs["r5"])))

    sim.add_testbench(tb)
    sim.run()
    return out


def replay_behaviour(job):
    cfg, events, expected = job
    try:
        got = run(cfg, events)
    except Exception as e:
        return {"cfg": cfg, "events": events, "error": "%s: %s" % (type(e).__name__, str(e)[:300]), "step": 0}
    for i, (g, e) in enumerate(zip(got, expected)):
        if tuple(g) != tuple(e):
            return {"cfg": cfg, "events": events, "step": i, "event": events[i], "expected": list(e), "actual": list(g),
                    "expected_all": [list(x) for x in expected[:i + 1]]}
    return None
