"""Replay of AmStmt programs (Module DSL call sequences enumerated by TLC) on the real amaranth.

The vocabulary (names of inputs, targets, catalogue expressions) is the one of spec/MC_AmStmt.tla; this file
only renders names to amaranth objects (purely syntactic) and compares simulated values with TLC's tables."""
import re
import warnings

from amaranth.hdl import Signal, Const, Cat, Array, Module, ClockDomain, signed, unsigned
from amaranth.sim import Simulator

from . import tlaval
from .expr_replay import pat_str

SIG_SHAPES = {1: unsigned(3), 2: signed(3), 3: unsigned(2)}
SIG_INIT = {1: 5, 2: -2, 3: 0}
STATE_NAMES = {1: "S1", 2: "S2", 3: "S3"}


def norm(v, shape):
    w = shape.width
    v &= (1 << w) - 1
    if shape.signed and w and v >> (w - 1):
        v -= 1 << w
    return v


def valuation(k):
    a = (k - 1) % 4
    braw = ((k - 1) // 4) % 4
    b = braw - 4 if braw >= 2 else braw
    pp = ((k - 1) // 16) % 3
    fp = ((k - 1) // 48) % 3 + 1
    return a, b, pp, fp


def fsm2_prev(k):
    return ((k - 1) // 144) % 3 + 1


def prev_of(s, pp):
    if pp == 0:
        return SIG_INIT[s]
    return norm(-1 if pp == 1 else 2, SIG_SHAPES[s])


class Inputs:
    def __init__(self):
        self.a = Signal(2, name="a")
        self.b = Signal(signed(2), name="b")

    def expr(self, name, sigs=None):
        a, b = self.a, self.b
        if name == "p3":          # the register s3 of the program itself (its value before the edge)
            return sigs[3]
        if name == "p30":
            return sigs[3][0]
        return {
            "a": a, "b": b, "a0": a[0], "bneg": b < 0, "aeqb": a == b, "c5": Const(5, 3), "cm1": Const(-1, signed(1)),
            "cm3": Const(-3, signed(3)), "apb": a + b, "z0": Const(0, 0), "wide": Cat(a, b),
        }[name]


def target(t, sigs, inp):
    k = t["k"]
    if k == "sig":
        return sigs[t["i"]]
    if k == "slice":
        return target(t["x"], sigs, inp)[t["lo"]:t["hi"]]
    if k == "cat":
        return Cat(*[target(x, sigs, inp) for x in t["xs"]])
    if k == "part":
        x = target(t["x"], sigs, inp)
        off = inp.expr(t["off"], sigs)
        return x.bit_select(off, t["w"]) if t["stride"] == 1 else x.word_select(off, t["w"])
    if k == "arr":
        return Array([target(x, sigs, inp) for x in t["xs"]])[inp.expr(t["idx"], sigs)]
    if k == "rei":
        x = target(t["x"], sigs, inp)
        return x.as_signed() if t["s"] else x.as_unsigned()
    raise ValueError(k)


def render_target(t):
    k = t["k"]
    if k == "sig":
        return "s%d" % t["i"]
    if k == "slice":
        return "%s[%d:%d]" % (render_target(t["x"]), t["lo"], t["hi"])
    if k == "cat":
        return "Cat(%s)" % ",".join(render_target(x) for x in t["xs"])
    if k == "part":
        return "%s.%s(%s,%d)" % (render_target(t["x"]), "bit_select" if t["stride"] == 1 else "word_select", t["off"], t["w"])
    if k == "arr":
        return "Array([%s])[%s]" % (",".join(render_target(x) for x in t["xs"]), t["idx"])
    if k == "rei":
        return "%s.as_%s()" % (render_target(t["x"]), "signed" if t["s"] else "unsigned")


def render(prog):
    out = []
    for r in prog:
        op = r["op"]
        if op in ("If", "Elif"):
            out.append("%s(%s)" % (op, r["c"]))
        elif op == "Switch":
            out.append("Switch(%s)" % r["t"])
        elif op == "Case":
            out.append("Case(%s)" % ",".join(repr(pat_str(p)) for p in r["ps"]))
        elif op == "FSM":
            out.append("FSM%s(init=%s)" % (r.get("f", ""), STATE_NAMES[r["init"]] if r["init"] else None))
        elif op == "State":
            out.append("State(%s)" % STATE_NAMES[r["s"]])
        elif op == "Next":
            out.append("next=%s" % STATE_NAMES[r["s"]])
        elif op == "Assign":
            out.append("%s:%s.eq(%s)" % (r["d"], render_target(r["t"]), r["r"]))
        else:
            out.append(op)
    return " ; ".join(out)


class Built:
    pass


def build(prog, inp, name):
    """Build a Module from the DSL call sequence. Returns Built(module, sigs, fsm)."""
    m = Module()
    sigs = {i: Signal(SIG_SHAPES[i], init=SIG_INIT[i], name="%s_s%d" % (name, i)) for i in SIG_SHAPES}
    stack = []       # entries: [kind, construct_cm, body_cm]
    fsms = {}

    def close_body(ent):
        if ent[2] is not None:
            ent[2].__exit__(None, None, None)
            ent[2] = None

    with warnings.catch_warnings():
        warnings.simplefilter("ignore")
        for r in prog:
            op = r["op"]
            if op == "If":
                cm = m.If(inp.expr(r["c"]))
                cm.__enter__()
                stack.append(["if", None, cm])
            elif op == "Elif":
                close_body(stack[-1])
                cm = m.Elif(inp.expr(r["c"]))
                cm.__enter__()
                stack[-1][2] = cm
            elif op == "Else":
                close_body(stack[-1])
                cm = m.Else()
                cm.__enter__()
                stack[-1][2] = cm
            elif op == "Switch":
                cm = m.Switch(inp.expr(r["t"]))
                cm.__enter__()
                stack.append(["switch", cm, None])
            elif op == "Case":
                close_body(stack[-1])
                cm = m.Case(*[pat_str(p) for p in r["ps"]])
                cm.__enter__()
                stack[-1][2] = cm
            elif op == "Default":
                close_body(stack[-1])
                cm = m.Default()
                cm.__enter__()
                stack[-1][2] = cm
            elif op == "FSM":
                cm = m.FSM(init=STATE_NAMES[r["init"]] if r["init"] else None, name="fsm%d" % r.get("f", 1))
                fsms[r.get("f", 1)] = cm.__enter__()
                stack.append(["fsm", cm, None])
            elif op == "State":
                close_body(stack[-1])
                cm = m.State(STATE_NAMES[r["s"]])
                cm.__enter__()
                stack[-1][2] = cm
            elif op == "Next":
                m.next = STATE_NAMES[r["s"]]
            elif op == "Assign":
                m.d[r["d"]] += target(r["t"], sigs, inp).eq(inp.expr(r["r"]))
            elif op == "End":
                ent = stack.pop()
                close_body(ent)
                if ent[1] is not None:
                    ent[1].__exit__(None, None, None)
            else:
                raise ValueError(op)
        assert not stack
    b = Built()
    b.m, b.sigs, b.fsms = m, sigs, fsms
    return b


def replay_batch(cases, nv):
    """cases: list of state dicts (closed programs). Returns list of mismatch dicts."""
    inp = Inputs()
    top = Module()
    top.domains.sync = cd = ClockDomain("sync")
    mism = []
    live = []
    for idx, st in enumerate(cases):
        prog = st["prog"]
        try:
            b = build(prog, inp, "p%d" % idx)
        except Exception as e:
            mism.append({"side": "build", "prog": render(prog), "error": type(e).__name__, "msg": str(e)[:300]})
            continue
        top.submodules["p%d" % idx] = b.m
        live.append((idx, st, b))
    if not live:
        return mism
    # keep the clock domain alive even if no program is synchronous
    keep = Signal(name="keepalive")
    top.d.sync += keep.eq(~keep)
    try:
        with warnings.catch_warnings():
            warnings.simplefilter("ignore")
            sim = Simulator(top)
    except Exception as e:
        if len(cases) == 1:
            mism.append({"side": "simulate", "prog": render(cases[0]["prog"]), "error": type(e).__name__, "msg": str(e)[:300]})
            return mism
        half = len(cases) // 2
        return mism + replay_batch(cases[:half], nv) + replay_batch(cases[half:], nv)

    bad = set()

    def report(idx, st, side, k, **kw):
        if (idx, side) in bad:
            return
        bad.add((idx, side))
        a, bb, pp, fp = valuation(k) if k else (None, None, None, None)
        mism.append(dict(side=side, prog=render(st["prog"]), valuation=k, a=a, b=bb, prev_pattern=pp, fsm_prev=fp, **kw))

    async def tb(ctx):
        # initial state: an FSM starts in its initial state
        for idx, st, b in live:
            for fi, fo in b.fsms.items():
                f = st["fsm"][fi - 1]
                init = f["init"] if f["init"] else f["defined"][0]
                got = ctx.get(fo.state)
                if got != fo.encoding[STATE_NAMES[init]]:
                    report(idx, st, "fsm_start", 0, fsm=fi, expected_state=STATE_NAMES[init], actual_encoding=int(got))
        for k in range(1, nv + 1):
            a, bv, pp, fp = valuation(k)
            ctx.set(inp.a, a)
            ctx.set(inp.b, bv)
            skip = set()
            for idx, st, b in live:
                dom = st["dom"]
                for s in (1, 2, 3):
                    if dom[s - 1] == "sync":
                        ctx.set(b.sigs[s], prev_of(s, pp))
                fps = {1: fp, 2: fsm2_prev(k)}
                for fi in (1, 2):
                    if fi in b.fsms:
                        if fps[fi] in st["fsm"][fi - 1]["defined"]:
                            ctx.set(b.fsms[fi].state, b.fsms[fi].encoding[STATE_NAMES[fps[fi]]])
                        else:
                            skip.add(idx)
                    elif fps[fi] != 1:
                        skip.add(idx)        # programs without that FSM do not depend on its previous state
            for idx, st, b in live:
                if idx in skip:
                    continue
                dom = st["dom"]
                exp = st["comb"][k - 1]
                for s in (1, 2, 3):
                    if dom[s - 1] != "sync":
                        got = ctx.get(b.sigs[s])
                        if got != exp[s - 1]:
                            report(idx, st, "comb", k, signal="s%d" % s, expected=exp[s - 1], actual=got)
                fps = {1: fp, 2: fsm2_prev(k)}
                for fi, fo in b.fsms.items():
                    for sid in st["fsm"][fi - 1]["defined"]:
                        got = ctx.get(fo.ongoing(STATE_NAMES[sid]))
                        if got != int(sid == fps[fi]):
                            report(idx, st, "fsm_ongoing", k, fsm=fi, state=STATE_NAMES[sid], expected=int(sid == fps[fi]), actual=got)
            ctx.set(cd.clk, 1)
            ctx.set(cd.clk, 0)
            for idx, st, b in live:
                if idx in skip:
                    continue
                dom = st["dom"]
                exp = st["nxt"][k - 1]
                for s in (1, 2, 3):
                    if dom[s - 1] == "sync":
                        got = ctx.get(b.sigs[s])
                        if got != exp[s - 1]:
                            report(idx, st, "sync", k, signal="s%d" % s, expected=exp[s - 1], actual=got)
                for fi, fo in b.fsms.items():
                    want = st["fsm"][fi - 1]["nextst"][k - 1]
                    got = ctx.get(fo.state)
                    if got != fo.encoding[STATE_NAMES[want]]:
                        report(idx, st, "fsm_next", k, fsm=fi, expected_state=STATE_NAMES[want], actual_encoding=int(got))
        # reset returns every FSM to its initial state
        ctx.set(cd.rst, 1)
        ctx.set(cd.clk, 1)
        ctx.set(cd.clk, 0)
        for idx, st, b in live:
            # (an FSM without any transition has no state register to reset: the value loaded above persists)
            for fi, fo in b.fsms.items():
                f = st["fsm"][fi - 1]
                if not f["referenced"]:
                    continue        # no transition: no state register
                init = f["init"] if f["init"] else f["defined"][0]
                got = ctx.get(fo.state)
                if got != fo.encoding[STATE_NAMES[init]]:
                    report(idx, st, "fsm_reset", 0, fsm=fi, expected_state=STATE_NAMES[init], actual_encoding=int(got))

    sim.add_testbench(tb)
    sim.run()
    return mism


_closed = re.compile(r"/\\ frames = <<\s*>>")


def iter_closed_states(path, lo, hi):
    with open(path, "rb") as f:
        f.seek(lo)
        data = f.read(hi - lo).decode()
    n_all = 0
    for block in re.split(r"(?m)^State \d+:.*$", data):
        if not block.strip():
            continue
        n_all += 1
        if not _closed.search(block):
            continue
        st = tlaval.parse_conj(block)
        if st["prog"]:
            yield st
    iter_closed_states.last_total = n_all


def replay_dump_range(job):
    path, lo, hi, nv, batch = job
    out = {"n": 0, "mism": [], "fps": [], "sample": None, "features": {}}
    cases = []

    def flush():
        if cases:
            out["mism"].extend(replay_batch(cases, nv))
            del cases[:]

    for st in iter_closed_states(path, lo, hi):
        out["n"] += 1
        r = render(st["prog"])
        out["fps"].append(hash(r))
        for rec in st["prog"]:
            out["features"][rec["op"]] = out["features"].get(rec["op"], 0) + 1
        if out["sample"] is None and len(st["prog"]) >= 4:
            out["sample"] = {"program": r, "dom": list(st["dom"]), "comb_k1": list(st["comb"][0]), "next_k1": list(st["nxt"][0])}
        cases.append(st)
        if len(cases) >= batch:
            flush()
    flush()
    out["states_seen"] = getattr(iter_closed_states, "last_total", 0)
    out["mism"] = out["mism"][:200]
    return out
