"""Drive the real amaranth FIFOs and record per-event observations (used by C12 and C13)."""
import random

from amaranth.hdl import Cat, ClockDomain, Module, ResetSignal, ClockSignal
from amaranth.sim import Simulator
from amaranth.lib import fifo as _fifo

CLASSES = {"sync": "SyncFIFO", "buffered": "SyncFIFOBuffered", "async": "AsyncFIFO", "asyncbuf": "AsyncFIFOBuffered"}


def make(variant, width, depth, **kw):
    return getattr(_fifo, CLASSES[variant])(width=width, depth=depth, **kw)


def run_sync(variant, width, depth, inputs):
    """inputs: list of (w_en, w_data, r_en). Returns list of 11-element steps (see FifoTrace.tla)."""
    f = make(variant, width, depth)
    top = Module()
    top.domains.sync = ClockDomain("sync")
    top.submodules.fifo = f
    sim = Simulator(top)
    sim.add_clock(1e-6)
    steps = []

    async def tb(ctx):
        for (w_en, w_data, r_en) in inputs:
            ctx.set(f.w_en, w_en)
            ctx.set(f.w_data, w_data)
            ctx.set(f.r_en, r_en)
            steps.append([1, 1, int(w_en), int(w_data), int(r_en),
                          ctx.get(f.w_rdy), ctx.get(f.r_rdy), ctx.get(f.r_data),
                          ctx.get(f.level), ctx.get(f.r_level), ctx.get(f.w_level)])
            await ctx.tick()

    sim.add_testbench(tb)
    sim.run()
    return steps


def random_inputs(rng, n, width, pw=None, pr=None):
    """Strobe sequence with phases of different write/read densities (fill, drain, balanced)."""
    out = []
    mask = (1 << width) - 1
    while len(out) < n:
        a = rng.choice([0.1, 0.5, 0.9, 1.0]) if pw is None else pw
        b = rng.choice([0.0, 0.1, 0.5, 0.9, 1.0]) if pr is None else pr
        for _ in range(rng.randint(3, 40)):
            out.append((int(rng.random() < a), rng.getrandbits(width) & mask if width else 0, int(rng.random() < b)))
    return out[:n]


def run_async(variant, width, depth, events, exact_depth=False):
    """events: list of (wedge, redge, w_en, w_data, r_en[, w_rst]); one event = inputs applied, outputs
    sampled, then the listed clocks rise simultaneously (and fall again, separately, afterwards).
    Returns (steps, effective depth); steps are the 11-element rows of FifoTrace.tla."""
    f = make(variant, width, depth, exact_depth=exact_depth)
    m = Module()
    m.domains.read = cd_r = ClockDomain("read")
    m.domains.write = cd_w = ClockDomain("write")
    m.submodules.fifo = f
    sim = Simulator(m)
    steps = []
    clocks = Cat(cd_w.clk, cd_r.clk)

    async def tb(ctx):
        for ev in events:
            wedge, redge, w_en, w_data, r_en = ev[:5]
            if len(ev) > 5:
                ctx.set(cd_w.rst, ev[5])
            ctx.set(f.w_en, w_en)
            ctx.set(f.w_data, w_data)
            ctx.set(f.r_en, r_en)
            steps.append([int(wedge), int(redge), int(w_en), int(w_data), int(r_en),
                          ctx.get(f.w_rdy), ctx.get(f.r_rdy), ctx.get(f.r_data),
                          -1, ctx.get(f.r_level), ctx.get(f.w_level)])
            ctx.set(clocks, (1 if wedge else 0) | (2 if redge else 0))
            ctx.set(clocks, 0)

    sim.add_testbench(tb)
    sim.run()
    return steps, f.depth


RATIOS = [(1, 1), (1, 3), (3, 1), (5, 2), (2, 5), (1, 7), (7, 1)]
CLOCK_MODES = ["aligned", "offset", "jitter", "random", "coincident"]


def clock_schedule(rng, n, ratio, mode):
    """n clock events (wedge, redge) for write:read clock frequency ratio a:b.
    aligned    both clocks periodic, in phase: edges coincide every lcm of the periods (1:1 -> always)
    offset     periodic with random integer phases (coincide regularly or never, depending on parity)
    jitter     periodic, each edge displaced by -1/0/+1 time units (coincidences come and go)
    random     memoryless interleaving with the given ratio, 20 % coincident events
    coincident every event is a simultaneous edge of both clocks"""
    a, b = ratio
    if mode == "coincident":
        return [(1, 1)] * n
    if mode == "random":
        out = []
        for _ in range(n):
            if rng.random() < 0.2:
                out.append((1, 1))
            else:
                w = int(rng.random() * (a + b) < a)
                out.append((w, 1 - w))
        return out
    pw, pr = 4 * b, 4 * a                  # periods in time units (frequency a:b)
    tw = 0 if mode == "aligned" else rng.randrange(pw)
    tr = 0 if mode == "aligned" else rng.randrange(pr)
    jit = (lambda: rng.choice((-1, 0, 0, 1))) if mode == "jitter" else (lambda: 0)
    nw, nr = tw + jit(), tr + jit()
    out = []
    while len(out) < n:
        t = min(nw, nr)
        we, re_ = int(nw == t), int(nr == t)
        out.append((we, re_))
        if we:
            tw += pw
            nw = max(t + 1, tw + jit())
        if re_:
            tr += pr
            nr = max(t + 1, tr + jit())
    return out


def async_events(rng, n, width, ratio=None, mode=None, tail_edges=14):
    """A clock schedule with strobe phases of different densities (fill / drain / balanced), followed by a
    tail without writes (at least tail_edges edges of each clock, sparse or no reads) so that entries written
    last stay in the queue long enough for the bounded-liveness clause to be exercised."""
    ratio = ratio or rng.choice(RATIOS)
    mode = mode or rng.choice(CLOCK_MODES)
    mask = (1 << width) - 1
    sched = clock_schedule(rng, n, ratio, mode)
    out = []
    while len(out) < n:
        a = rng.choice([0.1, 0.5, 0.9, 1.0])
        b = rng.choice([0.0, 0.1, 0.5, 0.9, 1.0])
        for _ in range(rng.randint(5, 60)):
            if len(out) >= n:
                break
            we, re_ = sched[len(out)]
            out.append((we, re_, int(rng.random() < a), rng.getrandbits(width) & mask if width else 0,
                        int(rng.random() < b)))
    # a final burst of writes, then silence on the write port
    burst = clock_schedule(rng, rng.randint(2, 12), ratio, mode)
    out += [(we, re_, 1, rng.getrandbits(width) & mask if width else 0, 0) for we, re_ in burst]
    pr_tail = rng.choice([0.0, 0.0, 0.05, 0.3])
    nw = nr = 0
    tail = clock_schedule(rng, tail_edges * (ratio[0] + ratio[1]) * 4, ratio, mode)
    for we, re_ in tail:
        out.append((we, re_, 0, rng.getrandbits(width) & mask if width else 0, int(rng.random() < pr_tail)))
        nw += we
        nr += re_
        if nw >= tail_edges and nr >= tail_edges:
            break
    return out, ratio, mode


def random_events(rng, n, width, ratio=None):
    """Clock interleavings: ratio (a, b) = relative frequency of write / read clock; coincident edges included."""
    out = []
    mask = (1 << width) - 1
    if ratio is None:
        ratio = rng.choice([(1, 1), (1, 3), (3, 1), (5, 2), (2, 5), (1, 7), (7, 1)])
    pboth = rng.choice([0.0, 0.1, 0.3, 1.0])
    while len(out) < n:
        a = rng.choice([0.1, 0.5, 0.9, 1.0])
        b = rng.choice([0.0, 0.1, 0.5, 0.9, 1.0])
        for _ in range(rng.randint(5, 60)):
            if rng.random() < pboth:
                we, re_ = 1, 1
            else:
                we = int(rng.random() * (ratio[0] + ratio[1]) < ratio[0])
                re_ = 1 - we
            out.append((we, re_, int(rng.random() < a), rng.getrandbits(width) & mask if width else 0,
                        int(rng.random() < b)))
    return out[:n]
