"""Replay of AmExpr programs (postfix operator sequences produced by TLC) on the real amaranth:
builds the expression through the public operator API, puts it into a circuit, simulates every valuation
and compares shape and values with the tables TLC computed.  Both interpreters are exercised:
the compiled circuit (C01) and the testbench evaluator ctx.get(expr) (C05)."""
import os
import re
import warnings

from amaranth.hdl import Signal, Const, Cat, Mux, Array, Module, Shape, signed, unsigned
from amaranth.sim import Simulator

from . import tlaval


def shape_of(w, s):
    return signed(w) if s else unsigned(w)


def norm(v, w, s):
    v &= (1 << w) - 1
    if s and w and v >> (w - 1):
        v -= 1 << w
    return v


def pat_str(p):
    if p["k"] == "int":
        return p["v"]
    out = ""
    for i in reversed(range(p["w"])):
        if (p["mask"] >> i) & 1:
            out += str((p["val"] >> i) & 1)
        else:
            out += "-"
    return out


def render(prog):
    parts = []
    for r in prog:
        op = r["op"]
        if op == "PushSig":
            parts.append("sig%d:%s%d" % (r["i"], "s" if r["s"] else "u", r["w"]))
        elif op == "PushConst":
            parts.append("C(%d,%s%d)" % (r["v"], "s" if r["s"] else "u", r["w"]))
        else:
            extra = ",".join("%s=%s" % (k, ([pat_str(p) for p in v] if k == "ps" else v))
                             for k, v in sorted(r.items()) if k != "op")
            parts.append(op + ("(%s)" % extra if extra else ""))
    return " ".join(parts)


class Leaves:
    def __init__(self):
        self.sigs = {}

    def get(self, i, w, s):
        k = (i, w, s)
        if k not in self.sigs:
            self.sigs[k] = Signal(shape_of(w, s), name="l%d_%s%d" % (i, "s" if s else "u", w))
        return self.sigs[k]


def apply(stack, r, leaves):
    """Apply one program record to a stack of amaranth values (public API only)."""
    op = r["op"]
    if op == "PushSig":
        stack.append(leaves.get(r["i"], r["w"], r["s"]))
    elif op == "PushConst":
        stack.append(Const(r["v"], shape_of(r["w"], r["s"])))
    elif op in _UN:
        a = stack.pop()
        stack.append(_UN[op](a))
    elif op in _BIN:
        b = stack.pop()
        a = stack.pop()
        stack.append(_BIN[op](a, b))
    elif op == "ShiftLeft":
        stack.append(stack.pop().shift_left(r["n"]))
    elif op == "ShiftRight":
        stack.append(stack.pop().shift_right(r["n"]))
    elif op == "RotateLeft":
        stack.append(stack.pop().rotate_left(r["n"]))
    elif op == "RotateRight":
        stack.append(stack.pop().rotate_right(r["n"]))
    elif op == "Index":
        stack.append(stack.pop()[r["i"]])
    elif op == "Slice":
        stack.append(stack.pop()[r["lo"]:r["hi"]])
    elif op == "SliceStep":
        stack.append(stack.pop()[::r["st"]])
    elif op == "Cat":
        items = [stack.pop() for _ in range(r["n"])][::-1]
        stack.append(Cat(*items))
    elif op == "Replicate":
        stack.append(stack.pop().replicate(r["n"]))
    elif op == "BitSelect":
        o = stack.pop()
        a = stack.pop()
        stack.append(a.bit_select(o, r["w"]))
    elif op == "WordSelect":
        o = stack.pop()
        a = stack.pop()
        stack.append(a.word_select(o, r["w"]))
    elif op == "BitSelectC":
        stack.append(stack.pop().bit_select(r["off"], r["w"]))
    elif op == "WordSelectC":
        stack.append(stack.pop().word_select(r["off"], r["w"]))
    elif op == "Matches":
        stack.append(stack.pop().matches(*[pat_str(p) for p in r["ps"]]))
    elif op == "Mux":
        b = stack.pop()
        a = stack.pop()
        sel = stack.pop()
        stack.append(Mux(sel, a, b))
    elif op == "ArrayIndex":
        ix = stack.pop()
        elems = [stack.pop() for _ in range(r["n"])][::-1]
        stack.append(Array(elems)[ix])
    else:
        raise ValueError("unknown op %r" % (op,))


_UN = {
    "Neg": lambda a: -a, "Pos": lambda a: +a, "Inv": lambda a: ~a, "Abs": lambda a: abs(a),
    "Bool": lambda a: a.bool(), "Any": lambda a: a.any(), "All": lambda a: a.all(), "XorR": lambda a: a.xor(),
    "AsSigned": lambda a: a.as_signed(), "AsUnsigned": lambda a: a.as_unsigned(),
}
_BIN = {
    "Add": lambda a, b: a + b, "Sub": lambda a, b: a - b, "Mul": lambda a, b: a * b,
    "FloorDiv": lambda a, b: a // b, "Mod": lambda a, b: a % b,
    "Eq": lambda a, b: a == b, "Ne": lambda a, b: a != b, "Lt": lambda a, b: a < b, "Le": lambda a, b: a <= b,
    "Gt": lambda a, b: a > b, "Ge": lambda a, b: a >= b,
    "And": lambda a, b: a & b, "Or": lambda a, b: a | b, "Xor": lambda a, b: a ^ b,
    "Shl": lambda a, b: a << b, "Shr": lambda a, b: a >> b,
}


def build(prog, leaves):
    stack = []
    with warnings.catch_warnings():
        warnings.simplefilter("ignore")
        for r in prog:
            apply(stack, r, leaves)
    return stack


def raw_of(k, i, leaf_bits):
    return ((k - 1) >> (leaf_bits * (i - 1))) & ((1 << leaf_bits) - 1)


def replay_batch(cases, leaf_bits, nsig, want_tb=True, vals=None):
    """cases: list of (prog, exp_w, exp_s, exp_vals) ; exp_vals indexed by valuation 1..NV (or the subset `vals`).
    Returns list of mismatch dicts."""
    import warnings
    # (an Array position that cannot be written in the index's shape is announced by a SyntaxWarning: it is generated on purpose)
    warnings.filterwarnings("ignore", message=".*is not representable in match value shape.*", category=SyntaxWarning)
    leaves = Leaves()
    mism = []
    m = Module()
    live = []
    for idx, (prog, ew, es, ev) in enumerate(cases):
        try:
            stack = build(prog, leaves)
            expr = stack[-1]
            sh = Shape.cast(expr.shape())
        except Exception as e:
            mism.append({"side": "build", "prog": render(prog), "last_op": prog[-1]["op"],
                         "error": type(e).__name__, "msg": str(e)[:200]})
            continue
        if (sh.width, sh.signed) != (ew, es):
            mism.append({"side": "shape", "prog": render(prog), "last_op": prog[-1]["op"],
                         "expected": "%s(%d)" % ("signed" if es else "unsigned", ew), "actual": repr(sh)})
            continue
        out = Signal(sh, name="o%d" % idx)
        m.d.comb += out.eq(expr)
        live.append((idx, prog, expr, out, ev))
    if not live:
        return mism
    nv = 1 << (leaf_bits * nsig)
    sampled = isinstance(live[0][4], dict)
    valuations = sorted(live[0][4]) if sampled else (list(vals) if vals is not None else list(range(1, nv + 1)))
    try:
        with warnings.catch_warnings():
            warnings.simplefilter("ignore")
            sim = Simulator(m)
    except Exception as e:
        if len(cases) == 1:
            mism.append({"side": "circuit", "prog": render(cases[0][0]), "last_op": cases[0][0][-1]["op"],
                         "error": type(e).__name__, "msg": str(e)[:200], "stage": "Simulator()"})
            return mism
        for c in cases:
            mism.extend(replay_batch([c], leaf_bits, nsig, want_tb, vals))
        return mism

    bad_tb = set()
    bad_ckt = set()

    async def tb(ctx):
        for pos, k in enumerate(valuations):
            for (i, w, s), sig in leaves.sigs.items():
                ctx.set(sig, norm(raw_of(k, i, leaf_bits), w, s))
            for idx, prog, expr, out, ev in live:
                exp = ev[k] if sampled else (ev[pos] if vals is not None else ev[k - 1])
                if idx not in bad_ckt:
                    got = ctx.get(out)
                    if got != exp:
                        bad_ckt.add(idx)
                        mism.append({"side": "circuit", "prog": render(prog), "last_op": prog[-1]["op"], "valuation": k,
                                     "inputs": {"sig%d" % i: raw_of(k, i, leaf_bits) for i in range(1, nsig + 1)},
                                     "expected": exp, "actual": got})
                if want_tb and idx not in bad_tb:
                    try:
                        got = ctx.get(expr)
                    except Exception as e:
                        bad_tb.add(idx)
                        mism.append({"side": "testbench", "prog": render(prog), "last_op": prog[-1]["op"], "valuation": k,
                                     "error": type(e).__name__, "msg": str(e)[:200]})
                        continue
                    if got != exp:
                        bad_tb.add(idx)
                        mism.append({"side": "testbench", "prog": render(prog), "last_op": prog[-1]["op"], "valuation": k,
                                     "inputs": {"sig%d" % i: raw_of(k, i, leaf_bits) for i in range(1, nsig + 1)},
                                     "expected": exp, "actual": got})

    sim.add_testbench(tb)
    sim.run()
    return mism


def state_to_case(st):
    prog = st["prog"]
    if not prog:
        return None
    top = st["stack"][-1]
    v = top["v"]
    # value table: a sequence over all valuations 1..NV, or (sampled valuations) a function valuation -> value
    return (list(prog), top["sh"]["w"], top["sh"]["s"], dict(v) if isinstance(v, dict) else list(v))


def split_dump(path, nparts):
    """Byte ranges of a TLC dump file aligned at 'State N:' lines."""
    size = os.path.getsize(path)
    bounds = [0]
    with open(path, "rb") as f:
        for p in range(1, nparts):
            f.seek(size * p // nparts)
            f.readline()
            while True:
                pos = f.tell()
                ln = f.readline()
                if not ln:
                    pos = size
                    break
                if ln.startswith(b"State "):
                    break
            if pos > bounds[-1]:
                bounds.append(pos)
    bounds.append(size)
    return [(bounds[i], bounds[i + 1]) for i in range(len(bounds) - 1) if bounds[i + 1] > bounds[i]]


def iter_states_range(path, lo, hi):
    with open(path, "rb") as f:
        f.seek(lo)
        data = f.read(hi - lo).decode()
    cur = []
    for line in data.split("\n"):
        if line.startswith("State "):
            if cur:
                yield tlaval.parse_conj("\n".join(cur))
            cur = []
        elif line.strip():
            cur.append(line)
    if cur:
        yield tlaval.parse_conj("\n".join(cur))


def replay_dump_range(job):
    """Worker: parse a byte range of a dump and replay every program in it. Returns summary dict."""
    path, lo, hi, leaf_bits, nsig, want_tb, batch = job
    cases = []
    n = 0
    ops = {}
    mism = []
    fps = []
    sample = None
    for st in iter_states_range(path, lo, hi):
        c = state_to_case(st)
        if c is None:
            continue
        n += 1
        ops[c[0][-1]["op"]] = ops.get(c[0][-1]["op"], 0) + 1
        r = render(c[0])
        fps.append(hash(r))
        if sample is None and len(c[0]) >= 3:
            sample = {"program": r, "shape": "%s(%d)" % ("signed" if c[2] else "unsigned", c[1]), "values_first8": c[3][:8]}
        cases.append(c)
        if len(cases) >= batch:
            mism.extend(replay_batch(cases, leaf_bits, nsig, want_tb))
            cases = []
    if cases:
        mism.extend(replay_batch(cases, leaf_bits, nsig, want_tb))
    return {"n": n, "ops": ops, "mism": mism[:200], "n_mism": len(mism), "fps": fps, "sample": sample}
