"""Flatten a parsed RTLIL document (harness/rtlil_parse.py) into the netlist-as-data form evaluated by
spec/Rtlil.tla / RtlilTrace.tla.  Purely structural: hierarchy is expanded (submodule port connections become
directional `conn` nodes), sigspecs become lists of net references, combinational nodes are listed in a dependency
order (which the specification does not trust: it checks that the settled values solve every node equation).

net reference: 0 = constant 0, 1 = constant 1 (x/z/- digits read as 0), >= 2 = net id."""
from . import rtlil_parse as rp


class Unsupported(Exception):
    pass


COMB_CELLS = {"$not", "$neg", "$pos", "$reduce_and", "$reduce_or", "$reduce_bool", "$reduce_xor", "$add", "$sub", "$mul",
              "$divfloor", "$modfloor", "$and", "$or", "$xor", "$eq", "$ne", "$lt", "$le", "$gt", "$ge", "$shl", "$shr",
              "$sshr", "$shift", "$mux"}
IGNORED_CELLS = {"$print", "$check"}


class Flattener:
    def __init__(self, doc):
        self.mods = {m["name"]: m for m in doc["modules"]}
        self.next_id = 2
        self.ids = {}          # (path, wire, bit) -> id
        self.nodes = []
        self.ffs = []
        self.init = []         # [[bits], value]
        self.names = {}        # hierarchical name -> (bits, signed)
        self.mems = []         # list of row lists (patterns)
        self.mem_ids = {}      # (path, memid) -> index (1-based for TLA+)
        self.rds = []          # synchronous read ports
        self.wrs = []          # write ports
        self.wr_ids = {}       # (path, memid, PORTID) -> index (1-based) into self.wrs
        self._pending_rds = [] # (rd dict, path, memid, transparency mask)

    def net(self, path, wire, bit):
        k = (path, wire, bit)
        if k not in self.ids:
            self.ids[k] = self.next_id
            self.next_id += 1
        return self.ids[k]

    def refs(self, path, spec):
        out = []
        for b in rp.sigspec_bits(spec):
            if isinstance(b, tuple):
                out.append(self.net(path, b[0], b[1]))
            else:
                out.append(1 if b == "1" else 0)
        return out

    def pattern(self, spec):
        bits = rp.sigspec_bits(spec)          # LSB first; digits incl. '-'
        mask = val = 0
        for i, b in enumerate(bits):
            if isinstance(b, tuple):
                raise Unsupported("non-constant case pattern")
            if b in "01":
                mask |= 1 << i
                if b == "1":
                    val |= 1 << i
        return [mask, val]

    def items(self, path, body):
        out = []
        for it in body:
            if it["k"] == "assign":
                out.append(["a", self.refs(path, it["lhs"]), self.refs(path, it["rhs"])])
            else:
                cases = []
                for cs in it["cases"]:
                    cases.append({"dflt": 0 if cs["patterns"] else 1, "pats": [self.pattern(p) for p in cs["patterns"]],
                                  "items": self.items(path, cs["body"])})
                out.append(["s", self.refs(path, it["sel"]), cases])
        return out

    @staticmethod
    def item_rw(items):
        reads, writes = set(), set()
        for it in items:
            if it[0] == "a":
                writes.update(r for r in it[1] if r >= 2)
                reads.update(r for r in it[2] if r >= 2)
            else:
                reads.update(r for r in it[1] if r >= 2)
                for cs in it[2]:
                    r2, w2 = Flattener.item_rw(cs["items"])
                    reads |= r2
                    writes |= w2
        return reads, writes

    def module(self, name, path):
        m = self.mods[name]
        for w in m["wires"]:
            bits = [self.net(path, w["name"], i) for i in range(w["width"])]
            hname = ".".join(path + (w["name"].lstrip("\\"),))
            self.names[hname] = (bits, bool(w["signed"]))
            ad = rp.attrs_dict(w["attrs"])
            if "\\init" in ad:
                v = rp.const_int(ad["\\init"], signed=False)
                if v is not None and bits:
                    self.init.append([bits, v])
        for c in m["cells"]:
            t = c["type"]
            conns = dict((p, s) for p, s in c["conns"])
            params = {k: rp.const_int(v) for k, v in rp.params_dict(c).items()}
            if t in self.mods:
                child = self.mods[t]
                cpath = path + (c["name"].lstrip("\\"),)
                self.module(t, cpath)
                for w in child["wires"]:
                    if w["port"] is None:
                        continue
                    pname = w["name"]
                    if pname not in conns:
                        continue
                    inner = [self.net(cpath, pname, i) for i in range(w["width"])]
                    outer = self.refs(path, conns[pname])
                    if w["port"]["dir"] == "input":
                        self.nodes.append({"k": "conn", "l": inner, "r": outer})
                    elif w["port"]["dir"] == "output":
                        self.nodes.append({"k": "conn", "l": outer, "r": inner})
                    else:
                        raise Unsupported("inout port")
            elif t in COMB_CELLS:
                nd = {"k": "cell", "t": t, "A": self.refs(path, conns["\\A"]) if "\\A" in conns else [],
                      "B": self.refs(path, conns["\\B"]) if "\\B" in conns else [],
                      "S": self.refs(path, conns["\\S"]) if "\\S" in conns else [],
                      "Y": self.refs(path, conns["\\Y"]),
                      "as": int(bool(params.get("\\A_SIGNED", 0))), "bs": int(bool(params.get("\\B_SIGNED", 0)))}
                self.nodes.append(nd)
            elif t in ("$dff", "$adff"):
                ff = {"D": self.refs(path, conns["\\D"]), "Q": self.refs(path, conns["\\Q"]),
                      "CLK": self.refs(path, conns["\\CLK"])[0], "pol": int(bool(params.get("\\CLK_POLARITY", 1))),
                      "ARST": 0, "arpol": 1, "arval": 0}
                if t == "$adff":
                    ff["ARST"] = self.refs(path, conns["\\ARST"])[0]
                    ff["arpol"] = int(bool(params.get("\\ARST_POLARITY", 1)))
                    av = dict(rp.params_dict(c))["\\ARST_VALUE"]
                    ff["arval"] = rp.const_int(av, signed=False) or 0
                self.ffs.append(ff)
            elif t in ("$meminit_v2", "$memrd_v2", "$memwr_v2"):
                self.memory_cell(path, m, c, conns, params)
            elif t in IGNORED_CELLS:
                continue
            else:
                raise Unsupported("cell type %s" % t)
        for p in m["processes"]:
            if p["syncs"]:
                raise Unsupported("process with sync rules")
            self.nodes.append({"k": "proc", "items": self.items(path, p["body"])})
        for cn in m["connects"]:
            self.nodes.append({"k": "conn", "l": self.refs(path, cn["lhs"]), "r": self.refs(path, cn["rhs"])})
        for mm in m["memories"]:
            self.mem_index(path, mm["name"], mm["size"])

    def mem_index(self, path, memid, size=None):
        k = (path, memid)
        if k not in self.mem_ids:
            self.mems.append([0] * (size or 0))
            self.mem_ids[k] = len(self.mems)
        elif size is not None and len(self.mems[self.mem_ids[k] - 1]) < size:
            self.mems[self.mem_ids[k] - 1].extend([0] * (size - len(self.mems[self.mem_ids[k] - 1])))
        return self.mem_ids[k]

    def memory_cell(self, path, m, c, conns, params):
        raw = dict(rp.params_dict(c))
        memid = raw["\\MEMID"]["v"]
        size = next((mm["size"] for mm in m["memories"] if mm["name"] == memid), None)
        mi = self.mem_index(path, memid, size)
        t = c["type"]
        if t == "$meminit_v2":
            width, words = params["\\WIDTH"], params["\\WORDS"]
            data = rp.sigspec_bits(conns["\\DATA"])
            addr = rp.const_int(rp.wf_const(conns["\\ADDR"]) if False else {"t": "int", "v": 0}) or 0
            rows = self.mems[mi - 1]
            for wd in range(words):
                v = 0
                for b in range(width):
                    d = data[wd * width + b]
                    if isinstance(d, tuple):
                        raise Unsupported("non-constant memory initialisation")
                    if d == "1":
                        v |= 1 << b
                if addr + wd < len(rows):
                    rows[addr + wd] = v
        elif t == "$memwr_v2":
            if params.get("\\PRIORITY_MASK", 0):
                raise Unsupported("write port priorities")
            self.wrs.append({"m": mi, "A": self.refs(path, conns["\\ADDR"]), "D": self.refs(path, conns["\\DATA"]),
                             "EN": self.refs(path, conns["\\EN"]), "CLK": self.refs(path, conns["\\CLK"])[0],
                             "pol": int(bool(params.get("\\CLK_POLARITY", 1)))})
            self.wr_ids[(path, memid, params["\\PORTID"])] = len(self.wrs)
        else:
            if not params.get("\\CLK_ENABLE", 0):
                self.nodes.append({"k": "memrd", "m": mi, "A": self.refs(path, conns["\\ADDR"]), "Y": self.refs(path, conns["\\DATA"])})
            else:
                tm = raw["\\TRANSPARENCY_MASK"]
                mask = rp.const_int(tm, signed=False) or 0
                rd = {"m": mi, "A": self.refs(path, conns["\\ADDR"]), "Y": self.refs(path, conns["\\DATA"]),
                      "EN": self.refs(path, conns["\\EN"])[0], "CLK": self.refs(path, conns["\\CLK"])[0],
                      "pol": int(bool(params.get("\\CLK_POLARITY", 1))), "trans": []}
                self.rds.append(rd)
                self._pending_rds.append((rd, path, memid, mask))

    def resolve_transparency(self):
        for rd, path, memid, mask in self._pending_rds:
            for (p2, m2, portid), idx in self.wr_ids.items():
                if p2 == path and m2 == memid and (mask >> portid) & 1:
                    rd["trans"].append(idx)

    def order(self):
        """Kahn topological order of the combinational nodes."""
        rw = []
        for nd in self.nodes:
            if nd["k"] == "cell":
                r = {x for x in nd["A"] + nd["B"] + nd["S"] if x >= 2}
                w = {x for x in nd["Y"] if x >= 2}
            elif nd["k"] == "conn":
                r = {x for x in nd["r"] if x >= 2}
                w = {x for x in nd["l"] if x >= 2}
            elif nd["k"] == "memrd":
                r = {x for x in nd["A"] if x >= 2}
                w = {x for x in nd["Y"] if x >= 2}
            else:
                r, w = self.item_rw(nd["items"])
                r -= w
            rw.append((r, w))
        writer = {}
        for i, (r, w) in enumerate(rw):
            for x in w:
                writer.setdefault(x, []).append(i)
        deps = [set() for _ in rw]
        for i, (r, w) in enumerate(rw):
            for x in r:
                for j in writer.get(x, ()):
                    if j != i:
                        deps[i].add(j)
        users = [[] for _ in rw]
        for i, d in enumerate(deps):
            for j in d:
                users[j].append(i)
        indeg = [len(d) for d in deps]
        ready = [i for i, n in enumerate(indeg) if n == 0]
        out = []
        while ready:
            i = ready.pop()
            out.append(i)
            for u in users[i]:
                indeg[u] -= 1
                if indeg[u] == 0:
                    ready.append(u)
        if len(out) != len(rw):
            raise Unsupported("combinational cycle among RTLIL nodes")
        self.nodes = [self.nodes[i] for i in out]


def flatten(doc, top=None):
    fl = Flattener(doc)
    if top is None:
        tops = [m["name"] for m in doc["modules"] if any(a[0] == "\\top" for a in m["attrs"])]
        top = tops[0] if tops else doc["modules"][0]["name"]
    fl.module(top, ())
    fl.resolve_transparency()
    fl.order()
    ports = {}
    for w in fl.mods[top]["wires"]:
        if w["port"] is not None:
            ports[w["name"].lstrip("\\")] = {"dir": w["port"]["dir"], "bits": [fl.net((), w["name"], i) for i in range(w["width"])],
                                             "signed": bool(w["signed"])}
    return {"n": fl.next_id - 1, "nodes": fl.nodes, "ffs": fl.ffs, "init": fl.init, "ports": ports, "names": fl.names,
            "mems": fl.mems, "rds": fl.rds, "wrs": fl.wrs}
