"""C04 machinery: for a real amaranth design, produce (flattened RTLIL netlist, stimulus, pysim observations) as one
JSON-able trace for spec/RtlilTrace.tla."""
import random
import warnings

from amaranth.hdl import Cat, Signal
from amaranth.back import rtlil
from amaranth.sim import Simulator

from . import rtlil_parse, rtlil_flatten


def upat(v, w):
    return v & ((1 << w) - 1)


def make_trace(design, ins, outs, events, meta=None, want_wf=False):
    """ins / outs: dict port-name -> Signal (names must equal the RTLIL port names); events: list of dict name->value,
    all entries of one event are applied in ONE testbench write.  Returns a trace dict, or raises."""
    with warnings.catch_warnings():
        warnings.simplefilter("ignore")
        text = rtlil.convert(design, ports=list(ins.values()) + list(outs.values()))
    doc = rtlil_parse.parse(text)
    net = rtlil_flatten.flatten(doc)
    ports = net["ports"]
    for name in list(ins) + list(outs):
        sig = ins.get(name, outs.get(name))
        if len(sig) and name not in ports:
            raise rtlil_flatten.Unsupported("port %s not found in RTLIL top module (have %s)" % (name, sorted(ports)))
    steps = []
    # A signal nothing drives becomes an *input* of the RTLIL module: it is not an output to compare; the netlist is
    # fed the value the simulator holds for it (its initial value).
    undriven = {name for name, sig in outs.items() if len(sig) and ports[name]["dir"] == "input"}
    init = list(net["init"]) + [[ports[name]["bits"], upat(outs[name].init, len(outs[name]))] for name in sorted(undriven)]
    with warnings.catch_warnings():
        warnings.simplefilter("ignore")
        sim = Simulator(design)

    async def tb(ctx):
        for ev in events:
            names = list(ev)
            if len(names) == 1:
                ctx.set(ins[names[0]], ev[names[0]])
            else:
                sigs = [ins[n] for n in names]
                val, off = 0, 0
                for n, s in zip(names, sigs):
                    val |= upat(ev[n], len(s)) << off
                    off += len(s)
                ctx.set(Cat(*sigs), val)
            exp = []
            for name, sig in outs.items():
                if len(sig) == 0 or name in undriven:
                    continue
                exp.append([name, ports[name]["bits"], int(sig.shape().signed), ctx.get(sig)])
            steps.append({"set": [[ports[n]["bits"], upat(ev[n], len(ins[n]))] for n in names if len(ins[n])], "exp": exp})

    sim.add_testbench(tb)
    sim.run()
    return {"n": net["n"], "nodes": net["nodes"], "ffs": net["ffs"], "init": init, "steps": steps,
            "mems": net["mems"], "rds": net["rds"], "wrs": net["wrs"],
            "meta": meta or {}, "cells": len(net["nodes"]), "wf": rtlil_parse.wf_document(doc) if want_wf else None}


def random_events(rng, ins, clocks, n, resets=(), coincident=True):
    """Events: either one clock toggles (or several clocks toggle together), or some non-clock inputs change."""
    events = []
    clk_state = {c: 0 for c in clocks}
    data = [k for k in ins if k not in clocks]
    for _ in range(n):
        if clocks and rng.random() < 0.5:
            chosen = ([c for c in clocks if rng.random() < 0.7] if coincident else []) or [rng.choice(list(clocks))]
            ev = {}
            for c in chosen:
                clk_state[c] ^= 1
                ev[c] = clk_state[c]
            events.append(ev)
        elif data:
            chosen = [d for d in data if rng.random() < 0.5] or [rng.choice(data)]
            ev = {}
            for d in chosen:
                if d in resets:
                    ev[d] = int(rng.random() < 0.2)
                else:
                    ev[d] = rng.getrandbits(max(1, len(ins[d])))
            events.append(ev)
    return events
