"""Drive the real amaranth.lib.memory.Memory event by event and record what it does (used by C11).

A *configuration* is a JSON-able dict (the same object is handed to TLC, see spec/AmMemOps.tla):

  {"kind": "u" | "s" | "arr",      row shape: unsigned(w) / signed(w) / data.ArrayLayout(unsigned(ew), n)
   "w": row width in bits, "ew": element width (arr), "n": element count (arr),
   "signed": bool, "depth": rows, "aw": ceil_log2(depth) (address width, computed by amaranth's own rule),
   "init": declared initial contents, possibly shorter than depth (ints; arr: lists of n element values),
   "rp": [{"dom": "comb"|"A"|"B", "transp": [1-based write port numbers]}, ...],
   "wp": [{"dom": "A"|"B", "gran": 0 (granularity=None) | granularity in API units, "gbits": bits per enable bit,
           "ng": number of enable bits}, ...]}

An *event* is a list  [D, ra, re, wa, wd, we, tbi, tbv]:
   D     clock edges of the event: bit 0 = domain A rises, bit 1 = domain B rises (both: ONE ctx.set on Cat(clkA, clkB))
   ra,re per read port: address, enable (comb ports: enable is the constant 1, never driven)
   wa,wd,we  per write port: address, raw data bits, enable bit mask
   tbi   0, or 1-based row number written directly by the testbench with value tbv (API form) in this event
The resets of the two domains are toggled at random between events and are NOT recorded (no effect allowed).
All inputs are applied (each in its own ctx.set, *before* the clock event; only if they differ from the value
currently held, so that the documented power-on defaults en=1 / 0 are exercised) and held.
The recorded *step* is the event followed by  outs (data output of every read port) and rows (every row read
with ctx.get(mem.data[i])), both sampled right after the event's rising edges (the clocks fall afterwards); values are the Python ints the simulator returns
(negative for signed rows); aggregate rows are recorded by their bit pattern (data.Const.as_bits())."""
import random
import zlib

from amaranth.hdl import Cat, ClockDomain, Module, unsigned, signed
from amaranth.lib import data as _data
from amaranth.lib.memory import Memory
from amaranth.sim import Simulator
from amaranth.utils import ceil_log2

DOMS = ("A", "B")


# ------------------------------------------------------------------------------------------------
# configurations
# ------------------------------------------------------------------------------------------------
def shape_of(cfg):
    if cfg["kind"] == "u":
        return unsigned(cfg["w"])
    if cfg["kind"] == "s":
        return signed(cfg["w"])
    return _data.ArrayLayout(unsigned(cfg["ew"]), cfg["n"])


def make_cfg(kind, w, depth, init, rp, wp, ew=0, n=0):
    """rp: list of (dom, [write port numbers]); wp: list of (dom, granularity-or-None)."""
    if kind == "arr":
        w = ew * n
    wps = []
    for dom, gran in wp:
        if not gran:
            gran, gbits, ng = 0, max(w, 1), 1
        elif kind == "arr":
            gbits, ng = gran * ew, n // gran
        else:
            gbits, ng = gran, w // gran
        wps.append({"dom": dom, "gran": gran, "gbits": gbits, "ng": ng})
    return {"kind": kind, "w": w, "ew": ew, "n": n, "signed": kind == "s", "depth": depth, "aw": ceil_log2(depth),
            "init": list(init), "rp": [{"dom": d, "transp": list(t)} for d, t in rp], "wp": wps}


def cfg_name(cfg):
    sh = {"u": "u%d" % cfg["w"], "s": "s%d" % cfg["w"], "arr": "arr(u%d,%d)" % (cfg["ew"], cfg["n"])}[cfg["kind"]]
    r = ",".join("%s%s" % (p["dom"], "t" + "".join(map(str, p["transp"])) if p["transp"] else "") for p in cfg["rp"])
    w = ",".join("%s/g%s" % (p["dom"], p["gran"]) for p in cfg["wp"])
    return "%s x%d init%d R[%s] W[%s]" % (sh, cfg["depth"], len(cfg["init"]), r, w)


class Design:
    def __init__(self, cfg):
        self.cfg = cfg
        m = Module()
        self.cd = {}
        # domain resets exist (B's is asynchronous in half of the configurations) and are toggled by the driver, but
        # are not part of the recorded events: memories have no reset, so the specification does not mention them
        self.salt = zlib.crc32(repr(sorted(cfg.items())).encode())
        for d in DOMS:
            self.cd[d] = ClockDomain(d, async_reset=(d == "B" and bool(self.salt & 1)))
            m.domains += self.cd[d]
        self.mem = mem = Memory(shape=shape_of(cfg), depth=cfg["depth"], init=cfg["init"])
        m.submodules.mem = mem
        self.wps = [mem.write_port(domain=p["dom"], granularity=p["gran"] or None) for p in cfg["wp"]]
        self.rps = [mem.read_port(domain=("comb" if p["dom"] == "comb" else p["dom"]),
                                  transparent_for=tuple(self.wps[j - 1] for j in p["transp"])) for p in cfg["rp"]]
        self.m = m
        assert all(len(p.addr) == cfg["aw"] for p in self.wps + self.rps)
        assert all(len(p.en) == c["ng"] for p, c in zip(self.wps, cfg["wp"])), cfg

    def ports(self):
        out = []
        for d in DOMS:
            out += [self.cd[d].clk, self.cd[d].rst]
        for p in self.wps:
            out += [p.addr, _val(p.data), p.en]
        for p, c in zip(self.rps, self.cfg["rp"]):
            out += [p.addr, _val(p.data)] + ([p.en] if c["dom"] != "comb" else [])
        return out


def _val(x):
    return x.as_value() if hasattr(x, "as_value") else x


def elaborate(cfg):
    """The configuration must go through the RTLIL back end without raising; returns the text length."""
    from amaranth.back import rtlil
    d = Design(cfg)
    return len(rtlil.convert(d.m, ports=d.ports()))


# ------------------------------------------------------------------------------------------------
# running
# ------------------------------------------------------------------------------------------------
def default_inputs(cfg):
    nr, nw = len(cfg["rp"]), len(cfg["wp"])
    return [[0] * nr, [1] * nr, [0] * nw, [0] * nw, [0] * nw]


def _obs(v):
    return v.as_bits() if isinstance(v, _data.Const) else int(v)


def run(cfg, events):
    """Returns the list of steps  event + [outs, rows]  (see module docstring).
    In a third of the executions the recorded run is the SECOND simulation of the same design object, after a first
    simulator has executed the same events on it: a memory holds its declared initial contents at
    the start of every simulation, whatever happened to it in an earlier one."""
    d = Design(cfg)
    if (d.salt + len(events)) % 3 == 0:
        first = Simulator(d.m)
        _run_on(first, d, cfg, events)
    return _run_on(Simulator(d.m), d, cfg, events)


def _run_on(sim, d, cfg, events):
    clocks = Cat(d.cd["A"].clk, d.cd["B"].clk)
    signedw = cfg["w"] if cfg["signed"] else 0
    steps = []

    rrng = random.Random(d.salt + len(events))
    rst = {"A": 0, "B": 0}

    async def tb(ctx):
        held = default_inputs(cfg)
        for ev in events:
            D, ra, re, wa, wd, we, tbi, tbv = ev
            if rrng.random() < 0.25:                     # an unrecorded reset change (own write, before the event)
                dom = rrng.choice(DOMS)
                rst[dom] ^= 1
                ctx.set(d.cd[dom].rst, rst[dom])
            for k, p in enumerate(d.rps):
                if ra[k] != held[0][k]:
                    ctx.set(p.addr, ra[k])
                if cfg["rp"][k]["dom"] != "comb" and re[k] != held[1][k]:
                    ctx.set(p.en, re[k])
            for j, p in enumerate(d.wps):
                if wa[j] != held[2][j]:
                    ctx.set(p.addr, wa[j])
                if wd[j] != held[3][j]:
                    v = wd[j]
                    if signedw and v >= 1 << (signedw - 1):
                        v -= 1 << signedw
                    ctx.set(_val(p.data), v)
                if we[j] != held[4][j]:
                    ctx.set(p.en, we[j])
            held = [list(ra), list(re), list(wa), list(wd), list(we)]
            if tbi:
                v = tbv
                if cfg["kind"] in ("u", "s") and cfg["w"] and rrng.random() < 0.35:
                    # the same row value given out of range (negative for an unsigned row, too wide, ...): a write
                    # wraps it to the row's shape like any assignment, so the recorded event keeps the canonical value
                    v = tbv + rrng.choice([-1, 1, 2]) * (1 << cfg["w"])
                ctx.set(d.mem.data[tbi - 1], v)
            if D:
                ctx.set(clocks, D)
            # sampled right after the active edges, before anything else happens (the inactive edge that follows
            # must change nothing: the next step's observation would show it)
            outs = [_obs(ctx.get(p.data)) for p in d.rps]
            rows = [_obs(ctx.get(d.mem.data[i])) for i in range(cfg["depth"])]
            steps.append(list(ev) + [outs, rows])
            if D:
                ctx.set(clocks, 0)

    sim.add_testbench(tb)
    sim.run()
    return steps


# ------------------------------------------------------------------------------------------------
# random configurations and events
# ------------------------------------------------------------------------------------------------
def random_cfg(rng, max_depth=9):
    kind = rng.choice(["u", "u", "s", "arr"])
    ew = n = 0
    if kind == "u":
        w = rng.choice([0, 1, 2, 2, 3, 4, 4, 6, 8])
    elif kind == "s":
        w = rng.choice([1, 2, 3, 4, 5, 8])
    else:
        ew, n = rng.choice([(2, 2), (1, 4), (3, 2), (2, 3), (2, 1)])
        w = ew * n
    depth = rng.choice([0] + list(range(1, max_depth + 1)) * 3)
    nw = rng.choice([0, 1, 1, 2, 2])
    nr = rng.choice([0, 1, 1, 2, 2])
    wp = []
    for _ in range(nw):
        if kind == "s":
            gran = None
        elif kind == "arr":
            gran = rng.choice([None] + [g for g in range(1, n + 1) if n % g == 0])
        else:
            gran = rng.choice([None, None] + [g for g in range(1, max(w, 1) + 1) if w % g == 0])
        wp.append((rng.choice(DOMS), gran))
    rp = []
    for _ in range(nr):
        dom = rng.choice(["comb", "A", "A", "B"])
        cands = [j + 1 for j, (wd_, _) in enumerate(wp) if wd_ == dom]
        transp = [j for j in cands if rng.random() < 0.6]
        rp.append((dom, transp))
    ninit = rng.choice([0, depth, rng.randint(0, depth)])
    init = [rand_value(rng, kind, w, ew, n) for _ in range(ninit)]
    return make_cfg(kind, w, depth, init, rp, wp, ew=ew, n=n)


def rand_value(rng, kind, w, ew, n):
    """A row value in the form the API takes it (init=, ctx.set(mem.data[i], ...))."""
    if kind == "u":
        return rng.getrandbits(w) if w else 0
    if kind == "s":
        return rng.getrandbits(w) - (1 << (w - 1))
    return [rng.getrandbits(ew) for _ in range(n)]


def random_events(rng, cfg, n):
    """Event sequence with phases of different enable densities, coincident edges, out-of-range addresses,
    address-matching bursts (so that transparency and collisions actually occur) and testbench row writes."""
    nr, nw = len(cfg["rp"]), len(cfg["wp"])
    amax = (1 << cfg["aw"]) - 1
    depth, w = cfg["depth"], cfg["w"]
    out = []
    held = default_inputs(cfg)
    while len(out) < n:
        p_we = rng.choice([0.2, 0.6, 1.0])
        p_re = rng.choice([0.3, 0.8, 1.0])
        p_same = rng.choice([0.0, 0.3, 0.8])           # probability that all ports use one address
        p_tb = rng.choice([0.0, 0.05, 0.2])
        p_both = rng.choice([0.0, 0.2, 0.6, 1.0])
        p_keep = rng.choice([0.0, 0.5])                # inputs left unchanged
        small = rng.random() < 0.4 and depth > 2       # confine addresses to two rows
        for _ in range(rng.randint(5, 40)):
            r = rng.random()
            if r < p_tb and depth > 0:
                i = rng.randrange(depth)
                out.append([0] + [list(x) for x in held] + [i + 1, rand_value(rng, cfg["kind"], w, cfg["ew"], cfg["n"])])
                continue
            if r < p_tb + 0.05:
                D = 0                                   # inputs move, no clock (asynchronous read ports follow)
            elif rng.random() < p_both:
                D = 3
            else:
                D = rng.choice([1, 2])
            common = rng.randint(0, amax)

            def addr():
                if rng.random() < p_same:
                    return common
                if small:
                    return rng.randint(0, min(1, amax))
                return rng.randint(0, amax)
            if rng.random() >= p_keep:
                ra = [addr() for _ in range(nr)]
                re = [1 if cfg["rp"][k]["dom"] == "comb" else int(rng.random() < p_re) for k in range(nr)]
                wa = [addr() for _ in range(nw)]
                wd = [rng.getrandbits(w) if w else 0 for _ in range(nw)]
                we = []
                for j in range(nw):
                    ng = cfg["wp"][j]["ng"]
                    if rng.random() >= p_we or ng == 0:
                        we.append(0)
                    elif rng.random() < 0.4:
                        we.append((1 << ng) - 1)
                    else:
                        we.append(rng.getrandbits(ng))
                held = [ra, re, wa, wd, we]
            out.append([D] + [list(x) for x in held] + [0, 0])
    return out[:n]
