"""Parser for TLA+ values as printed by TLC (state dumps, dot labels, -simulate files, PrintT).

Mapping to Python:
  integers -> int, TRUE/FALSE -> bool, "str" -> str, model values / identifiers -> Sym(name)
  <<a, b>> -> tuple, {a, b} -> frozenset (TlaSet keeps order of appearance too),
  [f |-> v, ...] -> dict (str keys), (k :> v @@ ...) -> dict (parsed keys), a..b -> range
"""
import re


class Sym(str):
    def __repr__(self):
        return "Sym(%s)" % str.__repr__(self)


class ParseError(Exception):
    pass


_tok = re.compile(r"""
    \s+
  | (?P<int>-?\d+)
  | (?P<str>"(?:[^"\\]|\\.)*")
  | (?P<op><<|>>|\|->|:>|@@|\.\.|[\[\]\{\}\(\),])
  | (?P<id>[A-Za-z_][A-Za-z0-9_!]*)
""", re.X)


def tokenize(s):
    pos = 0
    out = []
    n = len(s)
    while pos < n:
        m = _tok.match(s, pos)
        if not m:
            raise ParseError("bad char at %d: %r" % (pos, s[pos:pos + 30]))
        pos = m.end()
        k = m.lastgroup
        if k is None:
            continue
        out.append((k, m.group(k)))
    return out


_esc = re.compile(r"\\(.)", re.S)
_esc_map = {"n": "\n", "t": "\t", "r": "\r", "f": "\f"}


def _unescape(s):
    return _esc.sub(lambda m: _esc_map.get(m.group(1), m.group(1)), s[1:-1])


class _P:
    def __init__(self, toks):
        self.t = toks
        self.i = 0

    def peek(self):
        return self.t[self.i] if self.i < len(self.t) else (None, None)

    def next(self):
        t = self.t[self.i]
        self.i += 1
        return t

    def expect(self, v):
        k, x = self.next()
        if x != v:
            raise ParseError("expected %r got %r at token %d" % (v, x, self.i))

    def value(self):
        v = self.atom()
        # a..b
        if self.peek() == ("op", ".."):
            self.next()
            hi = self.atom()
            return range(v, hi + 1)
        return v

    def atom(self):
        k, x = self.next()
        if k == "int":
            return int(x)
        if k == "str":
            return _unescape(x)
        if k == "id":
            if x == "TRUE":
                return True
            if x == "FALSE":
                return False
            return Sym(x)
        if x == "<<":
            items = []
            while self.peek() != ("op", ">>"):
                items.append(self.value())
                if self.peek() == ("op", ","):
                    self.next()
            self.next()
            return tuple(items)
        if x == "{":
            items = []
            while self.peek() != ("op", "}"):
                items.append(self.value())
                if self.peek() == ("op", ","):
                    self.next()
            self.next()
            return frozenset(_freeze(i) for i in items)
        if x == "[":
            d = {}
            while self.peek() != ("op", "]"):
                k2, name = self.next()
                if k2 != "id":
                    raise ParseError("record field expected, got %r" % (name,))
                self.expect("|->")
                d[str(name)] = self.value()
                if self.peek() == ("op", ","):
                    self.next()
            self.next()
            return d
        if x == "(":
            d = {}
            while True:
                key = self.value()
                self.expect(":>")
                d[_freeze(key)] = self.value()
                if self.peek() == ("op", "@@"):
                    self.next()
                    continue
                break
            self.expect(")")
            return d
        raise ParseError("unexpected token %r" % (x,))


def _freeze(v):
    if isinstance(v, dict):
        return tuple(sorted((k, _freeze(x)) for k, x in v.items()))
    if isinstance(v, (list, tuple)):
        return tuple(_freeze(x) for x in v)
    if isinstance(v, range):
        return tuple(v)
    return v


def parse(s):
    p = _P(tokenize(s))
    v = p.value()
    if p.i != len(p.t):
        raise ParseError("trailing tokens: %r" % (p.t[p.i:p.i + 5],))
    return v


_state_hdr = re.compile(r"^State (\d+):\s*(.*)$")


def parse_conj(text):
    """Parse '/\\ var = value' conjunction text into dict var -> value."""
    out = {}
    # split on lines beginning with /\
    parts = re.split(r"(?m)^\s*/\\ ", "\n" + text)
    for part in parts:
        part = part.strip()
        if not part:
            continue
        m = re.match(r"([A-Za-z_][A-Za-z0-9_]*)\s*=\s*(.*)$", part, re.S)
        if not m:
            raise ParseError("bad conjunct %r" % part[:60])
        out[m.group(1)] = parse(m.group(2))
    return out


def parse_dump(path):
    """Iterate states from a TLC '-dump <file>' output: yields dict var->value."""
    cur = []
    with open(path) as f:
        for line in f:
            if line.startswith("State "):
                if cur:
                    yield parse_conj("".join(cur))
                cur = []
                continue
            if line.strip() == "":
                continue
            cur.append(line)
    if cur:
        yield parse_conj("".join(cur))


def parse_sim_file(path):
    """Parse a file written by `tlc -simulate file=...`: returns list of (action, state dict)."""
    out = []
    txt = open(path).read()
    # blocks: \* <Action line ...>\nSTATE_n == \n/\ ...
    blocks = re.split(r"(?m)^\\\* ", txt)
    for b in blocks[1:]:
        m = re.match(r"(.*?)\n\s*STATE_\d+\s*==\s*(.*?)(?:\n\s*\n|\Z)", b, re.S)
        if not m:
            continue
        act = m.group(1).strip()
        am = re.match(r"<?\s*([A-Za-z_0-9]+)", act)
        out.append((am.group(1) if am else act, parse_conj(m.group(2))))
    return out


def to_tla(v):
    """Serialise a Python value as a TLA+ expression (ints, bools, str, list/tuple, dict, set)."""
    if isinstance(v, bool):
        return "TRUE" if v else "FALSE"
    if isinstance(v, int):
        return str(v) if v >= 0 else "(%d)" % v
    if isinstance(v, Sym):
        return str(v)
    if isinstance(v, str):
        return '"' + v.replace("\\", "\\\\").replace('"', '\\"') + '"'
    if isinstance(v, (list, tuple)):
        return "<<" + ", ".join(to_tla(x) for x in v) + ">>"
    if isinstance(v, (set, frozenset)):
        return "{" + ", ".join(to_tla(x) for x in v) + "}"
    if isinstance(v, dict):
        if not v:
            return "<<>>"
        if all(isinstance(k, str) and re.match(r"^[A-Za-z_][A-Za-z0-9_]*$", k) for k in v):
            return "[" + ", ".join("%s |-> %s" % (k, to_tla(x)) for k, x in v.items()) + "]"
        return "(" + " @@ ".join("%s :> %s" % (to_tla(k), to_tla(x)) for k, x in v.items()) + ")"
    raise TypeError(type(v))


if __name__ == "__main__":
    print(parse('[a |-> <<1, -2>>, b |-> {"x", "y"}, c |-> (1 :> TRUE @@ 2 :> FALSE), d |-> m1, e |-> 1..3]'))
