"""Batch trace validation: thousands of recorded implementation traces checked by one TLC run of a
*Trace specification.  The trace spec's verdict is total: each trace id prints either
<<"ACC", tid, ...>> or <<"REJ", tid, step, clause, ...>>."""
import json
import os
import re

from . import tlaval
from .common import MachineryError

_CFG = """SPECIFICATION Spec
CHECK_DEADLOCK FALSE
"""


def validate(ctx, module, traces, stage, extra=None, cfg=_CFG, workers=8, batch_size=4000, timeout=3600,
             count_states=True):
    """traces: list of JSON-able trace objects (tid = 1-based position in each batch).
    Returns list of verdicts aligned with traces: ("ACC", info) or ("REJ", step, clause, info)."""
    verdicts = [None] * len(traces)
    n_batches = 0
    for off in range(0, len(traces), batch_size):
        part = traces[off:off + batch_size]
        n_batches += 1
        path = os.path.join(ctx.tmp, "%s_%s_%d.json" % (module, re.sub(r"\W", "_", stage), off))
        obj = {"traces": part}
        if extra:
            obj.update(extra)
        with open(path, "w") as f:
            json.dump(obj, f)
        r = ctx.tlc(module, stage="%s/validate" % stage, cfg_text=cfg, env={"TRACE_FILE": path}, workers=workers,
                    timeout=timeout, count=False)
        st = ctx.cov["stages"]["%s/validate" % stage]
        st["batches"] = n_batches
        st["trace_states"] = st.get("trace_states", 0) + r.distinct
        if count_states:
            ctx.cov["trace_states_checked"] = ctx.cov.get("trace_states_checked", 0) + r.distinct
            ctx.cov["states"] += r.distinct              # states of the trace specification TLC explored
            ctx.cov["transitions"] += r.generated
        for txt in r.printed():
            head = txt.lstrip("< \n")[:6]          # TLC wraps wide tuples as `<< "REJ",` over several lines
            if head not in ('"ACC",', '"REJ",'):
                continue
            v = tlaval.parse(txt)
            tid = v[1]
            if v[0] == "ACC":
                verdicts[off + tid - 1] = ("ACC",) + tuple(v[2:])
            else:
                if verdicts[off + tid - 1] is None or verdicts[off + tid - 1][0] != "ACC":
                    verdicts[off + tid - 1] = ("REJ",) + tuple(v[2:])
        os.unlink(path)
    missing = [i for i, v in enumerate(verdicts) if v is None]
    if missing:
        raise MachineryError("%s: no verdict for %d traces (first: %d) in stage %s" % (module, len(missing), missing[0], stage))
    ctx.cov["traces_validated_against_impl"] += len(traces)
    return verdicts
