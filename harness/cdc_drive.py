"""Drive the real amaranth.lib.cdc primitives event by event and record what they do (used by C17).

One *event* = one ``ctx.set(Cat(...), bits)``: any subset of {input-domain clock edge, output-domain clock
edge, change of the primitive's input, change of the output domain's reset}.  Outputs are observed after
the event has settled (and once more after the clocks have fallen again: falling edges must change nothing).

How an input change is made coincident with a clock edge.  In pysim a *testbench*-driven signal that is put
into the same ``ctx.set`` as a clock is seen by a flop sampling it directly with its NEW value (testbench
race; probed).  The convention of the specification ("sampled before the event", DESIGN.md Appendix A) is
pysim's semantics for signals driven by *design registers* clocked in that event.  The primitive's input is
therefore a register of a harness source domain ``src`` (``m.d.src += inp.eq(nxt)``): an input change that
coincides with clock edges is produced by pulsing ``src``'s clock in the same ``ctx.set`` as those clocks
(``nxt`` is staged beforehand, invisible to the primitive).  A change between edges is either a ``src``-only
event or a direct testbench override ``ctx.set(inp, v)`` (via = 1 / 0).  The output domain's reset is only
changed in events without an output-clock edge (same race otherwise; excluded at generation)."""
from amaranth.hdl import Cat, ClockDomain, Module, Signal
from amaranth.sim import Simulator
from amaranth.lib import cdc as _cdc

PRIMS = ("ff", "async", "reset", "pulse")


def build(spec):
    prim = spec["prim"]
    stages = spec["stages"]
    width = spec.get("width", 1) if prim == "ff" else 1
    m = Module()
    m.domains.src = cs = ClockDomain("src", reset_less=True)
    m.domains.i = ci = ClockDomain("i", reset_less=True)
    m.domains.o = co = ClockDomain("o", reset_less=prim in ("async", "pulse"))
    nxt = Signal(width, name="nxt")
    if prim == "pulse":
        m.submodules.dut = dut = _cdc.PulseSynchronizer("i", "o", stages=stages)
        inp, out = dut.i, dut.o
        if spec.get("i0", 0):
            raise ValueError("PulseSynchronizer.i has initial value 0")
    else:
        inp = Signal(width, name="inp", init=spec.get("i0", 0))
        if prim == "ff":
            out = Signal(width, name="out", init=spec.get("init", 0))
            kw = {}
            if "init" in spec:
                kw["init"] = spec["init"]
            if "reset_less" in spec:
                kw["reset_less"] = bool(spec["reset_less"])
            m.submodules.dut = _cdc.FFSynchronizer(inp, out, o_domain="o", stages=stages, **kw)
        elif prim == "async":
            out = Signal(1, name="out")
            m.submodules.dut = _cdc.AsyncFFSynchronizer(inp, out, o_domain="o", stages=stages,
                                                        async_edge=spec.get("edge", "pos"))
        elif prim == "reset":
            m.submodules.dut = _cdc.ResetSynchronizer(inp, domain="o", stages=stages)
            out = co.rst
        else:
            raise ValueError(prim)
    m.d.src += inp.eq(nxt)
    return m, cs, ci, co, inp, nxt, out


def run(spec, events):
    """events: list of (ie, oe, v, r, via).  Returns (o0, steps) with steps = [[ie, oe, v, r, o], ...]
    (the CdcTrace step format)."""
    m, cs, ci, co, inp, nxt, out = build(spec)
    has_rst = spec["prim"] == "ff"
    sim = Simulator(m)
    res = {"o0": None, "steps": []}
    clocks = Cat(cs.clk, ci.clk, co.clk, co.rst) if has_rst else Cat(cs.clk, ci.clk, co.clk)
    w = len(inp)

    async def tb(ctx):
        cur = spec.get("i0", 0)
        rst = 0
        res["o0"] = ctx.get(out)
        for ev in events:
            ie, oe, v, r = int(ev[0]), int(ev[1]), int(ev[2]), int(ev[3])
            via = int(ev[4]) if len(ev) > 4 else 1
            if not has_rst:
                r = 0
            if oe and r != rst:
                raise ValueError("reset change coincident with an output-clock edge is not generated")
            change = v != cur
            if (ie or oe or via) or not change:
                if change:
                    ctx.set(nxt, v)                                   # staging; invisible to the primitive
                bits = (1 if change else 0) | (2 if ie else 0) | (4 if oe else 0) | ((r << 3) if has_rst else 0)
                ctx.set(clocks, bits)                                 # ---- the event
            else:
                if has_rst:
                    ctx.set(Cat(inp, co.rst), v | (r << w))           # ---- the event (direct input change)
                else:
                    ctx.set(inp, v)
            if ctx.get(inp) != v:
                raise RuntimeError("harness: input is %r, expected %r" % (ctx.get(inp), v))
            cur, rst = v, r
            o = ctx.get(out)
            ctx.set(clocks, (r << 3) if has_rst else 0)               # clocks fall; nothing may change
            o2 = ctx.get(out)
            if o2 != o:
                o = o | (1 << 20)                                     # rejected by every contract
            res["steps"].append([ie, oe, v, r, o])

    sim.add_testbench(tb)
    sim.run()
    return res["o0"], res["steps"]


def trace_of(spec, o0, steps):
    return {"prim": spec["prim"], "stages": spec["stages"], "init": spec.get("init", 0),
            "reset_less": int(bool(spec.get("reset_less", True))), "edge": spec.get("edge", "pos"),
            "i0": spec.get("i0", 0), "o0": o0, "steps": steps}


# ------------------------------------------------------------------------------------------------
# schedule generators (generation only; legality of pulse spacing is re-checked by CdcTrace)
RATIOS = [(1, 7), (1, 3), (2, 5), (1, 1), (5, 2), (3, 1), (7, 1)]


def gen_ff(rng, n, width, ratio=None):
    """ratio = (input changes : output-clock edges)."""
    mask = (1 << width) - 1
    a, b = ratio or rng.choice(RATIOS)
    pboth = rng.choice([0.0, 0.15, 0.4])
    cur, rst = None, 0
    out = []
    cur = 0

    def other():
        if mask == 0:
            return cur
        v = rng.getrandbits(width) & mask
        return v if v != cur else (cur ^ (1 << rng.randrange(width)))
    while len(out) < n:
        # phases: busy input, or a stable input for a while so that the output catches up
        busy = rng.random() < 0.75
        for _ in range(rng.randint(4, 40)):
            x = rng.random()
            if x < 0.03:
                rst ^= 1
                out.append((0, 0, cur, rst, 1))
                continue
            if not busy:
                out.append((0, 1, cur, rst, 1))
                continue
            if rng.random() < pboth:
                cur = other()
                out.append((0, 1, cur, rst, 1))
            elif rng.random() * (a + b) < a:
                cur = other()
                out.append((0, 0, cur, rst, rng.getrandbits(1)))
            else:
                out.append((0, 1, cur, rst, 1))
    return out[:n]


def gen_async(rng, n, ratio=None):
    """Assertions/releases against output-clock edges, incl. coincident ones, glitches, long releases."""
    a, b = ratio or rng.choice(RATIOS)
    pboth = rng.choice([0.0, 0.2, 0.5])
    cur = 0
    out = []
    while len(out) < n:
        mode = rng.choice(["busy", "busy", "quiet", "glitch"])
        for _ in range(rng.randint(3, 30)):
            if mode == "quiet":
                out.append((0, 1, cur, 0, 1))
            elif mode == "glitch" and rng.random() < 0.4:
                cur ^= 1
                out.append((0, 0, cur, 0, rng.getrandbits(1)))
                cur ^= 1
                out.append((0, 0, cur, 0, rng.getrandbits(1)))
            elif rng.random() < pboth:
                cur ^= 1
                out.append((0, 1, cur, 0, 1))
            elif rng.random() * (a + b) < a:
                cur ^= 1
                out.append((0, 0, cur, 0, rng.getrandbits(1)))
            else:
                out.append((0, 1, cur, 0, 1))
    return out[:n]


def gen_pulse(rng, n, stages, ratio=None):
    """ratio = (input-clock edges : output-clock edges).  Input pulses (input high at an input-clock edge)
    are only produced when an output-clock edge has occurred in an event strictly after the previous input
    pulse; otherwise the input is lowered first."""
    a, b = ratio or rng.choice(RATIOS)
    pboth = rng.choice([0.0, 0.15, 0.4, 1.0])
    cur = 0
    ok = True
    out = []
    while len(out) < n:
        density = rng.choice([0.05, 0.3, 0.7, 1.0, 0.0])
        hold = rng.choice([0.0, 0.0, 0.5, 1.0])        # probability to keep the input high after a pulse
        for _ in range(rng.randint(5, 50)):
            if rng.random() < pboth:
                ie, oe = 1, 1
            else:
                ie = int(rng.random() * (a + b) < a)
                oe = 1 - ie
            if ie and cur == 1 and not ok:
                cur = 0
                out.append((0, 0, 0, 0, rng.getrandbits(1)))     # too early for another pulse: lower the input
            pulse = ie and cur == 1
            if cur == 1:
                v = 1 if (pulse and rng.random() < hold) or (not pulse and rng.random() < 0.8) else 0
            else:
                v = 1 if rng.random() < density else 0
            out.append((ie, oe, v, 0, 1))
            if pulse:
                ok = False
            elif oe:
                ok = True
            cur = v
            if rng.random() < 0.03 and cur == 1:
                cur = 0
                out.append((0, 0, 0, 0, rng.getrandbits(1)))     # the input drops between edges: no pulse
    out = out[:n]
    # drain: input low, then enough output-clock edges for every pending pulse to come out
    if out and out[-1][2] == 1:
        out.append((0, 0, 0, 0, 0))
    out += [(0, 1, 0, 0, 1)] * (stages + 3)
    return out
