"""Drive the real amaranth.lib.cdc primitives event by event and record what they do (used by C17).

One *event* = one ``ctx.set(Cat(...), bits)``: any subset of {input-domain clock edge, output-domain clock
edge, change of the primitive's input, change of the output domain's reset}.  Outputs are observed after
the event has settled (and once more after the clocks have fallen again: falling edges must change nothing).

How an input change is made coincident with a clock edge.  In pysim a *testbench*-driven signal that is put
into the same ``ctx.set`` as a clock is seen by a flop sampling it directly with its NEW value (testbench
race; probed).  The convention of the specification ("sampled before the event", DESIGN.md Appendix A) is
pysim's semantics for signals driven by *design registers* clocked in that event.  The primitive's input is
therefore an expression over registers of a harness source domain ``src`` (``m.d.src += x.eq(nxt)``; the
expression is the signal itself, ``~x``, a slice, ``ResetSignal("sync")``, ``ResetSignal("sync") | req``;
the trace records the expression's *value*): an input change that
coincides with clock edges is produced by pulsing ``src``'s clock in the same ``ctx.set`` as those clocks
(``nxt`` is staged beforehand, invisible to the primitive).  A change between edges is either a ``src``-only
event or a direct testbench override ``ctx.set(inp, v)`` (via = 1 / 0).  The output domain's reset is only
changed in events without an output-clock edge (same race otherwise; excluded at generation)."""
import random

from amaranth.hdl import Cat, ClockDomain, Module, Signal, ResetSignal, signed
from amaranth.sim import Simulator
from amaranth.lib import cdc as _cdc

import warnings
# (an unsigned initial pattern given to a synchronizer of a signed value is wrapped, with a warning)
warnings.filterwarnings("ignore", message="Initial value .* will be truncated", category=SyntaxWarning)

PRIMS = ("ff", "async", "reset", "pulse")
# the design family around the primitive (spec keys; all optional):
#   o_name / i_name  names of the output / input clock domains ("sync" = the default: the parameter is omitted
#                    where the class has a default)
#   sync             True: an unrelated, active "sync" domain (own clock, own reset, a counter) exists next to them
#   expr             what the primitive's input is:  "sig" a plain Signal | "not" ~x | "bit" a slice of a wider
#                    signal | "rst" ResetSignal("sync") | "rst_or" ResetSignal("sync") | req     (the last two
#                    derive a secondary domain's reset from the main one; they need sync=True)
#   nseed            seed of the driver's own choices (operand values with the same expression value, edges of the
#                    unrelated clock, toggling of the unrelated reset)
EXPRS_1BIT = ("sig", "not", "bit", "rst", "rst_or")
EXPRS_FF = ("sig", "not", "bit")


class _Input:
    """The primitive's input as an expression over operand registers of the harness source domain."""
    def __init__(self, m, kind, width, i0, cd_sync, own=None):
        self.kind, self.width, self.mask = kind, width, (1 << width) - 1
        mask = self.mask
        if kind == "sig":
            x = own if own is not None else Signal(width, name="inp", init=i0)
            self.ops, self.u, self.expr = [x], [i0], x
        elif kind == "sgn":          # a signed signal (its bit pattern is what travels through the synchronizer)
            x = Signal(signed(width), name="sinp", init=i0 - (1 << width) if i0 >> (width - 1) else i0)
            self.ops, self.u, self.expr = [x], [i0], x
        elif kind == "as_s":         # a sign reinterpretation of an unsigned signal
            x = Signal(width, name="inp", init=i0)
            self.ops, self.u, self.expr = [x], [i0], x.as_signed()
        elif kind == "not":
            x = Signal(width, name="x", init=~i0 & mask)
            self.ops, self.u, self.expr = [x], [~i0 & mask], ~x
        elif kind == "bit":
            x = Signal(width + 3, name="wide", init=(i0 << 2) | 1)
            self.ops, self.u, self.expr = [x], [(i0 << 2) | 1], x[2:2 + width]
        elif kind == "rst":
            if i0 or cd_sync is None:
                raise ValueError("expr=rst needs the unrelated sync domain and i0=0")
            self.ops, self.u, self.expr = [cd_sync.rst], [0], ResetSignal("sync")
        elif kind == "rst_or":
            if cd_sync is None:
                raise ValueError("expr=rst_or needs the unrelated sync domain")
            req = Signal(1, name="req", init=i0)
            self.ops, self.u, self.expr = [cd_sync.rst, req], [0, i0], ResetSignal("sync") | req
        else:
            raise ValueError(kind)
        self.n_expr_ops = len(self.ops)
        if cd_sync is not None and kind not in ("rst", "rst_or"):
            self.ops.append(cd_sync.rst)          # unrelated reset: toggles, never part of the value
            self.u.append(0)
        self.nxts = [Signal(len(o), name="nxt%d" % k) for k, o in enumerate(self.ops)]
        for o, n in zip(self.ops, self.nxts):
            m.d.src += o.eq(n)

    def value(self, u):
        k, mask = self.kind, self.mask
        if k in ("sig", "sgn", "as_s"):
            return u[0]
        if k == "not":
            return ~u[0] & mask
        if k == "bit":
            return (u[0] >> 2) & mask
        if k == "rst":
            return u[0]
        return u[0] | u[1]

    def solve(self, v, u, rng, noise):
        """operand values with expression value v (noise: also move what does not matter)"""
        k, mask = self.kind, self.mask
        new = list(u)
        if k in ("sig", "sgn", "as_s"):
            new[0] = v
        elif k == "not":
            new[0] = ~v & mask
        elif k == "bit":
            rest = u[0] & ~(mask << 2)
            if noise:
                rest = rng.getrandbits(2) | (rng.getrandbits(1) << (self.width + 2))
            new[0] = (v << 2) | rest
        elif k == "rst":
            new[0] = v
        else:
            if v == 0:
                new[0], new[1] = 0, 0
            elif noise or (u[0] | u[1]) == 0:
                new[0], new[1] = rng.choice([(1, 0), (0, 1), (1, 1)])
        if len(self.ops) > self.n_expr_ops and noise and rng.random() < 0.3:
            new[-1] ^= 1
        return new

    def pack(self, u):
        bits, sh = 0, 0
        for o, x in zip(self.ops, u):
            bits |= x << sh
            sh += len(o)
        return bits, sh


def build(spec):
    prim = spec["prim"]
    stages = spec["stages"]
    width = spec.get("width", 1) if prim == "ff" else 1
    o_name = spec.get("o_name", "o")
    i_name = spec.get("i_name", "i")
    kind = spec.get("expr", "sig")
    i0 = spec.get("i0", 0)
    m = Module()
    m.domains.src = cs = ClockDomain("src", reset_less=True)
    co = ClockDomain(o_name, reset_less=prim in ("async", "pulse"))
    m.domains += co
    ci = None
    if prim == "pulse":
        ci = ClockDomain(i_name, reset_less=True)
        m.domains += ci
    cd_sync = None
    if spec.get("sync"):
        if "sync" in (o_name, i_name if prim == "pulse" else None):
            raise ValueError("the unrelated sync domain needs o/i domains with other names")
        cd_sync = ClockDomain("sync")
        m.domains += cd_sync
        cnt = Signal(4, name="sync_counter")
        m.d.sync += cnt.eq(cnt + 1)
    od = {} if o_name == "sync" else {"o_domain": o_name}
    if prim == "pulse":
        if kind != "sig" or i0:
            raise ValueError("PulseSynchronizer.i is its own signal with initial value 0")
        m.submodules.dut = dut = _cdc.PulseSynchronizer(i_name, o_name, stages=stages)
        inp = _Input(m, "sig", 1, 0, cd_sync, own=dut.i)
        out = dut.o
    else:
        inp = _Input(m, kind, width, i0, cd_sync)
        if prim == "ff":
            out = Signal(width, name="out", init=spec.get("init", 0))
            kw = dict(od)
            if "init" in spec:
                kw["init"] = spec["init"]
                if kind in ("sgn", "as_s") and spec["init"] >> (width - 1):      # the same pattern as a signed value
                    kw["init"] = spec["init"] - (1 << width)
            if "reset_less" in spec:
                kw["reset_less"] = bool(spec["reset_less"])
            m.submodules.dut = _cdc.FFSynchronizer(inp.expr, out, stages=stages, **kw)
        elif prim == "async":
            out = Signal(1, name="out", reset_less=bool(spec.get("o_rl", False)))
            m.submodules.dut = _cdc.AsyncFFSynchronizer(inp.expr, out, stages=stages,
                                                        async_edge=spec.get("edge", "pos"), **od)
        elif prim == "reset":
            m.submodules.dut = _cdc.ResetSynchronizer(inp.expr, stages=stages,
                                                      **({} if o_name == "sync" else {"domain": o_name}))
            out = co.rst
        else:
            raise ValueError(prim)
    return m, cs, ci, co, cd_sync, inp, out


def run(spec, events):
    """events: list of (ie, oe, v, r, via); v = value of the primitive's input (expression) after the event.
    Returns (o0, steps) with steps = [[ie, oe, v, r, o], ...] (the CdcTrace step format)."""
    m, cs, ci, co, cd_sync, inp, out = build(spec)
    has_rst = spec["prim"] == "ff"
    rng = random.Random(spec.get("nseed", 0))
    sim = Simulator(m)
    res = {"o0": None, "steps": []}
    clks = [cs.clk, ci.clk if ci is not None else None, co.clk, cd_sync.clk if cd_sync is not None else None]
    pos = {}
    sigs = []
    for name, c in zip(("src", "i", "o", "sync"), clks):
        if c is not None:
            pos[name] = len(sigs)
            sigs.append(c)
    if has_rst:
        pos["rst"] = len(sigs)
        sigs.append(co.rst)
    clocks = Cat(*sigs)
    ops = Cat(*inp.ops)

    async def tb(ctx):
        u = list(inp.u)
        cur = inp.value(u)
        if cur != spec.get("i0", 0):
            raise RuntimeError("harness: initial input value")
        rst = 0
        res["o0"] = ctx.get(out)
        for ev in events:
            ie, oe, v, r = int(ev[0]), int(ev[1]), int(ev[2]), int(ev[3])
            via = int(ev[4]) if len(ev) > 4 else 1
            if not has_rst:
                r = 0
            if oe and r != rst:
                raise ValueError("reset change coincident with an output-clock edge is not generated")
            if ie and ci is None:
                raise ValueError("input-clock edge for a primitive without input domain")
            noise = rng.random() < 0.3
            new = inp.solve(v, u, rng, noise) if (v != cur or noise) else u
            se = cd_sync is not None and (rng.random() < 0.4 or not (ie or oe or new != u or r != rst))
            keep = (r << pos["rst"]) if has_rst else 0
            if (ie or oe or via or se) or new == u:
                if new != u:
                    for n, x in zip(inp.nxts, new):
                        ctx.set(n, x)                                 # staging; invisible to the primitive
                bits = keep | ((1 << pos["src"]) if new != u else 0) | ((1 << pos["i"]) if ie else 0) | \
                    ((1 << pos["o"]) if oe else 0) | ((1 << pos["sync"]) if se else 0)
                ctx.set(clocks, bits)                                 # ---- the event
            else:
                b, sh = inp.pack(new)                                 # ---- the event (direct change of operands)
                if has_rst:
                    ctx.set(Cat(ops, co.rst), b | (r << sh))
                else:
                    ctx.set(ops, b)
            u = [ctx.get(o) & ((1 << len(o)) - 1) for o in inp.ops]      # bit patterns (operands may be signed)
            if u != new or inp.value(u) != v:
                raise RuntimeError("harness: operands are %r, expected %r (value %r)" % (u, new, v))
            cur, rst = v, r
            o = ctx.get(out)
            ctx.set(clocks, keep)                                     # clocks fall; nothing may change
            o2 = ctx.get(out)
            if o2 != o:
                o = o | (1 << 20)                                     # rejected by every contract
            res["steps"].append([ie, oe, v, r, o])

    sim.add_testbench(tb)
    sim.run()
    return res["o0"], res["steps"]


def trace_of(spec, o0, steps):
    return {"prim": spec["prim"], "stages": spec["stages"], "init": spec.get("init", 0),
            "reset_less": int(bool(spec.get("reset_less", True))), "edge": spec.get("edge", "pos"),
            "i0": spec.get("i0", 0), "o0": o0, "steps": steps,
            "env": "o_domain=%s i_domain=%s unrelated_sync=%s input=%s" % (
                spec.get("o_name", "o"), spec.get("i_name", "i"), bool(spec.get("sync")), spec.get("expr", "sig"))}


# ------------------------------------------------------------------------------------------------
# schedule generators (generation only; legality of pulse spacing is re-checked by CdcTrace)
RATIOS = [(1, 7), (1, 3), (2, 5), (1, 1), (5, 2), (3, 1), (7, 1)]


def gen_ff(rng, n, width, ratio=None):
    """ratio = (input changes : output-clock edges)."""
    mask = (1 << width) - 1
    a, b = ratio or rng.choice(RATIOS)
    pboth = rng.choice([0.0, 0.15, 0.4])
    cur, rst = None, 0
    out = []
    cur = 0

    def other():
        if mask == 0:
            return cur
        v = rng.getrandbits(width) & mask
        return v if v != cur else (cur ^ (1 << rng.randrange(width)))
    while len(out) < n:
        # phases: busy input, or a stable input for a while so that the output catches up
        busy = rng.random() < 0.75
        for _ in range(rng.randint(4, 40)):
            x = rng.random()
            if x < 0.03:
                rst ^= 1
                out.append((0, 0, cur, rst, 1))
                continue
            if x < 0.08:
                out.append((0, 0, cur, rst, 1))                  # unrelated event
                continue
            if not busy:
                out.append((0, 1, cur, rst, 1))
                continue
            if rng.random() < pboth:
                cur = other()
                out.append((0, 1, cur, rst, 1))
            elif rng.random() * (a + b) < a:
                cur = other()
                out.append((0, 0, cur, rst, rng.getrandbits(1)))
            else:
                out.append((0, 1, cur, rst, 1))
    return out[:n]


def gen_async(rng, n, ratio=None):
    """Assertions/releases against output-clock edges, incl. coincident ones, glitches, long releases."""
    a, b = ratio or rng.choice(RATIOS)
    pboth = rng.choice([0.0, 0.2, 0.5])
    cur = 0
    out = []
    while len(out) < n:
        mode = rng.choice(["busy", "busy", "quiet", "glitch"])
        for _ in range(rng.randint(3, 30)):
            if rng.random() < 0.07:
                out.append((0, 0, cur, 0, 1))                    # unrelated event
            elif mode == "quiet":
                out.append((0, 1, cur, 0, 1))
            elif mode == "glitch" and rng.random() < 0.4:
                cur ^= 1
                out.append((0, 0, cur, 0, rng.getrandbits(1)))
                cur ^= 1
                out.append((0, 0, cur, 0, rng.getrandbits(1)))
            elif rng.random() < pboth:
                cur ^= 1
                out.append((0, 1, cur, 0, 1))
            elif rng.random() * (a + b) < a:
                cur ^= 1
                out.append((0, 0, cur, 0, rng.getrandbits(1)))
            else:
                out.append((0, 1, cur, 0, 1))
    return out[:n]


def gen_pulse(rng, n, stages, ratio=None):
    """ratio = (input-clock edges : output-clock edges).  Input pulses (input high at an input-clock edge)
    are only produced when an output-clock edge has occurred in an event strictly after the previous input
    pulse; otherwise the input is lowered first."""
    a, b = ratio or rng.choice(RATIOS)
    pboth = rng.choice([0.0, 0.15, 0.4, 1.0])
    cur = 0
    ok = True
    out = []
    while len(out) < n:
        density = rng.choice([0.05, 0.3, 0.7, 1.0, 0.0])
        hold = rng.choice([0.0, 0.0, 0.5, 1.0])        # probability to keep the input high after a pulse
        for _ in range(rng.randint(5, 50)):
            if rng.random() < 0.05:
                out.append((0, 0, cur, 0, 1))                    # unrelated event
            if rng.random() < pboth:
                ie, oe = 1, 1
            else:
                ie = int(rng.random() * (a + b) < a)
                oe = 1 - ie
            if ie and cur == 1 and not ok:
                cur = 0
                out.append((0, 0, 0, 0, rng.getrandbits(1)))     # too early for another pulse: lower the input
            pulse = ie and cur == 1
            if cur == 1:
                v = 1 if (pulse and rng.random() < hold) or (not pulse and rng.random() < 0.8) else 0
            else:
                v = 1 if rng.random() < density else 0
            out.append((ie, oe, v, 0, 1))
            if pulse:
                ok = False
            elif oe:
                ok = True
            cur = v
            if rng.random() < 0.03 and cur == 1:
                cur = 0
                out.append((0, 0, 0, 0, rng.getrandbits(1)))     # the input drops between edges: no pulse
    out = out[:n]
    # drain: input low, then enough output-clock edges for every pending pulse to come out
    if out and out[-1][2] == 1:
        out.append((0, 0, 0, 0, 0))
    out += [(0, 1, 0, 0, 1)] * (stages + 3)
    return out
