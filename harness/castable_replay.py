"""C05, shape-castable clause: values of shape-castable objects round-trip through from_bits / const in a testbench.

The cases are the (integer, shape) pairs TLC enumerates from AmShapeCases (kind "const": the unique value of the shape
congruent to the integer, `exp`).  For every case the integer is written raw into the storage of
  * a signal whose shape is a user-defined ShapeCastable over that shape (from_bits keeps the raw value it is given),
  * a signal shaped by a lib.enum.Enum over that shape with one member per representable value,
and read back with ctx.get(): the object must carry exactly `exp` (a negative number for signed shapes), and writing the
object back with ctx.set() must leave the storage unchanged (const(from_bits(raw)) is raw)."""
import warnings

from .common import pmap, MachineryError
from . import expr_replay


def _worker(job):
    from amaranth.hdl import Signal, Module, Const, Value, ShapeCastable, ValueCastable, Format, signed, unsigned
    from amaranth.lib import enum as am_enum
    from amaranth.sim import Simulator
    path, lo, hi = job
    cases = [st["c"] for st in expr_replay.iter_states_range(path, lo, hi)]
    cases = [c for c in cases if c["k"] == "const" and c["sh"]["w"] >= 1]
    out = {"n": len(cases), "mism": [], "fps": [], "sample": None}
    if not cases:
        return out

    class Fx(ShapeCastable):
        def __init__(self, shape):
            self._shape = shape

        def as_shape(self):
            return self._shape

        def const(self, init):
            return Const(0 if init is None else (init[1] if isinstance(init, tuple) else init), self._shape)

        def __call__(self, value):
            return FxValue(self, value)

        def from_bits(self, raw):
            return ("fx", raw)

        def format(self, obj, spec):
            return Format("{}", Value.cast(obj))

    class FxValue(ValueCastable):
        def __init__(self, shape, value):
            self._s, self._v = shape, value

        def shape(self):
            return self._s

        def as_value(self):
            return self._v

    m = Module()
    store = {}
    with warnings.catch_warnings():
        warnings.simplefilter("ignore")
        for c in cases:
            key = (c["sh"]["w"], c["sh"]["s"])
            if key in store:
                continue
            w, s = key
            sh = signed(w) if s else unsigned(w)
            lo_v, hi_v = (-(1 << (w - 1)), (1 << (w - 1)) - 1) if s else (0, (1 << w) - 1)
            ename = "E_%s%d" % ("s" if s else "u", w)
            ns = am_enum.EnumType.__prepare__(ename, (am_enum.Enum,), shape=sh)
            for v in range(lo_v, hi_v + 1):
                ns["M%d" % (v - lo_v)] = v
            E = am_enum.EnumType(ename, (am_enum.Enum,), ns, shape=sh)
            fx = Signal(Fx(sh), name="fx_%s%d" % ("s" if s else "u", w))
            en = Signal(E, name="en_%s%d" % ("s" if s else "u", w))
            store[key] = (fx, en, E)
    dummy = Signal()
    m.d.comb += dummy.eq(0)
    sim = Simulator(m)

    async def tb(ctx):
        for c in cases:
            fx, en, E = store[(c["sh"]["w"], c["sh"]["s"])]
            r = "%d -> %s(%d)" % (c["v"], "signed" if c["sh"]["s"] else "unsigned", c["sh"]["w"])
            out["fps"].append(hash(r))
            got = []
            try:
                ctx.set(fx.as_value(), c["v"])               # raw write: wraps like any assignment
                a = ctx.get(fx)
                ctx.set(fx, a)                               # const(from_bits(raw)) must be raw again
                got.append(("fx", a, ctx.get(fx.as_value())))
                ctx.set(en.as_value(), c["v"])
                b = ctx.get(en)
                ctx.set(en, b)
                got.append(("enum", (type(b) is E, b.value if type(b) is E else repr(b)), ctx.get(en.as_value())))
            except Exception as e:
                got.append(("exception", type(e).__name__, str(e)[:200]))
            exp = [("fx", ("fx", c["exp"]), c["exp"]), ("enum", (True, c["exp"]), c["exp"])]
            if out["sample"] is None and c["exp"] < 0:
                out["sample"] = {"write": r, "read_back": [list(map(repr, g)) for g in got]}
            if got != exp and len(out["mism"]) < 50:
                out["mism"].append({"case": r, "signed": bool(c["sh"]["s"]), "negative": c["exp"] < 0,
                                    "expected": repr(exp), "actual": repr(got)})

    sim.add_testbench(tb)
    with warnings.catch_warnings():
        warnings.simplefilter("ignore")
        sim.run()
    return out


def run_stage(ctx):
    from .props import c10
    box = dict(rlo=-3, rhi=3, elo=-2, ehi=2, vlo=-20, vhi=20, wmax=4, override="")
    dump = ctx.tmp + "/castcases"
    ctx.tlc("MC_AmShapeCases", stage="mc/castable-cases", cfg_text=c10.CFG.format(**box), workers=8, args=("-dump", dump))
    path = dump + ".dump"
    res = pmap(_worker, [(path, lo, hi) for lo, hi in expr_replay.split_dump(path, 16)])
    import os
    os.unlink(path)
    n = sum(x["n"] for x in res)
    if n == 0:
        raise MachineryError("castable stage: no (integer, shape) cases")
    for x in res:
        for fp in x["fps"]:
            ctx.case(fp)
        for mm in x["mism"]:
            ctx.violation({"side": "castable", "signed": mm["signed"], "negative": mm["negative"]},
                          "shape-castable round trip in a testbench: %s: read back %s, AmShape says %s" % (
                              mm["case"], mm["actual"], mm["expected"]), replay=mm)
    smp = next((x["sample"] for x in res if x["sample"]), None)
    if smp:
        ctx.sample({"stage": "castable", **smp})
    ctx.cov["stages"]["replay/castable"] = {"round_trips": n}
    ctx.cov["traces_validated_against_impl"] += n
