"""C03 — clock domains, resets and control inserters behave as specified.

spec:   AmDesign (event semantics of domains with pos/neg edge and none/sync/async reset; declarative meaning of
        ResetInserter / EnableInserter / DomainRenamer stacks), MC_AmDesign (instances).
stages: mc      exhaustive over small design sets x all event sequences (incl. simultaneous edges of both clocks) up to
                a depth bound: ChangeOnlyAtOwnEdge, ResetLessIgnoresResets, OutsideUnaffected
        replay  TLC -simulate behaviours over ALL domain configurations x wrapper stacks of depth <= 3 x register
                domain placements, each replayed on the real amaranth (ClockDomain, inserters, renamer, pysim); register
                values compared after every event
        mutant  (model) an enable that also gates the domain's own reset is distinguishable: see replay of seeded code
                mutations in DESIGN.md"""
import glob
import os

from ..common import pmap, MachineryError
from .. import design_replay, tlaval

LEVEL = "model_checking"

CFG = """SPECIFICATION Spec
CONSTANTS DomCfgs <- {domcfgs}
 Stacks <- {stacks}
 RegDoms <- {regdoms}
 MaxEvents = {maxev}
PROPERTY ChangeOnlyAtOwnEdge
PROPERTY ResetLessIgnoresResets
PROPERTY OutsideUnaffected
PROPERTY MemoryIgnoresResets
CHECK_DEADLOCK FALSE
"""


def _parse(files):
    out = []
    for f in files:
        steps = tlaval.parse_sim_file(f)
        if len(steps) < 2:
            continue
        cfg = steps[0][1]["cfg"]
        cfg = {"A": dict(cfg["A"]), "B": dict(cfg["B"]), "ws": [dict(w) for w in cfg["ws"]], "d1": cfg["d1"], "d2": cfg["d2"],
               "decl": cfg["decl"]}
        events, expected = [], []
        for _, st in steps[1:]:
            events.append(tuple(st["ev"]))
            expected.append((st["v"]["r1"], st["v"]["r2"], st["v"]["r3"], st["v"]["r4a"] + 2 * st["v"]["r4b"],
                             st["v"]["mw"], st["v"]["mr"], st["v"]["mt"],
                             1 + 6 * st["v"]["r1"]))      # r5: bits 1..2 follow r1 (same domain and data), bit 0 keeps its initial 1
        out.append((cfg, events, expected))
    return out


def _worker(files):
    res = []
    for job in _parse(files):
        mm = design_replay.replay_behaviour(job)
        feats = {"both_edges": any(e[0] == "clk" for e in job[1]) and any(
            e[0] == "clk" and i > 0 for i, e in enumerate(job[1])), "wrappers": len(job[0]["ws"])}
        res.append((repr((job[0], job[1])), feats, mm, {"cfg": job[0], "events": [list(e) for e in job[1][:8]],
                                                         "expected_r1_r2_r3_r4_mw_mr_mt": [list(e) for e in job[2][:8]]}))
    return res


def run(ctx):
    th = ctx.thorough
    r = ctx.tlc("MC_AmDesign", stage="mc/small", workers=16, args=("-coverage", "1"),
                cfg_text=CFG.format(domcfgs="AllDomCfgs" if th else "FewDomCfgs", stacks="StacksTiny", regdoms="OneRegDoms",
                                    maxev=6 if th else 5), timeout=3000)
    ctx.require_actions(r, ["ClockEvent", "InputEvent"])
    d = os.path.join(ctx.tmp, "sim_design")
    os.makedirs(d, exist_ok=True)
    num = 40000 if th else 4000
    depth = 40 if th else 25
    workers = 8
    ctx.tlc("MC_AmDesign", stage="sim/behaviours", workers=workers, count=False,
            cfg_text=CFG.format(domcfgs="AllDomCfgs", stacks="Stacks3", regdoms="AllRegDoms", maxev=depth),
            args=("-simulate", "file=%s/tr,num=%d" % (d, num // workers), "-depth", str(depth + 1), "-seed", str(ctx.seed + 3)),
            timeout=3000)
    files = sorted(glob.glob(os.path.join(d, "tr*")))
    if not files:
        raise MachineryError("simulate produced no behaviours")
    res = pmap(_worker, [files[i::64] for i in range(64) if files[i::64]])
    n = 0
    stacks = {}
    for chunk in res:
        for fp, feats, mm, sample in chunk:
            n += 1
            ctx.case(fp, nontrivial=feats["wrappers"] > 0)
            stacks[feats["wrappers"]] = stacks.get(feats["wrappers"], 0) + 1
            if n <= 2:
                ctx.sample(sample)
            if mm is not None:
                cfg = mm["cfg"]
                key = {"ws": [(w["k"], w["dom"], w.get("c", w.get("to"))) for w in cfg["ws"]],
                       "A": (cfg["A"]["edge"], cfg["A"]["rst"]), "B": (cfg["B"]["edge"], cfg["B"]["rst"]),
                       "d1": cfg["d1"], "d2": cfg["d2"], "decl": cfg.get("decl"), "error": mm.get("error", "").split(":")[0]}
                ctx.violation(key, "design %s: after event #%d %s state (r1, r2, r3, r4, mw, mr, mt, r5) = %s, AmDesign says %s%s" % (
                    cfg, mm["step"], mm.get("event"), mm.get("actual"), mm.get("expected"), (" " + mm["error"]) if "error" in mm else ""),
                    replay=mm)
    ctx.cov["stages"]["replay/behaviours"] = {"behaviours": n, "events_each": depth, "by_wrapper_stack_depth": stacks}
    ctx.cov["traces_validated_against_impl"] += n
    ctx.cov["exhaustive"] = False
    ctx.cov["rule"] = ("case = one behaviour: (domain edge/reset styles, wrapper stack of depth 0..3, register domains) + a "
                       "random event sequence (clock edges incl. simultaneous ones, reset/control/data changes); non-trivial = "
                       "at least one wrapper; registers compared after every event")
    ctx.assume("input, control and reset changes never coincide with a clock edge in one testbench write (a testbench race in pysim; unspecified)")
    ctx.assume("controls are 1 bit wide; the memory under the wrappers is one row with always-enabled ports")


def replay(ctx, rep):
    m = rep["replay"]
    got = design_replay.run(m["cfg"], [tuple(e) for e in m["events"]])
    print("actual:", got[:m["step"] + 1])
    print("expected:", m.get("expected_all"))
    if m.get("expected_all") and [list(g) for g in got[:m["step"] + 1]] != m["expected_all"]:
        print("VIOLATION property=C03 replay=(same)")
        return 1
    return 0
