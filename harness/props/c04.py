"""C04 — emitted RTLIL is behaviourally equivalent to the simulated design.

spec:   Rtlil (semantics of the emitted cell/process/register subset over a flattened netlist given as data),
        RtlilTrace (steps each design through its stimulus and compares every port with what pysim showed).
designs: expr   batches of AmExpr programs (TLC -simulate), combinational
         stmt   closed AmStmt programs (TLC -simulate): control flow, assignment targets, comb + sync, FSM
         dom    AmDesign behaviours: pos/neg edge, sync/async reset, inserter/renamer stacks, two clocks
         hier   seeded random module hierarchies: signals driven in one module and used in ancestors, descendants
                and siblings, partially driven, undriven and zero-width signals, registers in submodules
         mem    seeded random memories: 1-2 write ports with granularity, asynchronous and synchronous read ports with
                enable and transparency sets, two clock domains ($meminit_v2 / $memrd_v2 / $memwr_v2)
Since C01-C03 bind pysim to AmExpr/AmStmt/AmDesign, this closes the triangle language-spec = pysim = RTLIL."""
import glob
import os
import random

from ..common import pmap, MachineryError
from .. import tlaval, tracecheck
from . import c01, c02, c03

LEVEL = "translation_validation"


# ----------------------------------------------------------------------------------------------- design builders
def _expr_design(job):
    from amaranth.hdl import Module, Signal
    from .. import expr_replay, rtlil_eq, rtlil_flatten
    progs, seed = job
    rng = random.Random(seed)
    leaves = expr_replay.Leaves()
    m = Module()
    outs = {}
    used = []
    for k, prog in enumerate(progs):
        try:
            expr = expr_replay.build(prog, leaves)[-1]
        except Exception:
            continue
        o = Signal(expr.shape(), name="o%d" % k)
        m.d.comb += o.eq(expr)
        outs["o%d" % k] = o
        used.append(expr_replay.render(prog))
    ins = {s.name: s for s in leaves.sigs.values()}
    events = [{n: rng.getrandbits(max(1, len(s))) for n, s in ins.items() if len(s)} for _ in range(14)]
    events = [e for e in events if e]
    return _mk(m, ins, outs, events, {"source": "expr", "programs": used[:40]})


WANT_WF = False      # set by C07, which judges the same documents structurally (RtlilWF)


def _mk(design, ins, outs, events, meta):
    from .. import rtlil_eq, rtlil_flatten, rtlil_parse
    try:
        return ("ok", rtlil_eq.make_trace(design, ins, outs, events, meta, want_wf=WANT_WF))
    except rtlil_flatten.Unsupported as e:
        return ("unsupported", str(e), meta)
    except rtlil_parse.RtlilSyntaxError as e:
        return ("violation", "rtlil_does_not_parse: %s" % e, meta)
    except Exception as e:
        return ("violation", "%s: %s" % (type(e).__name__, str(e)[:300]), meta)


def _stmt_design(job):
    from amaranth.hdl import Module, ClockDomain
    from .. import stmt_replay, rtlil_eq
    progs, seed = job
    rng = random.Random(seed)
    inp = stmt_replay.Inputs()
    top = Module()
    top.domains.sync = cd = ClockDomain("sync")
    outs = {}
    used = []
    for k, prog in enumerate(progs):
        try:
            b = stmt_replay.build(prog, inp, "p%d" % k)
        except Exception:
            continue
        top.submodules["p%d" % k] = b.m
        for i, s in b.sigs.items():
            outs[s.name] = s
        used.append(stmt_replay.render(prog))
    ins = {"a": inp.a, "b": inp.b, "clk": cd.clk, "rst": cd.rst}
    events = rtlil_eq.random_events(rng, ins, ["clk"], 30, resets=("rst",))
    return _mk(top, ins, outs, events, {"source": "stmt", "programs": used[:10]})


def _dom_design(job):
    from .. import design_replay
    cfg, evs = job
    top, sigs = design_replay.build(cfg)
    regs = ("r1", "r2", "r3", "r4", "r5", "mr", "mt")          # mw is a memory row: not a port
    ins = {s.name: s for k, s in sigs.items() if k not in regs + ("mw",)}
    outs = {sigs[k].name: sigs[k] for k in regs}
    events = []
    for ev in evs:
        if ev[0] == "clk":
            events.append({sigs["clkA"].name: ev[1], sigs["clkB"].name: ev[2]})
        else:
            events.append({sigs[ev[1]].name: ev[2]})
    return _mk(top, ins, outs, events, {"source": "dom", "cfg": cfg})


def _hier_design(seed):
    """Random hierarchy: a pool of signals, a tree of modules; every module drives some (slices of) signals from
    expressions over arbitrary pool signals (so values cross the hierarchy in every direction)."""
    from amaranth.hdl import Module, Signal, ClockDomain, Cat, Mux, signed, unsigned
    from .. import rtlil_eq
    rng = random.Random(seed)
    top = Module()
    top.domains.sync = cd = ClockDomain("sync")
    n_in = rng.randint(1, 3)
    ins_sigs = [Signal(rng.choice([unsigned(1), unsigned(3), signed(3), unsigned(4)]), name="i%d" % k) for k in range(n_in)]
    pool = []
    for k in range(rng.randint(3, 7)):
        sh = rng.choice([unsigned(0), unsigned(1), unsigned(2), unsigned(4), signed(2), signed(4), unsigned(5)])
        pool.append(Signal(sh, name="s%d" % k, init=rng.getrandbits(3) & ((1 << sh.width) - 1) if sh.width and not sh.signed else 0))
    mods = [top]
    for k in range(rng.randint(1, 5)):
        parent = rng.choice(mods)
        child = Module()
        if rng.random() < 0.3:
            parent.submodules += child
        else:
            parent.submodules["m%d" % k] = child
        mods.append(child)
    if rng.random() < 0.3:
        mods[0].submodules.empty = Module()
    avail = ins_sigs + pool

    def operand():
        s = rng.choice(avail)
        r = rng.random()
        if len(s) > 1 and r < 0.3:
            lo = rng.randrange(len(s))
            return s[lo:rng.randint(lo, len(s))]
        return s

    def expr(target_w):
        r = rng.random()
        a, b = operand(), operand()
        if r < 0.2:
            return a + b
        if r < 0.3:
            return a - b
        if r < 0.4:
            return a & b
        if r < 0.5:
            return Cat(a, b)
        if r < 0.6:
            return Mux(operand(), a, b)
        if r < 0.7:
            return ~a
        if r < 0.75:
            return a == b
        if r < 0.8:
            return a < b
        if r < 0.85:
            return -a
        if r < 0.9:
            return a ^ rng.getrandbits(3)
        return a

    driven_comb = set()
    # comb-driven bits must not form cycles: comb signal k may only read inputs, registers, and comb signals < k
    order = list(range(len(pool)))
    kinds = {}
    for k in order:
        kinds[k] = rng.choice(["comb", "comb", "sync", "none"])
    outs = {}
    for k in order:
        s = pool[k]
        if kinds[k] == "none" or len(s) == 0 and rng.random() < 0.5:
            continue
        # split the signal in up to two ranges driven from (possibly) different modules
        cuts = [0, len(s)] if len(s) < 2 or rng.random() < 0.5 else [0, rng.randint(1, len(s) - 1), len(s)]
        partial = rng.random() < 0.2 and len(cuts) == 3
        for lo, hi in zip(cuts, cuts[1:]):
            if partial and lo == 0:
                continue                      # leave the low part undriven
            mod = rng.choice(mods)
            if kinds[k] == "comb":
                saved = avail[:]
                avail[:] = ins_sigs + [pool[j] for j in order if kinds[j] == "sync" or (kinds[j] == "comb" and j < k) or kinds[j] == "none"]
                e = expr(hi - lo)
                avail[:] = saved
                if rng.random() < 0.3:
                    with mod.If(operand_safe(rng, ins_sigs)):
                        mod.d.comb += s[lo:hi].eq(e)
                else:
                    mod.d.comb += s[lo:hi].eq(e)
            else:
                e = expr(hi - lo)
                if rng.random() < 0.3:
                    with mod.If(operand_safe(rng, ins_sigs)):
                        mod.d.sync += s[lo:hi].eq(e)
                else:
                    mod.d.sync += s[lo:hi].eq(e)
        outs[s.name] = s
    if not outs:
        top.d.comb += pool[0].eq(ins_sigs[0])
        outs[pool[0].name] = pool[0]
    ins = {s.name: s for s in ins_sigs}
    ins["clk"] = cd.clk
    ins["rst"] = cd.rst
    events = rtlil_eq.random_events(rng, ins, ["clk"], 24, resets=("rst",))
    return _mk(top, ins, outs, events, {"source": "hier", "seed": seed})


def _mem_design(seed):
    """Random memory with 1-2 write ports (granularity) and 1-2 read ports (asynchronous, or synchronous with enable and
    a transparency set) in one or two clock domains; power-of-two depth so every address is in range; the two clocks
    never toggle in the same event and two write ports sit in different domains (collisions are undefined in RTLIL)."""
    from amaranth.hdl import Module, Signal, ClockDomain, signed, unsigned
    from amaranth.lib.memory import Memory
    from .. import rtlil_eq
    rng = random.Random(seed)
    top = Module()
    cds = {}
    for dn in ("A", "B"):
        # memories have no reset: a domain reset (synchronous or asynchronous) must not disturb rows or read ports
        cds[dn] = ClockDomain(dn, reset_less=rng.random() < 0.4, async_reset=rng.random() < 0.4,
                              clk_edge=rng.choice(["pos", "pos", "neg"]))
        setattr(top.domains, dn, cds[dn])
    ins, outs = {}, {}

    def add_memory(pfx):
        # (several memories may sit side by side in one module: their ports are numbered per memory in the RTLIL)
        W = rng.choice([1, 2, 4, 6])
        abits = rng.choice([0, 1, 2, 3])
        depth = 1 << abits
        shape = signed(W) if rng.random() < 0.3 else unsigned(W)
        lo, hi = (-(1 << (W - 1)), (1 << (W - 1)) - 1) if shape.signed else (0, (1 << W) - 1)
        mem = Memory(shape=shape, depth=depth, init=[rng.randint(lo, hi) for _ in range(rng.randint(0, depth))])
        top.submodules["mem%s" % pfx] = mem
        wports = []
        wdoms = rng.choice([["A"], ["B"], ["A", "B"]])
        for k, dn in enumerate(wdoms):
            gran = None if shape.signed else rng.choice([None, 1] + ([W // 2] if W % 2 == 0 and W > 1 else []))
            wp = mem.write_port(domain=dn, granularity=gran)
            wa = Signal(abits, name="wa%d" % k + pfx)
            wd = Signal(W, name="wd%d" % k + pfx)
            we = Signal(len(wp.en), name="we%d" % k + pfx)
            top.d.comb += [wp.addr.eq(wa), wp.data.eq(wd), wp.en.eq(we)]
            ins.update({wa.name: wa, wd.name: wd, we.name: we})
            wports.append((dn, wp))
        for k in range(rng.randint(1, 2)):
            dn = rng.choice(["comb", "A", "B"])
            ra = Signal(abits, name="ra%d" % k + pfx)
            ins[ra.name] = ra
            if dn == "comb":
                rp = mem.read_port(domain="comb")
            else:
                same = [wp for d2, wp in wports if d2 == dn]
                rp = mem.read_port(domain=dn, transparent_for=[wp for wp in same if rng.random() < 0.6])
                re_ = Signal(name="re%d" % k + pfx)
                top.d.comb += rp.en.eq(re_)
                ins[re_.name] = re_
            top.d.comb += rp.addr.eq(ra)
            o = Signal(shape, name="rd%d" % k + pfx)
            top.d.comb += o.eq(rp.data)
            outs[o.name] = o
    for mi in range(rng.choice([1, 1, 2, 3])):
        add_memory("" if mi == 0 else "_%d" % mi)
    # keep both domains alive
    ka, kb = Signal(name="ka"), Signal(name="kb")
    top.d.A += ka.eq(~ka)
    top.d.B += kb.eq(~kb)
    ins[cds["A"].clk.name] = cds["A"].clk
    ins[cds["B"].clk.name] = cds["B"].clk
    rsts = [cd.rst.name for cd in cds.values() if cd.rst is not None]
    for cd in cds.values():
        if cd.rst is not None:
            ins[cd.rst.name] = cd.rst
    ins = {k: v for k, v in ins.items() if len(v)}
    events = rtlil_eq.random_events(rng, ins, [cds["A"].clk.name, cds["B"].clk.name], 40, coincident=False, resets=rsts)
    return _mk(top, ins, outs, events, {"source": "mem", "seed": seed})


def operand_safe(rng, ins_sigs):
    s = rng.choice(ins_sigs)
    return s[0] if len(s) else s


# ----------------------------------------------------------------------------------------------- sources
def _sim_files(ctx, module, cfg_text, num, depth, tag):
    d = os.path.join(ctx.tmp, "sim_" + tag)
    os.makedirs(d, exist_ok=True)
    workers = 8
    ctx.tlc(module, stage="sim/" + tag, cfg_text=cfg_text, workers=workers, count=False,
            args=("-simulate", "file=%s/tr,num=%d" % (d, max(1, num // workers)), "-depth", str(depth), "-seed", str(ctx.seed + 11)),
            timeout=3000)
    files = sorted(glob.glob(os.path.join(d, "tr*")))
    if not files:
        raise MachineryError("simulate produced no behaviours for " + tag)
    return files


def _expr_progs(files):
    out = []
    for f in files:
        steps = tlaval.parse_sim_file(f)
        for _, st in steps:
            if st["prog"] and len(st["stack"]) == 1 and len(st["prog"]) >= 2:
                last = list(st["prog"])
        if steps:
            best = None
            for _, st in steps:
                if st["prog"] and len(st["stack"]) >= 1:
                    best = list(st["prog"])
            if best:
                out.append(best)
    return out


def _stmt_progs(files):
    out = []
    for f in files:
        best = None
        for _, st in tlaval.parse_sim_file(f):
            if st["frames"] == () and st["prog"]:
                best = [dict(r) for r in st["prog"]]
        if best:
            out.append(best)
    return out


def run(ctx):
    th = ctx.thorough
    jobs = design_jobs(ctx, th)
    _run_rest(ctx, jobs)


def design_jobs(ctx, th, scale=1.0):
    rng = ctx.rng
    jobs = []
    single, tern, comp = c01.instances(th)
    files = _sim_files(ctx, "MC_AmExpr", c01.CFG.format(**comp), int((6000 if th else 800) * scale), comp["maxlen"] + 1, "expr")
    progs = [p for chunk in pmap(_expr_progs, [files[i::16] for i in range(16) if files[i::16]]) for p in chunk]
    rng.shuffle(progs)
    for i in range(0, len(progs), 20):
        jobs.append((_expr_design, (progs[i:i + 20], rng.getrandbits(32))))
    ctrl, lhs, fsm, mixed, fsm2 = c02.instances(th)
    files = _sim_files(ctx, "MC_AmStmt", c02.CFG.format(**mixed), int((4000 if th else 600) * scale), mixed["maxlen"] + 1, "stmt")
    sprogs = [p for chunk in pmap(_stmt_progs, [files[i::16] for i in range(16) if files[i::16]]) for p in chunk]
    for i in range(0, len(sprogs), 6):
        jobs.append((_stmt_design, (sprogs[i:i + 6], rng.getrandbits(32))))
    files = _sim_files(ctx, "MC_AmDesign", c03.CFG.format(domcfgs="AllDomCfgs", stacks="Stacks3", regdoms="AllRegDoms", maxev=20),
                       int((3000 if th else 300) * scale), 21, "dom")
    for cfg, events, expected in c03._parse(files):
        jobs.append((_dom_design, (cfg, events)))
    for k in range(int((3000 if th else 250) * scale)):
        jobs.append((_hier_design, rng.getrandbits(40)))
    for k in range(int((2000 if th else 200) * scale)):
        jobs.append((_mem_design, rng.getrandbits(40)))
    return jobs


def _run_rest(ctx, jobs):
    res = pmap(_run_job, jobs, chunksize=4)
    traces, metas = [], []
    stats = {}
    for r in res:
        src = (r[1].get("meta") if r[0] == "ok" else r[2])["source"]
        st = stats.setdefault(src, {"ok": 0, "unsupported": 0, "violation": 0})
        st[r[0]] += 1
        if r[0] == "ok":
            traces.append({k: v for k, v in r[1].items() if k not in ("meta", "wf")})
            metas.append(r[1]["meta"])
        elif r[0] == "violation":
            ctx.violation({"source": src, "what": r[1].split(":")[0]}, "design from source %s: %s (%s)" % (src, r[1], r[2]), replay=r[2])
    ctx.cov["stages"]["designs"] = stats
    if not traces:
        raise MachineryError("no design could be traced")
    verdicts = tracecheck.validate(ctx, "RtlilTrace", traces, "rtlil-eq", workers=16, batch_size=150)
    nsteps = 0
    for v, t, m in zip(verdicts, traces, metas):
        nsteps += len(t["steps"]) * (len(t["steps"][0]["exp"]) if t["steps"] else 0)
        ctx.case(repr(m), nontrivial=t["cells"] > 0)
        if v[0] == "REJ":
            step, what = v[1], v[2]
            detail = v[3] if len(v) > 3 else None
            if what == "netlist_not_settled_by_given_order":
                raise MachineryError("flattener produced an order that does not settle the netlist: %r" % (m,))
            key = {"source": m["source"], "what": what}
            ctx.violation(key, "design %s: at step %d the RTLIL value of %s differs from the simulator (name, pysim, rtlil) = %r; events so far: %r" % (
                m, step, detail[0] if detail else "?", detail, [s["set"] for s in t["steps"][:step]][-4:]),
                replay={"meta": m, "step": step, "detail": detail})
    ctx.cov["programs"] = len(traces)
    ctx.cov["disagreements_checked"] = nsteps
    ctx.sample({"meta": metas[0], "cells": traces[0]["cells"], "first_step": traces[0]["steps"][0] if traces[0]["steps"] else None})
    ctx.sample({"meta": metas[-1], "cells": traces[-1]["cells"]})
    # binding demo: a doctored netlist (one cell type swapped) must be rejected
    victim = next((t for t in traces if any(n["k"] == "cell" and n["t"] == "$add" for n in t["nodes"]) and t["steps"]), None)
    if victim is not None:
        bad = dict(victim)
        bad["nodes"] = [dict(n, t="$sub") if (n["k"] == "cell" and n["t"] == "$add") else n for n in victim["nodes"]]
        vs = tracecheck.validate(ctx, "RtlilTrace", [bad], "binding-demo", count_states=False)
        ctx.cov["traces_validated_against_impl"] -= 1
        ctx.cov["stages"]["binding-demo/validate"]["doctored_netlist_verdict"] = [str(x) for x in vs[0]]
        if vs[0][0] != "REJ":
            ctx.notes.append("binding demo: swapping $add for $sub was not observable in the chosen design")
    ctx.cov["rule"] = ("program = one elaborated design (its RTLIL flattened); disagreements_checked = steps x compared ports; "
                       "non-trivial = netlist has at least one cell/process")
    ctx.assume("values < 2^30; x/z digits read as 0 (incl. the undefined power-on value of synchronous read ports); $print/$check text, instances and inout ports are not evaluated; memory addresses stay in range and write ports never collide")
    ctx.assume("input changes never coincide with a clock edge in one testbench write")


def _run_job(job):
    fn, arg = job
    return fn(arg)


def replay(ctx, rep):
    print("replay: designs are regenerated deterministically from the seed; recorded:", rep["replay"])
    return 0
