"""C13 — asynchronous FIFOs are safe under every interleaving of their clocks.

spec:   FifoObs (contract: AsyncClause, depth rounding), FifoAsyncImpl (implementation-structured models of
        AsyncFIFO / AsyncFIFOBuffered: Gray counters, 2-flop synchronisers, registered levels, output register),
        FifoTrace (validation of executions recorded from the real classes).
stages: mc        TLC: FifoAsyncImpl => contract over the full reachable graph of clock events
                  {write edge, read edge, both} x (w_en, w_data, r_en); bounded liveness; order / nothing lost with
                  bounded histories; seeded design errors (mutants) that must break the contract
        sweep     every (class, depth 0..17, exact_depth) the constructor accepts must elaborate (Simulator and
                  rtlil.convert) with the effective depth TLC computes from FifoObs!AsyncDepth / AsyncBufDepth
        tours     every edge of the model's graph replayed on the real FIFO (spec -> code), traces validated
        random    seeded clock-ratio walks with a write-free tail on larger depths / widths (code -> spec)
        binding   corrupted recorded traces must be rejected
Verdicts come from FifoTrace (property-level contract) and from the literal comparison with the depth table
printed by TLC; disagreement between FifoAsyncImpl and the code is reported as a coverage note only."""
import os
import random
import re
import warnings
from concurrent.futures import ThreadPoolExecutor

from ..common import pmap, MachineryError
from .. import tours, tracecheck, tlaval

LEVEL = "model_checking"
K_LIVE = 8          # Appendix A: an entry is readable K edges of each clock after the last accepted write
CLASS = {"async": "AsyncFIFO", "asyncbuf": "AsyncFIFOBuffered"}

CFG = """SPECIFICATION Spec
CONSTANTS Depth = {depth}
 Data = {data}
 Variant = "{variant}"
 MaxHist = {hist}
 K = {k}
 Reset = {reset}
 Mutant = "{mutant}"
 ShowDepths = {show}
INVARIANT {contract}
INVARIANT ReadLive
INVARIANT FifoOrder
INVARIANT NothingLost
INVARIANT ObsIsOut
INVARIANT GrayRegs
{structure}CONSTRAINT Constr
"""


def cfg(variant, depth, hist=0, k=0, mutant="", data="{0, 1}", reset=False, show=False):
    return CFG.format(variant=variant, depth=depth, hist=hist, k=k, mutant=mutant, data=data,
                      reset="TRUE" if reset else "FALSE", show="TRUE" if show else "FALSE",
                      contract="ResetSafe" if reset else "ObsAllowed",
                      structure="" if reset else "INVARIANT Mapping\nINVARIANT Conservative\n")


# ------------------------------------------------------------------------------------------------------------
# workers (module level: used through pmap)
def _label_event(lab):
    name, args = tours.parse_action(lab)
    we, re_ = {"WEdge": (1, 0), "REdge": (0, 1), "BothEdges": (1, 1)}[name]
    return (we, re_, int(args[0]), int(args[1]), int(args[2]))


def _tour_job(job):
    from .. import fifo_drive
    variant, width, depth, events = job
    steps, eff = fifo_drive.run_async(variant, width, depth, events)
    return steps, eff


def _random_events(job):
    from .. import fifo_drive
    variant, width, depth, n, seed, ratio, mode = job
    rng = random.Random(seed)
    return fifo_drive.async_events(rng, n, width, ratio=tuple(ratio) if ratio else None, mode=mode)


def _random_job(job):
    from .. import fifo_drive
    variant, width, depth = job[:3]
    events, ratio, mode = _random_events(job)
    steps, eff = fifo_drive.run_async(variant, width, depth, events)
    return steps, eff, ratio, mode


def _sweep_case(case):
    """Construct and elaborate one (class, depth, exact_depth). Pure observation; the expectation is TLC's."""
    variant, depth, exact = case
    from amaranth.hdl import ClockDomain, Module
    from amaranth.sim import Simulator
    from amaranth.back import rtlil
    from amaranth.lib import fifo as _fifo
    try:
        from amaranth.hdl._ir import UnusedElaboratable
        warnings.simplefilter("ignore", UnusedElaboratable)
    except ImportError:
        pass
    cls = getattr(_fifo, CLASS[variant])
    res = {"constructed": False, "depth": None, "errors": []}

    def build():
        return cls(width=3, depth=depth, exact_depth=exact)
    try:
        f = build()
    except Exception as e:           # noqa: BLE001 - every refusal is recorded, the spec decides
        res["construct_error"] = (type(e).__name__, str(e)[:200])
        return res
    res["constructed"] = True
    res["depth"] = f.depth
    try:
        m = Module()
        m.domains.read = ClockDomain("read")
        m.domains.write = ClockDomain("write")
        m.submodules.fifo = f
        Simulator(m)
    except Exception as e:           # noqa: BLE001
        res["errors"].append(("Simulator", type(e).__name__, str(e)[:200]))
    try:
        f2 = build()
        text = rtlil.convert(f2, ports=[f2.w_data, f2.w_en, f2.w_rdy, f2.w_level,
                                        f2.r_data, f2.r_en, f2.r_rdy, f2.r_level, f2.r_rst])
        if "module" not in text:
            res["errors"].append(("rtlil.convert", "EmptyOutput", ""))
    except Exception as e:           # noqa: BLE001
        res["errors"].append(("rtlil.convert", type(e).__name__, str(e)[:200]))
    return res


# ------------------------------------------------------------------------------------------------------------
_OBS = re.compile(r"obs = \[w_rdy \|-> (\w+), r_rdy \|-> (\w+), r_data \|-> (-?\d+), level \|-> -?\d+, "
                  r"r_level \|-> (-?\d+), w_level \|-> (-?\d+)\]")


def _model_obs(g, nid):
    m = _OBS.search(g._raw[nid])
    if not m:
        raise MachineryError("no obs in model state %r" % g._raw[nid][:300])
    return [int(m.group(1) == "TRUE"), int(m.group(2) == "TRUE"), int(m.group(3)), int(m.group(4)), int(m.group(5))]


def _graph_job(job):
    """Load one dumped model graph and return edge-covering walks as event lists with the model's outputs."""
    _, dot, variant, d, distinct, generated = job
    g = tours.load_dot(dot)
    if g.n_edges != generated - 1 or len(g.out) != distinct:
        raise MachineryError("%s: dot dump has %d nodes / %d edges, TLC reported %d / %d" % (
            dot, len(g.out), g.n_edges, distinct, generated - 1))
    walks = tours.covering_walks(g, max_len=400)
    covered = {(s, lab, dst) for init, w in walks for s, (lab, dst) in zip([init] + [x[1] for x in w], w)}
    n_distinct = len({(s, lab, dst) for s, es in g.out.items() for lab, dst in es})
    if len(covered) != n_distinct:
        raise MachineryError("%s: walks cover %d of %d edges" % (dot, len(covered), n_distinct))
    obs = {}

    def ob(n):
        if n not in obs:
            obs[n] = _model_obs(g, n)
        return obs[n]
    out = []
    for init, w in walks:
        out.append(([_label_event(lab) for lab, _ in w], [ob(init)] + [ob(dst) for _, dst in w[:-1]]))
    return {"nodes": len(g.out), "edges": g.n_edges, "walks": out}


def _mixed_job(job):
    return _graph_job(job) if job[0] == "graph" else _random_job(job)


# ------------------------------------------------------------------------------------------------------------
def run(ctx):
    ex = ThreadPoolExecutor(8)
    try:
        _run(ctx, ex)
    finally:
        ex.shutdown(wait=True, cancel_futures=True)


def _run(ctx, ex):
    th = ctx.thorough

    # ---------------- mc: the designs refine the contract, exhaustively over clock interleavings -----------
    jobs = [  # (stage, cfg, expected violated invariant, workers)
        ("mc/async-d2", cfg("async", 2, show=True), None, 2),
        ("mc/asyncbuf-d3", cfg("asyncbuf", 3), None, 4),
        ("mc/async-d4", cfg("async", 4), None, 4),
        ("mc/live-async-d2", cfg("async", 2, k=K_LIVE), None, 4),
        # the model meets a tighter bound than K (3 edges); K'=3 <= K implies the K clause and keeps the graph small
        ("mc/live-asyncbuf-d3", cfg("asyncbuf", 3, k=K_LIVE if th else 3), None, 4),
        ("mc/hist-async-d2", cfg("async", 2, hist=8 if th else 6), None, 2),
        ("mc/hist-asyncbuf-d3", cfg("asyncbuf", 3, hist=5 if th else 3), None, 4),
        ("mc/mutant-full-binary-style", cfg("async", 2, mutant="full_binary_style"), "ObsAllowed", 1),
        ("mc/mutant-sync-bypassed", cfg("async", 2, mutant="sync_bypassed_r"), "ObsAllowed", 1),
        ("mc/mutant-gray-lag", cfg("async", 2, mutant="gray_lag"), "ObsAllowed", 1),
        ("mc/mutant-raddr-bin", cfg("asyncbuf", 3, mutant="raddr_bin"), "ObsAllowed", 1),
        ("mc/mutant-buf-always-load", cfg("asyncbuf", 3, mutant="buf_always_load"), "ObsAllowed", 1),
    ]
    if th:
        jobs += [
            ("mc/asyncbuf-d5", cfg("asyncbuf", 5), None, 8),
            ("mc/live-async-d4", cfg("async", 4, k=K_LIVE), None, 4),
            ("mc/hist-async-d4", cfg("async", 4, hist=6), None, 4),
            # write-domain reset (AsyncFIFO only; documented there): data clauses under an explicit environment
            # assumption on the length of the reset pulse (see FifoAsyncImpl.tla); model-level only
            ("mc/reset-async-d2", cfg("async", 2, reset=True), None, 2),
            ("mc/reset-async-d4", cfg("async", 4, reset=True), None, 4),
        ]

    def one(j):
        stage, c, expect, workers = j
        return ctx.tlc("FifoAsyncImpl", stage=stage, cfg_text=c, workers=workers, expect_violation=expect,
                       count=expect is None, args=("-coverage", "1") if expect is None else (), timeout=9000)

    # model graphs for the tours, dumped first because everything on the main path waits for them.
    # (variant, depth, data): depth 2 with data {0,1}; the larger graphs with one data value (every control
    # state and edge; data paths are covered by depth 2 and by the random walks with wide data)
    tour_specs = [("async", 2, "{0, 1}"), ("asyncbuf", 3, "{0}")]
    if th:
        tour_specs.append(("async", 4, "{0}"))

    def dump(spec):
        variant, d, data = spec
        stage = "tours/graph-%s-d%d" % (variant, d)
        dot = os.path.join(ctx.tmp, "g_%s_%d" % (variant, d))
        r = ctx.tlc("FifoAsyncImpl", stage=stage, count=False, workers=4, cfg_text=cfg(variant, d, data=data),
                    args=("-dump", "dot,actionlabels", dot))
        return ("graph", dot + ".dot", variant, d, r.distinct, r.generated)
    dump_futures = [ex.submit(dump, spec) for spec in tour_specs]
    r0_future = ex.submit(one, jobs[0])
    mc_futures = [ex.submit(one, j) for j in jobs if j[0] != "mc/async-d2"]
    # the first run also prints the documented depth table; needed right away by the sweep
    r0 = r0_future.result()
    table = None
    for txt in r0.printed():
        if txt.startswith('<< "DEPTHS"') or txt.startswith('<<"DEPTHS"'):
            table = tlaval.parse(txt)[1]
    if table is None:
        raise MachineryError("TLC did not print the depth table:\n" + r0.out[:2000])

    # ---------------- sweep: every constructible depth elaborates, with the documented rounding ------------
    cases = [(v, d, e) for v in ("async", "asyncbuf") for d in range(0, 18) for e in (False, True)]
    n_constructed = 0
    for case, res in zip(cases, pmap(_sweep_case, cases, chunksize=4)):
        variant, d, exact = case
        row = table[variant][d]
        eff, exact_ok = int(row[0]), bool(row[1])
        should_accept = exact_ok or not exact
        base = {"class": CLASS[variant], "depth": d, "exact_depth": exact}
        what = "%s(width=3, depth=%d, exact_depth=%s)" % (CLASS[variant], d, exact)
        ctx.case(("sweep",) + case, nontrivial=True)
        if not res["constructed"]:
            if should_accept:
                err = res["construct_error"]
                ctx.violation({**base, "stage": "construct", "error": err[0]},
                              "%s is refused (%s: %s) but the documentation rounds this depth to %d" % (
                                  what, err[0], err[1], eff), replay={"kind": "sweep", "case": list(case)})
            continue
        n_constructed += 1
        if not should_accept:
            ctx.violation({**base, "stage": "construct", "error": "accepted"},
                          "%s is accepted although the class only supports depths of the form %s (nearest: %d)" % (
                              what, "2^n" if variant == "async" else "2^n+1", eff),
                          replay={"kind": "sweep", "case": list(case)})
            continue
        if res["depth"] != eff:
            ctx.violation({**base, "stage": "depth", "error": "depth=%s" % res["depth"]},
                          "%s reports depth %s; the documented rounding gives %d" % (what, res["depth"], eff),
                          replay={"kind": "sweep", "case": list(case)})
        if res["errors"]:
            step, ename, msg = res["errors"][0]
            ctx.violation({**base, "stage": "elaborate", "error": ename},
                          "%s is constructible (depth %s) but does not elaborate: %s" % (
                              what, res["depth"], "; ".join("%s raises %s: %s" % e for e in res["errors"])),
                          replay={"kind": "sweep", "case": list(case)})
    if n_constructed < 40 and not ctx.violations:
        raise MachineryError("constructor sweep is vacuous: only %d cases constructed" % n_constructed)
    ctx.cov["stages"]["sweep"] = {"cases": len(cases), "constructed": n_constructed}
    _elab_cache = {}

    def elaborates(variant, depth):
        # parameters that cannot be simulated are skipped by the behavioural stages (the sweep reports them)
        key = (variant, depth)
        if key not in _elab_cache:
            r = _sweep_case((variant, depth, False))
            _elab_cache[key] = r["constructed"] and not any(e[0] == "Simulator" for e in r["errors"])
        return _elab_cache[key]

    # ---------------- tours (spec -> code) and random clock-ratio walks (code -> spec) ------------------------
    from .. import fifo_drive
    traces, meta = [], []
    gjobs = [f.result() for f in dump_futures]

    rjobs = []
    n_events = 1000 if th else 400
    depth_sets = {"async": [0, 1, 2, 4, 8, 16, 32] if th else [0, 1, 2, 4, 8, 16],
                  "asyncbuf": [0, 2, 3, 5, 9, 17, 33] if th else [0, 2, 3, 5, 9, 17]}
    widths = [0, 1, 3, 8]
    skipped = []
    for variant, ds in depth_sets.items():
        for depth in ds:
            if not elaborates(variant, depth):
                skipped.append((variant, depth))
                continue
            for width in widths:
                combos = [(r, m) for r in fifo_drive.RATIOS for m in fifo_drive.CLOCK_MODES
                          if not (m == "coincident" and r != (1, 1))]
                if depth == 0:
                    combos = combos[:2]
                elif not th:
                    # quick: every ratio and every mode appears for each (variant, depth), spread over the widths
                    k = widths.index(width)
                    combos = [c for i, c in enumerate(combos) if i % len(widths) == k]
                for ratio, mode in combos:
                    for _ in range(2 if th else 1):
                        rjobs.append((variant, width, depth, n_events, ctx.rng.getrandbits(48), ratio, mode))
    mixed = pmap(_mixed_job, gjobs + rjobs)
    g_results, r_results = mixed[:len(gjobs)], mixed[len(gjobs):]

    agree = {"steps": 0, "mismatches": 0, "first": None}
    tour_jobs, tour_expect = [], []
    for spec, gj, gr in zip(tour_specs, gjobs, g_results):
        os.unlink(gj[1])
        variant, d, data = spec
        ctx.cov["stages"]["tours/graph-%s-d%d" % (variant, d)].update({
            "graph_nodes": gr["nodes"], "graph_edges": gr["edges"], "walks": len(gr["walks"]),
            "walk_steps": sum(len(e) for e, _ in gr["walks"]), "data": data})
        for width in ((1, 3) if th else (1,)):
            for events, exp in gr["walks"]:
                tour_jobs.append((variant, width, d, events))
                tour_expect.append(exp)
    for job, exp, (steps, eff) in zip(tour_jobs, tour_expect, pmap(_tour_job, tour_jobs, chunksize=4)):
        if eff != job[2] and not ctx.violations:     # (a wrong rounding is the sweep's finding, not ours)
            raise MachineryError("tour: %s depth %d became %d" % (job[0], job[2], eff))
        traces.append({"variant": job[0], "depth": eff, "k": K_LIVE, "steps": steps})
        meta.append({"class": job[0], "width": job[1], "depth": job[2], "driver": "tour", "events": job[3]})
        ctx.case(("tour", job[0], job[1], job[2], hash(tuple(job[3]))), nontrivial=len(steps) > 3)
        for i, (s, e) in enumerate(zip(steps, exp)):      # model vs code: coverage note only
            agree["steps"] += 1
            if [s[5], s[6], s[7], s[9], s[10]] != e:
                agree["mismatches"] += 1
                if agree["first"] is None:
                    agree["first"] = {"class": job[0], "depth": job[2], "step": i, "code": s, "model": e}
    ctx.cov["model_code_agreement"] = agree
    if agree["mismatches"]:
        ctx.notes.append("FifoAsyncImpl and the code disagree on %d of %d tour steps (coverage note, not a verdict): %r"
                         % (agree["mismatches"], agree["steps"], agree["first"]))
    tour_jobs = tour_expect = g_results = mixed = None

    live_total = 0
    for job, (steps, eff, ratio, mode) in zip(rjobs, r_results):
        traces.append({"variant": job[0], "depth": eff, "k": K_LIVE, "steps": steps})
        meta.append({"class": job[0], "width": job[1], "depth": job[2], "driver": "random", "seed": job[4],
                     "events": job[3], "ratio": list(ratio), "mode": mode})
        full = any(s[5] == 0 for s in steps)
        delivered = any(s[6] == 1 and s[4] == 1 and s[1] == 1 for s in steps)
        ctx.case(("rand", job), nontrivial=full and delivered)
    ctx.cov["stages"]["random"] = {"walks": len(rjobs), "events_each": n_events,
                                   "skipped_not_elaborating": [list(x) for x in skipped]}

    for f in mc_futures:          # model checking ran in the background meanwhile
        f.result()
    for j in jobs:
        if j[2] is None:
            st = ctx.cov["stages"][j[0]]
            acts = st.get("actions", {})
            for a in ("WEdge", "REdge", "BothEdges") + (("RstAssert", "RstEvent", "RstRelease") if "reset" in j[0] else ()):
                if not acts.get(a):
                    raise MachineryError("vacuous model run %s: action %s never taken (%r)" % (j[0], a, acts))

    verdicts = tracecheck.validate(ctx, "FifoTrace", traces, "async-fifo", batch_size=800 if th else 4000)
    for v, m, t in zip(verdicts, meta, traces):
        if v[0] == "REJ":
            step, clause = v[1], v[2]
            key = {"class": CLASS[m["class"]], "depth": m["depth"], "width": m["width"], "clause": clause}
            rm = dict(m)
            if m["driver"] == "tour" and len(m["events"]) > 2000:
                rm["events"] = m["events"][:step + 1]
            ctx.violation(key, "%s(width=%d, depth=%d): clause %s broken at event %d (driver %s%s); last events "
                               "[wedge,redge,w_en,w_data,r_en,w_rdy,r_rdy,r_data,-,r_level,w_level]: %r" % (
                                   CLASS[m["class"]], m["width"], m["depth"], clause, step, m["driver"],
                                   "" if m["driver"] == "tour" else " ratio %s mode %s" % (m["ratio"], m["mode"]),
                                   t["steps"][max(0, step - 6):step]),
                          replay={"kind": "trace", "meta": rm, "step": step, "clause": clause})
        elif m["driver"] == "random":
            live_total += int(v[2]) if len(v) > 2 else 0
    ctx.cov["liveness_clause_exercised_at_steps"] = live_total
    if live_total == 0 and not any(v[0] == "REJ" for v in verdicts):
        raise MachineryError("random walks never exercised the bounded-liveness clause (vacuous)")
    first_r = next(i for i, m in enumerate(meta) if m["driver"] == "random")
    ctx.sample({"meta": {k: v for k, v in meta[0].items() if k != "events"}, "first_steps": traces[0]["steps"][:6],
                "step_format": "wedge,redge,w_en,w_data,r_en,w_rdy,r_rdy,r_data,level(-1),r_level,w_level"})
    ctx.sample({"meta": meta[-1], "steps_20_26": traces[-1]["steps"][20:26]})
    ctx.sample({"depth_table_from_TLC": {v: {str(d): list(table[v][d]) for d in (0, 1, 2, 3, 4, 5, 9, 17)}
                                         for v in ("async", "asyncbuf")}})

    # ---------------- binding demonstration: corrupted traces must be rejected ------------------------------
    good = next((t for t, v, m in zip(traces[first_r:], verdicts[first_r:], meta[first_r:])
                 if v[0] == "ACC" and t["depth"] >= 2 and m["width"] >= 1 and int(v[2]) > 0
                 and any(s[6] for s in t["steps"]) and any(s[5] == 0 for s in t["steps"])), None)
    if good is None:
        # nothing suitable was accepted: only legitimate if the run is reporting rejected traces anyway
        if not any(v[0] == "REJ" for v in verdicts):
            raise MachineryError("binding demo: no accepted non-trivial trace to corrupt")
        ctx.notes.append("binding demo skipped: no accepted non-trivial trace (violations reported)")
    else:
        bad1 = {**good, "steps": [list(s) for s in good["steps"]]}
        for s in bad1["steps"]:                            # a recorder that flips delivered data
            if s[6] == 1:
                s[7] ^= 1
        bad2 = {**good, "steps": [list(s) for s in good["steps"]]}
        for s in bad2["steps"]:                            # a queue that always claims to have room
            s[5] = 1
        bad3 = {**good, "steps": [list(s) for s in good["steps"]]}
        for s in bad3["steps"]:                            # entries never become readable (r_rdy stuck low)
            s[6] = 0
        bad4 = {**good, "steps": [list(s) for s in good["steps"]]}
        bad4["steps"][len(bad4["steps"]) // 2][9] = good["depth"] + 1      # r_level out of range
        vs = tracecheck.validate(ctx, "FifoTrace", [bad1, bad2, bad3, bad4], "binding-demo", count_states=False)
        ctx.cov["traces_validated_against_impl"] -= 4
        want = ["r_data_not_oldest", None, None, "r_level_out_of_range"]
        for v, w in zip(vs, want):
            if v[0] != "REJ" or (w is not None and v[2] != w):
                raise MachineryError("binding demo: corrupted traces were not rejected as expected: %r" % (vs,))
        ctx.cov["stages"]["binding-demo/validate"]["corrupted_rejected"] = [list(map(str, v)) for v in vs]

    ctx.cov["exhaustive"] = False
    ctx.cov["rule"] = ("cases = constructor sweep entries + executions of the real AsyncFIFO/AsyncFIFOBuffered (tour walks "
                       "covering every edge of the FifoAsyncImpl graph: %s; seeded clock-ratio walks); non-trivial = the "
                       "walk fills the queue (w_rdy low) and delivers data, or a tour with >3 events" % (
                           ", ".join("%s depth %d data %s" % (v, d, da) for v, d, da in tour_specs)))
    ctx.assume("r_data is compared only while r_rdy is asserted; `level` is not part of the asynchronous interfaces")
    ctx.assume("TLC model checking uses data values {0,1} (data independence) and depths <= %d; larger depths by random "
               "walks only" % (5 if th else 4))
    ctx.assume("no write-domain reset in the recorded executions (the property statement does not cover reset; the model "
               "explores it in the thorough tier under an explicit pulse-length assumption)")
    ctx.assume("bounded liveness constant K = %d edges of each clock after the last accepted write" % K_LIVE)


def replay(ctx, rep):
    from .. import fifo_drive
    r = rep["replay"]
    if r["kind"] == "sweep":
        case = tuple(r["case"])
        res = _sweep_case(case)
        print("sweep case %r -> %r" % (case, res))
        bad = (not res["constructed"]) or res["errors"]
        if bad:
            print("VIOLATION property=C13 replay=(same)")
            return 1
        return 0
    m = r["meta"]
    if m["driver"] == "tour":
        steps, eff = fifo_drive.run_async(m["class"], m["width"], m["depth"], [tuple(x) for x in m["events"]])
    else:
        steps, eff, _, _ = _random_job((m["class"], m["width"], m["depth"], m["events"], m["seed"], m["ratio"], m["mode"]))
    vs = tracecheck.validate(ctx, "FifoTrace", [{"variant": m["class"], "depth": eff, "k": K_LIVE, "steps": steps}], "replay")
    print("replay verdict:", vs[0])
    if vs[0][0] == "REJ":
        print("VIOLATION property=C13 replay=(same)")
        return 1
    return 0
