"""C11 — memories behave as arrays of rows under any port configuration.

spec:   AmMemOps (the semantics, twice: declarative contract `Clause` and operational step function),
        AmMem (state machine over small configurations: the step function satisfies the contract on every
        transition; mutants), AmMemTrace (validation of executions of the real lib.memory.Memory in pysim).
stages: mc        TLC on AmMem for a set of small configurations (shapes u2/u4/s3/ArrayLayout, depth 0..4, 0..2 read
                  and write ports, comb/sync, two domains, transparency, granularity), all event sequences up to
                  MaxLevel; seeded errors in the step function must break the named contract clause
        tours     every edge of the model's state graph replayed on the real Memory; outputs and storage recorded
                  after every event and validated by AmMemTrace (spec -> code)
        random    seeded random configurations x random events incl. coincident edges, out-of-range addresses,
                  collisions, testbench row writes (code -> spec)
        elaborate every configuration goes through back.rtlil.convert
        binding   corrupted recorded traces must be rejected
Verdicts come from AmMemTrace only.  Undefined behaviour (read beyond depth, colliding writes, cross-domain
read/write at a coincident edge) is generated on purpose; the monitor accepts and adopts whatever is observed there."""
import copy
import json
import os
import random
import shutil
from concurrent.futures import ThreadPoolExecutor

from ..common import pmap, MachineryError
from .. import tours, tracecheck

LEVEL = "model_checking"

INVARIANTS = ["RowsInShape", "OutputsInShape", "WriteBeyondDepthChangesNothing", "FrameCondition",
              "EnabledGranulesWritten", "DisabledReadPortHolds", "ReadCapturesOldRow", "TransparentReadSeesNewData",
              "RomKeepsInit", "ContractHolds"]

CFG = """SPECIFICATION Spec
CONSTANTS Cid = {cid}
 Mutant = "{mutant}"
 MaxLevel = {level}
{invs}
CONSTRAINT Bounded
CHECK_DEADLOCK FALSE
"""

STAT_NAMES = ["transparent_captures", "old_data_captures_of_a_row_written_at_the_same_edge", "writes_beyond_depth",
              "reads_beyond_depth", "colliding_bits", "cross_domain_hazards", "cross_domain_hazards_old_data_seen",
              "partial_granule_writes", "testbench_row_writes"]


def _cfg_text(cid, mutant="", level=5, invs=INVARIANTS):
    return CFG.format(cid=cid, mutant=mutant, level=level, invs="\n".join("INVARIANT " + i for i in invs))


# ------------------------------------------------------------------------------------------------------------
# model configurations: (name, make_cfg arguments, alphabet)
# ------------------------------------------------------------------------------------------------------------
def _entry(md, name, kind, w, depth, init, rp, wp, addrs, datas, wens, edges, tbvals, ew=0, n=0):
    return {"name": name, "cfg": md.make_cfg(kind, w, depth, init, rp, wp, ew=ew, n=n), "addrs": addrs, "datas": datas,
            "wens": wens, "edges": edges, "tbvals": tbvals}


def model_entries(md, thorough, rng):
    """Alphabets are kept small on purpose: the number of edges of a graph (= events replayed on the real memory)
    is  states x labels,  and labels multiply over the ports that can act in an event."""
    E = []
    # one transparent sync read + one granular write port, same domain
    E.append(_entry(md, "u2x2-RAt-WAg1", "u", 2, 2, [2], [("A", [1])], [("A", 1)],
                    [0, 1], [[1, 2]], [[0, 1, 2, 3]], [1], [3]))
    # non-power-of-two depth: address 3 is out of range; comb + transparent port; both domains ticking
    E.append(_entry(md, "u2x3-RAt,comb-WAg0", "u", 2, 3, [1], [("A", [1]), ("comb", [])], [("A", None)],
                    [0, 2, 3], [[1, 2]], [[0, 1]], [1, 2, 3], [3]))
    # two domains: read port in B, write port in A (cross-domain hazard at coincident edges)
    E.append(_entry(md, "u4x2-RB-WAg2", "u", 4, 2, [5, 9], [("B", [])], [("A", 2)],
                    [0, 1], [[6]], [[0, 1, 3]], [1, 2, 3], [10]))
    # signed rows, depth 1 (zero-width address)
    E.append(_entry(md, "s3x1-RB-WBg0", "s", 3, 1, [-3], [("B", [])], [("B", None)],
                    [0], [[3, 5]], [[0, 1]], [2, 3], [-2, 3]))
    # aggregate rows, element granularity, transparent and non-transparent read of the same write port
    E.append(_entry(md, "arr22x3-RAt,A-WAg1", "arr", 0, 3, [[1, 2]], [("A", [1]), ("A", [])], [("A", 1)],
                    [0, 2], [[6]], [[0, 1, 3]], [1], [], ew=2, n=2))
    # depth 0: nothing to store, every address is out of range
    E.append(_entry(md, "u2x0-RAt,comb-WAg1", "u", 2, 0, [], [("A", [1]), ("comb", [])], [("A", 1)],
                    [0], [[1, 2]], [[0, 1, 3]], [1, 3], []))
    # two write ports in one domain with different granularities (collisions), read transparent for one of them
    E.append(_entry(md, "u4x1-RAt2-WAg2,Ag1", "u", 4, 1, [3], [("A", [2])], [("A", 2), ("A", 1)],
                    [0], [[5], [10]], [[0, 1, 2], [0, 6, 9]], [1], []))
    # read-only memory
    E.append(_entry(md, "u2x2-rom-Rcomb,RA", "u", 2, 2, [1, 2], [("comb", []), ("A", [])], [],
                    [0, 1], [], [], [1, 2, 3], []))
    # write-only memory, two domains, granularity = full width
    E.append(_entry(md, "u4x3-WAg0,Bg4", "u", 4, 3, [], [], [("A", None), ("B", 4)],
                    [0, 2, 3], [[6], [9]], [[0, 1], [0, 1]], [1, 2, 3], [15]))
    if thorough:
        # four ports, two domains, minimal alphabets
        E.append(_entry(md, "u4x2-RAt,B-WAg2,Bg0", "u", 4, 2, [5, 9], [("A", [1]), ("B", [])], [("A", 2), ("B", None)],
                        [0, 1], [[6], [10]], [[0, 1], [0, 1]], [1, 2, 3], []))
        E.append(_entry(md, "u4x2-RAt12,At2-WAg2,Ag1", "u", 4, 2, [3], [("A", [1, 2]), ("A", [2])],
                        [("A", 2), ("A", 1)], [0, 1], [[5], [10]], [[0, 2], [0, 6]], [1], []))
        for t in range(12):
            kind = rng.choice(["u", "u", "s", "arr"])
            w = rng.choice([2, 4]) if kind == "u" else 3
            ew, n = (2, 2) if kind == "arr" else (0, 0)
            if kind == "arr":
                w = 4
            depth = rng.choice([1, 2, 3, 3])
            nw = rng.choice([1, 1, 2])
            nr = rng.choice([1, 2]) if nw == 1 else rng.choice([0, 1])
            wp = []
            for _ in range(nw):
                gran = None if kind == "s" else rng.choice([None, 1, (n if kind == "arr" else w) // 2])
                wp.append((rng.choice("AB"), gran))
            rp = []
            for _ in range(nr):
                dom = rng.choice(["comb", "A", "B"])
                rp.append((dom, [j + 1 for j, (d, _) in enumerate(wp) if d == dom and rng.random() < 0.7]))
            init = [md.rand_value(rng, kind, w, ew, n) for _ in range(rng.randint(0, depth))]
            cfg = md.make_cfg(kind, w, depth, init, rp, wp, ew=ew, n=n)
            amax = (1 << cfg["aw"]) - 1
            addrs = sorted({0, amax})
            datas = [[rng.getrandbits(w)] for _ in wp]
            wens = [sorted({0, (1 << p["ng"]) - 1, rng.getrandbits(p["ng"])}) for p in cfg["wp"]]
            E.append({"name": "rnd%d-%s" % (t, md.cfg_name(cfg).replace(" ", "-")), "cfg": cfg, "addrs": addrs,
                      "datas": datas, "wens": wens, "edges": [1, 2, 3],
                      "tbvals": [md.rand_value(rng, kind, w, ew, n)] if nw + nr <= 2 else []})
    return E


# (mutant, configuration name, invariant that must be violated)
MUTANTS = [
    ("transparent_for_any_address", "u2x2-RAt-WAg1", "ReadCapturesOldRow"),
    ("read_sees_rows_after_write", "arr22x3-RAt,A-WAg1", "ReadCapturesOldRow"),
    ("write_wraps_around", "u2x3-RAt,comb-WAg0", "WriteBeyondDepthChangesNothing"),
    ("granule_order_reversed", "u2x2-RAt-WAg1", "ContractHolds"),
    ("read_ignores_enable", "s3x1-RB-WBg0", "DisabledReadPortHolds"),
]


# ------------------------------------------------------------------------------------------------------------
# worker jobs (module level: run in forked processes)
# ------------------------------------------------------------------------------------------------------------
def _run_job(job):
    """job = (cfg, events, elaborate?) -> ("ok", steps, rtlil_len) | ("exc", where, text)"""
    from .. import mem_drive
    cfg, events, elab = job
    try:
        steps = mem_drive.run(cfg, events)
    except Exception as e:                      # "all [configurations] will simulate correctly"
        return ("exc", "simulate", "%s: %s" % (type(e).__name__, e))
    try:
        n = mem_drive.elaborate(cfg) if elab else 0
    except Exception as e:
        return ("exc", "rtlil.convert", "%s: %s" % (type(e).__name__, e))
    return ("ok", steps, n)


def _random_job(job):
    from .. import mem_drive
    seed, n_events, max_depth = job
    rng = random.Random(seed)
    cfg = mem_drive.random_cfg(rng, max_depth=max_depth)
    events = mem_drive.random_events(rng, cfg, n_events)
    return (cfg, events) + _run_job((cfg, events, True))


def _walk_events(cfg, labels, rng):
    """Turn the action labels of a walk over AmMem's graph into driver events.  Inputs the model fixes to 0
    because they cannot matter (ports whose clock does not rise, asynchronous ports, address/data of disabled
    ports) are chosen at random here."""
    nr, nw = len(cfg["rp"]), len(cfg["wp"])
    amax = (1 << cfg["aw"]) - 1
    w = cfg["w"]
    held = [[0] * nr, [1] * nr, [0] * nw, [0] * nw, [0] * nw]
    events = []

    def rises(dom, D):
        return (dom == "A" and D & 1) or (dom == "B" and D & 2)
    for lab in labels:
        name, args = tours.parse_action(lab)
        if name == "Edge":
            D, inp = args
            ra, re, wa, wd, we = [list(x) for x in inp]
            for k, p in enumerate(cfg["rp"]):
                if p["dom"] == "comb":
                    ra[k] = rng.randint(0, amax)
                elif not rises(p["dom"], D):
                    ra[k], re[k] = rng.randint(0, amax), rng.randint(0, 1)
                elif re[k] == 0:
                    ra[k] = rng.randint(0, amax)
            for j, p in enumerate(cfg["wp"]):
                if not rises(p["dom"], D):
                    wa[j], wd[j], we[j] = rng.randint(0, amax), rng.getrandbits(w), rng.getrandbits(p["ng"])
                elif we[j] == 0:
                    wa[j], wd[j] = rng.randint(0, amax), rng.getrandbits(w)
            held = [ra, re, wa, wd, we]
            events.append([D] + [list(x) for x in held] + [0, 0])
        else:
            for k, p in enumerate(cfg["rp"]):
                if p["dom"] == "comb":
                    held[0][k] = rng.randint(0, amax)       # asynchronous ports follow their address without a clock
            if name == "TbWrite":
                v = args[1]
                events.append([0] + [list(x) for x in held] + [args[0], list(v) if isinstance(v, tuple) else v])
            else:
                events.append([0] + [list(x) for x in held] + [0, 0])
    return events


# ------------------------------------------------------------------------------------------------------------
def _judge(ctx, verdicts, metas, traces, totals):
    for v, m, t in zip(verdicts, metas, traces):
        if v[0] == "REJ":
            step, clause = v[1], v[2]
            idx = v[3] if len(v) > 3 else 0
            key = {"clause": clause, "config": m["config"]}
            ctx.violation(key, "Memory %s: clause %s (port/row %s) broken at step %d (driver %s)\n"
                          "cfg=%s\nsteps [D, ra, re, wa, wd, we, tb_row, tb_value, outputs, rows]:\n%s" % (
                              m["config"], clause, idx, step, m["driver"], json.dumps(t["cfg"]),
                              "\n".join(json.dumps(s) for s in t["steps"][max(0, step - 3):step])),
                          replay={"meta": m, "cfg": t["cfg"], "events": [s[:8] for s in t["steps"]],
                                  "step": step, "clause": clause})
        else:
            st = v[2]
            for i, x in enumerate(st):
                totals[i] += x
            ctx.case((m["config"], m["driver"], m.get("seed"), m.get("walk")), nontrivial=sum(st[:3]) + st[7] > 0)


def _exception(ctx, cfg, where, text, meta, events):
    from .. import mem_drive
    ctx.violation({"clause": "exception_in_" + where, "config": mem_drive.cfg_name(cfg)},
                  "Memory %s: %s raised %s\ncfg=%s" % (mem_drive.cfg_name(cfg), where, text, json.dumps(cfg)),
                  replay={"meta": meta, "cfg": cfg, "events": events, "step": 0, "clause": "exception_in_" + where})


def run(ctx):
    from .. import mem_drive as md
    th = ctx.thorough
    level = 7 if th else 5
    entries = model_entries(md, th, random.Random(ctx.seed * 7919 + 11))
    names = [e["name"] for e in entries]
    model_path = os.path.join(ctx.tmp, "ammem_model.json")
    with open(model_path, "w") as f:
        json.dump({"configs": entries}, f)
    env = {"MODEL_FILE": model_path}

    # ---------------- mc + graphs: contract holds on every transition of every configuration -----------------
    jobs = [("mc/%s" % e["name"], n + 1, "", None) for n, e in enumerate(entries)]
    jobs += [("mc/mutant-%s" % mut, names.index(cn) + 1, mut, inv) for mut, cn, inv in MUTANTS]

    def one(j):
        stage, cid, mut, inv = j
        if inv is not None:
            return ctx.tlc("AmMem", stage=stage, cfg_text=_cfg_text(cid, mut, level, [inv]), env=env, workers=1,
                           expect_violation=inv, count=False)
        dot = os.path.join(ctx.tmp, "g_%d" % cid)
        # one worker: strict breadth-first order, so that the level bound cuts the same graph in every run
        return ctx.tlc("AmMem", stage=stage, cfg_text=_cfg_text(cid, "", level), env=env, workers=1,
                       args=("-coverage", "1", "-dump", "dot,actionlabels", dot))
    with ThreadPoolExecutor(8) as ex:
        results = list(ex.map(one, jobs))
    for j, r, in zip(jobs, results):
        if j[3] is None:
            e = entries[j[1] - 1]
            need = ["Edge"] + (["TbRead"] if e["cfg"]["depth"] else []) + \
                   (["TbWrite"] if e["cfg"]["depth"] and e["tbvals"] else [])
            ctx.require_actions(r, need, j[0])

    # ---------------- tours: every edge of each graph on the real memory ------------------------------------
    traces, metas, run_jobs = [], [], []
    wrng = random.Random(ctx.seed * 31 + 5)
    for n, e in enumerate(entries):
        dot = os.path.join(ctx.tmp, "g_%d.dot" % (n + 1))
        g = tours.load_dot(dot)
        walks = tours.covering_walks(g, max_len=250)
        st = ctx.cov["stages"]["mc/%s" % e["name"]]
        st.update({"graph_nodes": len(g.out), "graph_edges": g.n_edges, "walks": len(walks),
                   "walk_steps": sum(len(w) for _, w in walks)})
        for wi, (_, w) in enumerate(walks):
            events = _walk_events(e["cfg"], [lab for lab, _ in w], wrng)
            run_jobs.append((e["cfg"], events, wi == 0))      # rtlil.convert once per configuration
            metas.append({"config": md.cfg_name(e["cfg"]), "driver": "tour", "model": e["name"], "walk": wi})
        os.unlink(dot)
    if not run_jobs:
        raise MachineryError("no tour walks generated")
    for job, m, res in zip(run_jobs, list(metas), pmap(_run_job, run_jobs, chunksize=16)):
        if res[0] == "exc":
            _exception(ctx, job[0], res[1], res[2], m, job[1])
            metas.remove(m)
            continue
        traces.append({"cfg": job[0], "steps": res[1]})
    n_tour = len(traces)

    # ---------------- random configurations and events --------------------------------------------------------
    n_cfg, n_ev = (1000, 300) if th else (64, 250)
    rjobs = [(ctx.rng.getrandbits(48), n_ev, 9) for _ in range(n_cfg)]
    seen_cfg = set()
    for job, res in zip(rjobs, pmap(_random_job, rjobs, chunksize=4)):
        cfg, events = res[0], res[1]
        m = {"config": md.cfg_name(cfg), "driver": "random", "seed": job[0], "events": job[1]}
        seen_cfg.add(md.cfg_name(cfg).split(" init")[0] + " R[" + md.cfg_name(cfg).split(" R[")[1])
        if res[2] == "exc":
            _exception(ctx, cfg, res[3], res[4], m, events)
            continue
        traces.append({"cfg": cfg, "steps": res[3]})
        metas.append(m)

    totals = [0] * len(STAT_NAMES)
    # tour walks are short, random runs long: batch so that one TLC run judges roughly 150 000 steps
    verdicts = tracecheck.validate(ctx, "AmMemTrace", traces[:n_tour], "tours", batch_size=15000)
    verdicts += tracecheck.validate(ctx, "AmMemTrace", traces[n_tour:], "random", batch_size=500)
    _judge(ctx, verdicts, metas, traces, totals)
    ctx.cov["exercised"] = dict(zip(STAT_NAMES, totals))
    ctx.cov["tour_traces"] = n_tour
    ctx.cov["random_configurations_distinct_port_structures"] = len(seen_cfg)
    ctx.cov["elaborated_with_rtlil_convert"] = len(entries) + len(traces) - n_tour
    if not ctx.violations:
        for i in (0, 1, 2, 3, 4, 5, 7, 8):
            if totals[i] == 0:
                raise MachineryError("vacuous run: %s never exercised (%r)" % (STAT_NAMES[i], ctx.cov["exercised"]))
    ctx.sample({"config": metas[0]["config"], "driver": "tour", "first_steps": traces[0]["steps"][:5],
                "step_format": "D, ra, re, wa, wd, we, tb_row, tb_value, outputs, rows"})
    ctx.sample({"config": metas[-1]["config"], "driver": "random", "first_steps": traces[-1]["steps"][:5]})

    # ---------------- binding demonstration: corrupted traces must be rejected ------------------------------
    # (taken from configurations in which every bit is specified, so that each corruption is certainly illegal)
    def specified(c):
        return (c["w"] > 0 and c["depth"] == 1 << c["aw"] and len(c["wp"]) <= 1 and
                all(p["dom"] in ("comb", c["wp"][0]["dom"]) for p in c["rp"] if c["wp"]))
    bad = []
    for t, v in zip(traces, verdicts):
        c = t["cfg"]
        if v[0] != "ACC" or not specified(c) or len(t["steps"]) < 7:
            continue
        sync = [k for k, p in enumerate(c["rp"]) if p["dom"] != "comb"]
        if len(bad) == 0:
            b = copy.deepcopy(t)
            b["steps"][4][9][0] ^= 1                # storage read back differently
            bad.append(b)
        elif len(bad) == 1 and sync and len({s[8][sync[0]] for s in t["steps"]}) > 2:
            b = copy.deepcopy(t)                   # a hook reporting stale read data: the output never changes
            for s in b["steps"]:
                s[8][sync[0]] = b["steps"][0][8][sync[0]]
            bad.append(b)
        elif len(bad) == 2 and sync:
            k = sync[0]
            bit = 1 if c["rp"][k]["dom"] == "A" else 2
            caps = [n for n, s in enumerate(t["steps"]) if s[0] & bit and s[2][k] == 1]
            if caps:
                b = copy.deepcopy(t)
                b["steps"][caps[-1]][8][k] ^= 1     # one wrong bit in one captured word
                bad.append(b)
        if len(bad) == 3:
            break
    if len(bad) < 3 and not ctx.violations:
        raise MachineryError("binding demo: not enough accepted traces to corrupt")
    if len(bad) == 3:   # (when the implementation is being rejected there may be too few accepted traces to corrupt)
        vs = tracecheck.validate(ctx, "AmMemTrace", bad, "binding-demo", count_states=False)
        ctx.cov["traces_validated_against_impl"] -= len(bad)
        if any(v[0] != "REJ" for v in vs):
            raise MachineryError("binding demo: corrupted traces were accepted: %r" % (vs,))
        ctx.cov["stages"]["binding-demo/validate"]["corrupted_rejected"] = [list(map(str, v)) for v in vs]

    ctx.cov["exhaustive"] = False
    ctx.cov["rule"] = ("cases = executions of the real Memory (walks covering every edge of the AmMem graph of %d small "
                       "configurations up to %d events, plus seeded random configurations x %d events); non-trivial = "
                       "the execution contains a transparent capture, an old-data capture of a row written at the "
                       "same edge, a write beyond the depth or a partial-granule write" % (len(entries), level, n_ev))
    ctx.assume("reads with an address >= depth, bits written by two ports in one event, and the data captured by a "
               "synchronous read port while a write port of another clock domain updates the same row at a coincident "
               "edge are unspecified: generated, but any observed value is accepted and adopted")
    ctx.assume("the data output of a synchronous read port before its first capture is not asserted")
    ctx.assume("TLC explores small alphabets (2-3 addresses, 2 data words, 2-4 enable masks) per configuration; "
               "inputs that cannot matter are fixed in the model and randomised at replay")
    ctx.assume("simulator/RTLIL agreement is covered by C04; here each configuration only has to pass rtlil.convert")


def replay(ctx, rep):
    from .. import mem_drive as md
    r = rep["replay"]
    cfg, events = r["cfg"], r["events"]
    res = _run_job((cfg, events, True))
    if res[0] == "exc":
        print("replay: %s raised %s" % (res[1], res[2]))
        print("VIOLATION property=C11 replay=(same)")
        return 1
    vs = tracecheck.validate(ctx, "AmMemTrace", [{"cfg": cfg, "steps": res[1]}], "replay")
    shutil.rmtree(ctx.tmp, ignore_errors=True)
    print("replay verdict:", vs[0])
    if vs[0][0] == "REJ":
        print("VIOLATION property=C11 replay=(same)")
        return 1
    return 0
