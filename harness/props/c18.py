# amaranth: UnusedElaboratable=no
"""C18 — I/O buffers apply direction, inversion and registering exactly per bit.

spec:   IoBuf (port algebra Slice/Index/Concat/Invert over [dir, inv, src]; Buffer per-bit equations; FFBuffer
        register machine; evaluation of port-building programs; theorems), IoBufCases (builder: every state with a
        finished program = one test case with the specification's answers), IoBufFF (the FFBuffer machine explored
        over all event sequences; theorem Latency1), IoBufTrace (validation of recorded executions and netlists).
stages: mc        IoBufCases theorems on every enumerated port, IoBufFF Latency1, six mutant models that must fail
                  (all TLC runs concurrently)
        cases     spec -> code: every finished program is rebuilt from io.SimulationPort leaves with the public
                  operators; len / direction / invert compared literally; (Buffer|FFBuffer, direction) constructors are
                  tried (refused ones must raise ValueError) and the accepted buffers simulated in pysim for the stimulus
                  TLC used; leaf .o/.oe and buffer .i compared with the values TLC computed, wire by wire through `src`
        tours     every edge of the IoBufFF graph replayed on the real FFBuffer (two clock domains)
        random    code -> spec: seeded random runs (signals driven directly, default and named domains, wider ports)
        netlist   Buffer / FFBuffer on SingleEndedPort / DifferentialPort: exported NIR cells
        designs   IoUse: 1..3 buffers (IOBufferInstance on own lines / one line / via a helper, Buffer, FFBuffer, mixed) on
                  slices of shared real pads; a pad bit used twice must be refused with DriverConflict (build_netlist and
                  rtlil.convert), every other design must build and its netlist is judged like the single-buffer ones
        binding   corrupted recordings / netlists must be rejected
                  (tours, random, netlist and binding are judged by one batch of IoBufTrace runs)
Verdicts: literal comparison with TLC-computed values (cases) or IoBufTrace clauses (everything else)."""
import json
import os
import random
import re
import time
import warnings
import zlib
from concurrent.futures import ThreadPoolExecutor

from ..common import pmap, MachineryError
from .. import expr_replay, tours, tracecheck

LEVEL = "model_checking"

CFG_CASES = """SPECIFICATION Spec
CONSTANTS Mutant = "{mutant}"
 LeafW = {{{leafw}}}
 MaxDepth = {depth}
 ConcatK = {k}
 BoolForms = {bools}
 LeafDirs = {{{dirs}}}
 NegKeys = {neg}
 WithSim = {sim}
INVARIANT PortsWellFormed
INVARIANT InvertInvolution
INVARIANT SliceLaws
INVARIANT KeyLaws
INVARIANT ConcatLaws
INVARIANT Loopback
INVARIANT Disjoint
{extra}
CHECK_DEADLOCK FALSE
"""

CFG_CASES_MUT = """SPECIFICATION Spec
CONSTANTS Mutant = "{mutant}"
 LeafW = {{0, 1, 2}}
 MaxDepth = 2
 ConcatK = 0
 BoolForms = FALSE
 LeafDirs = {{"io"}}
 NegKeys = TRUE
 WithSim = FALSE
INVARIANT {inv}
CHECK_DEADLOCK FALSE
"""

CFG_FF = """SPECIFICATION Spec
CONSTANTS Mutant = "{mutant}"
 W = {w}
INVARIANT Latency1
INVARIANT UnusedRegs
CHECK_DEADLOCK FALSE
"""

CFG_USE = """SPECIFICATION Spec
CONSTANTS Mutant = "{mutant}"
 Plans <- {plans}
 Styles = {{{styles}}}
INVARIANT UseLaws
INVARIANT PortsOK
CHECK_DEADLOCK FALSE
"""

ALL_STYLES = '"raw_lines", "raw_loop", "raw_helper", "comb_se", "comb_diff", "ff_se", "ff_diff", "mixed_se", "mixed_diff"'

CFG_TRACE = """SPECIFICATION Spec
CONSTANTS Mutant = ""
CHECK_DEADLOCK FALSE
"""

COMBOS = [(k, d) for k in ("comb", "ff") for d in ("i", "o", "io")]
STIM_W = 6


# ------------------------------------------------------------------------------------------------
# stimulus (chosen by the harness from the seed, given to TLC, which computes the expected observations and
# re-checks its completeness: ASSUME StimComplete)
def gen_stims(rng, width, n_extra):
    steps = []
    perm = {k: [rng.sample(range(4), 4), rng.sample(range(4), 4)] for k in range(width)}
    order = list(range(8))
    rng.shuffle(order)
    for t in order:
        oe, j = t & 1, t >> 1
        steps.append({"o": [bool(perm[k][oe][j] & 1) for k in range(width)],
                      "pin": [bool(perm[k][oe][j] & 2) for k in range(width)], "oe": bool(oe)})
    for _ in range(n_extra):
        steps.append({"o": [rng.random() < .5 for _ in range(width)], "pin": [rng.random() < .5 for _ in range(width)],
                      "oe": rng.random() < .5})
    edges = [(a, b) for a in (False, True) for b in (False, True)]
    es = edges + [rng.choice(edges[1:]) for _ in range(len(steps) - 4)]
    rng.shuffle(es)
    for s, (a, b) in zip(steps, es):
        s["ei"], s["eo"] = a, b
    return steps


def stims_ok(steps, width):
    """Generation filter only (TLC's ASSUME StimComplete is the authority)."""
    def col(f, k):
        return tuple(s[f][k] for s in steps)
    return all(col(f, j) != col(f, k) for f in ("o", "pin") for j in range(width) for k in range(j))


def _bits(v):
    return sum(1 << i for i, b in enumerate(v) if b)


# ------------------------------------------------------------------------------------------------
# the real code: ports from programs, buffers, simulation, netlists
def _op(op):
    return {k: (list(v) if isinstance(v, tuple) else v) for k, v in op.items()}


def render(prog):
    out = []
    for op in prog:
        if op["op"] == "leaf":
            inv = op["b"] if op["form"] == "bool" else "".join("1" if b else "0" for b in op["inv"])
            out.append("L(%s,%d,inv=%s)" % (op["dir"], op["w"], inv))
        elif op["op"] == "slice":
            out.append("[%s:%s]" % ("" if op["olo"] else op["lo"], "" if op["ohi"] else op["hi"]))
        elif op["op"] == "index":
            out.append("[%d]" % op["i"])
        elif op["op"] == "invert":
            out.append("~")
        else:
            out.append("+")
    return " ".join(out)


def sim_leaf(idx, direction, width, invert):
    from amaranth.lib import io
    return io.SimulationPort(direction, width, invert=invert, name="l%d" % idx)


def se_leaf(idx, direction, width, invert):
    from amaranth.hdl import IOPort
    from amaranth.lib import io
    return io.SingleEndedPort(IOPort(width, name="p%d" % idx), invert=invert, direction=direction)


def diff_leaf(idx, direction, width, invert):
    from amaranth.hdl import IOPort
    from amaranth.lib import io
    return io.DifferentialPort(IOPort(width, name="p%d" % idx), IOPort(width, name="n%d" % idx), invert=invert,
                               direction=direction)


def build_port(prog, mk_leaf=sim_leaf):
    """Evaluate a port-building program with the public operators. Returns (stack, leaves, error name or '')."""
    stack, leaves = [], []
    for op in prog:
        o = op["op"]
        try:
            if o == "leaf":
                inv = op["b"] if op["form"] == "bool" else tuple(bool(b) for b in op["inv"])
                leaf = mk_leaf(len(leaves) + 1, op["dir"], op["w"], inv)
                leaves.append(leaf)
                stack.append(leaf)
            elif o == "slice":
                stack[-1] = stack[-1][slice(None if op["olo"] else op["lo"], None if op["ohi"] else op["hi"])]
            elif o == "index":
                stack[-1] = stack[-1][op["i"]]
            elif o == "invert":
                stack[-1] = ~stack[-1]
            elif o == "concat":
                q = stack.pop()
                p = stack.pop()
                stack.append(p + q)
            else:
                raise MachineryError("unknown op %r" % (op,))
        except MachineryError:
            raise
        except Exception as e:
            return stack, leaves, type(e).__name__
    return stack, leaves, ""


def make_buffer(kind, bdir, port):
    """Returns (buffer, '') or (None, exception name)."""
    from amaranth.lib import io
    try:
        if kind == "comb":
            return io.Buffer(bdir, port), ""
        if kind == "ffsync":
            return io.FFBuffer(bdir, port), ""
        kw = {}
        if bdir != "o":
            kw["i_domain"] = "di"
        if bdir != "i":
            kw["o_domain"] = "do"
        return io.FFBuffer(bdir, port, **kw), ""
    except Exception as e:
        return None, type(e).__name__


class _Bench:
    """Many buffers in one design, all fed from shared stimulus signals (spec -> code replay)."""

    def __init__(self):
        from amaranth.hdl import Module, Signal, ClockDomain
        self.m = Module()
        self.m.domains.di = self.cd_i = ClockDomain("di")
        self.m.domains.do = self.cd_o = ClockDomain("do")
        self.s_o = Signal(STIM_W)
        self.s_oe = Signal()
        self.s_pin = Signal(STIM_W)
        self.s_fill = Signal()
        self.items = []       # (tag, buf, bdir, leaves, src, expected obs)

    def add(self, tag, buf, bdir, leaves, src, obs):
        from amaranth.hdl import Cat
        m = self.m
        m.submodules += buf
        w = len(src)
        if bdir != "i":
            m.d.comb += [buf.o.eq(self.s_o[:w]), buf.oe.eq(self.s_oe)]
        if bdir != "o":
            where = {(l, b): k for k, (l, b) in enumerate(src)}
            for li, leaf in enumerate(leaves):
                bits = [self.s_pin[where[(li + 1, b)]] if (li + 1, b) in where else self.s_fill
                        for b in range(len(leaf.i))]
                m.d.comb += leaf.i.eq(Cat(*bits))
        self.items.append((tag, buf, bdir, leaves, src, obs))

    def run(self, stims):
        """Returns list of (tag, step, what, expected, actual)."""
        from amaranth.hdl import Cat
        from amaranth.sim import Simulator
        bad = []
        done = set()
        stim_sig = Cat(self.s_o, self.s_oe, self.s_pin, self.s_fill)
        clk = Cat(self.cd_i.clk, self.cd_o.clk)

        async def tb(ctx):
            for t, s in enumerate(stims):
                ctx.set(stim_sig, _bits(s["o"]) | (int(s["oe"]) << STIM_W) | (_bits(s["pin"]) << (STIM_W + 1)) |
                        ((t & 1) << (2 * STIM_W + 1)))
                for idx, (tag, buf, bdir, leaves, src, obs) in enumerate(self.items):
                    if idx in done:
                        continue
                    po, poe, bi = obs[t]
                    if po >= 0:
                        lo = [ctx.get(leaf.o) for leaf in leaves]
                        loe = [ctx.get(leaf.oe) for leaf in leaves]
                        got_o = sum(((lo[l - 1] >> b) & 1) << k for k, (l, b) in enumerate(src))
                        got_oe = sum(((loe[l - 1] >> b) & 1) << k for k, (l, b) in enumerate(src))
                        if got_o != po:
                            bad.append((tag, t, "port.o", po, got_o))
                            done.add(idx)
                        elif got_oe != poe:
                            bad.append((tag, t, "port.oe", poe, got_oe))
                            done.add(idx)
                    if bi >= 0:
                        got = ctx.get(buf.i)
                        if got != bi and idx not in done:
                            bad.append((tag, t, "i", bi, got))
                            done.add(idx)
                ctx.set(clk, int(s["ei"]) | (int(s["eo"]) << 1))
                ctx.set(clk, 0)

        with warnings.catch_warnings():
            warnings.simplefilter("ignore")
            sim = Simulator(self.m)
            sim.add_testbench(tb)
            sim.run()
        return bad


def record_run(prog, kind, bdir, steps_in):
    """code -> spec: run one buffer on SimulationPort leaves, every signal driven directly by the testbench.
    steps_in: list of (ei, eo, o, oe, [leaf i values]). Returns the IoBufTrace item."""
    from amaranth.hdl import Module, ClockDomain, Cat
    from amaranth.sim import Simulator
    stack, leaves, err = build_port(prog)
    item = {"k": "sim", "prog": [_op(o) for o in prog], "kind": "comb" if kind == "comb" else "ff", "bdir": bdir,
            "cls": "sim", "raised": "", "steps": []}
    if err or len(stack) != 1:
        raise MachineryError("program %s does not build a port: %s" % (render(prog), err))
    buf, raised = make_buffer(kind, bdir, stack[0])
    if buf is None:
        item["raised"] = raised
        return item
    m = Module()
    if kind == "ffsync":
        m.domains.sync = cd_i = cd_o = ClockDomain("sync")
    else:
        m.domains.di = cd_i = ClockDomain("di")
        m.domains.do = cd_o = ClockDomain("do")
    m.submodules.buf = buf
    steps = item["steps"]

    def has(leaf, name):
        try:
            getattr(leaf, name)
            return True
        except AttributeError:
            return False

    async def tb(ctx):
        for ei, eo, o, oe, li in steps_in:
            if bdir != "i":
                ctx.set(buf.o, o)
                ctx.set(buf.oe, oe)
            for leaf, v in zip(leaves, li):
                if has(leaf, "i"):
                    ctx.set(leaf.i, v)
            lo = [ctx.get(leaf.o) if has(leaf, "o") else -1 for leaf in leaves]
            loe = [ctx.get(leaf.oe) if has(leaf, "oe") else -1 for leaf in leaves]
            bi = ctx.get(buf.i) if bdir != "o" else -1
            steps.append([ei, eo, o if bdir != "i" else -1, oe if bdir != "i" else 0,
                          [v if has(leaf, "i") else -1 for leaf, v in zip(leaves, li)], lo, loe, bi])
            if kind == "ffsync":
                ctx.set(cd_i.clk, 1 if (ei or eo) else 0)
                ctx.set(cd_i.clk, 0)
            else:
                ctx.set(Cat(cd_i.clk, cd_o.clk), ei | (eo << 1))
                ctx.set(Cat(cd_i.clk, cd_o.clk), 0)

    with warnings.catch_warnings():
        warnings.simplefilter("ignore")
        sim = Simulator(m)
        sim.add_testbench(tb)
        sim.run()
    return item


def export_netlist(prog, cls, kind, bdir):
    """Buffer / FFBuffer on real I/O ports -> IoBufTrace 'net' item (cells of the NIR netlist)."""
    from amaranth.hdl import Module, Fragment, ClockDomain
    from amaranth.hdl import _nir as nir
    from amaranth.hdl._ir import build_netlist
    stack, leaves, err = build_port(prog, se_leaf if cls == "se" else diff_leaf)
    if err or len(stack) != 1:
        raise MachineryError("program %s does not build a port: %s" % (render(prog), err))
    item = {"k": "net", "prog": [_op(o) for o in prog], "kind": "comb" if kind == "comb" else "ff", "bdir": bdir,
            "cls": cls, "raised": "", "cells": [], "top_i": {"o": [0, 0], "oe": [0, 0]}, "top_o": [], "steps": []}
    buf, raised = make_buffer(kind, bdir, stack[0])
    if buf is None:
        item["raised"] = raised
        return item
    m = Module()
    m.domains.di = ClockDomain("di")
    m.domains.do = ClockDomain("do")
    m.submodules.buf = buf
    ports = ([buf.i] if bdir != "o" else []) + ([buf.o, buf.oe] if bdir != "i" else [])
    with warnings.catch_warnings():
        warnings.simplefilter("ignore")
        nl = build_netlist(Fragment.get(m, None), ports=ports)
    item["cells"], tops_i, tops_o = _cells(nl)
    for name in ("o", "oe"):
        if name in tops_i:
            item["top_i"][name] = tops_i[name]
    item["top_o"] = tops_o.get("i", [])
    return item


def _cells(nl):
    """NIR netlist -> (cells as IoBufTrace records, top-level inputs name -> [start, width], outputs name -> nets)."""
    from amaranth.hdl import _nir as nir
    ionames = [p.name for p in nl.io_ports]

    def net(n):
        if n.is_const:
            return [0, n.const]
        if n.is_late:
            raise MachineryError("late-bound net in a finished netlist")
        return [n.cell, n.bit]

    def val(v):
        return [net(n) for n in v]

    blank = {"k": "other", "op": "", "ins": [], "port": [], "dir": "", "o": [], "oe": [0, 0]}
    cells, tops_i, tops_o = [], {}, {}
    for c in nl.cells:
        d = dict(blank)
        if isinstance(c, nir.Top):
            d["k"] = "top"
            tops_i = {name: [start, width] for name, (start, width) in c.ports_i.items()}
            tops_o = {name: val(v) for name, v in c.ports_o.items()}
        elif isinstance(c, nir.Operator):
            d.update(k="op", op=c.operator, ins=[val(v) for v in c.inputs])
        elif isinstance(c, nir.FlipFlop):
            d.update(k="ff", ins=[val(c.data)])
        elif isinstance(c, nir.IOBuffer):
            d.update(k="iob", dir=c.dir.value, port=[[ionames[n.port], n.bit] for n in c.port])
            if c.o is not None:
                d.update(o=val(c.o), oe=net(c.oe))
        else:
            d["op"] = type(c).__name__
        cells.append(d)
    return cells, tops_i, tops_o


# ------------------------------------------------------------------------------------------------
# designs: several buffers on shared real pads (IoUse); the source line of every IOBufferInstance matters for the
# sensitivity of this stage, so the ways of writing the buffers down are kept apart deliberately
def _raw_kw(bdir, sig):
    return {"i": {"i": sig["i"]}, "o": {"o": sig["o"], "oe": sig["oe"]}, "io": dict(sig)}[bdir]


def _raw_line_1(port, kw):
    from amaranth.hdl import IOBufferInstance
    return IOBufferInstance(port, **kw)


def _raw_line_2(port, kw):
    from amaranth.hdl import IOBufferInstance
    return IOBufferInstance(port, **kw)


def _raw_line_3(port, kw):
    from amaranth.hdl import IOBufferInstance
    return IOBufferInstance(port, **kw)


def _raw_helper(port, kw):
    from amaranth.hdl import IOBufferInstance
    return IOBufferInstance(port, **kw)


def describe(d):
    return "%s w=%d: " % (d["style"], d["padw"][0]) + " ; ".join(
        "%s%s(%s, %s)" % ("~" if b["neg"] and b["kind"] != "raw" else "", {"raw": "IOBufferInstance", "comb": "Buffer", "ff": "FFBuffer"}[b["kind"]],
                          b["bdir"], " + ".join("p%d[%d:%d]" % (g["pad"], g["lo"], g["hi"]) for g in b["segs"]))
        for b in d["bufs"])


def build_design(d, back="netlist"):
    """One IoUse design on the real code. Returns the IoBufTrace 'design' item (raised = exception name or '')."""
    from amaranth.hdl import Module, Fragment, ClockDomain, IOPort, IOBufferInstance, Signal, Cat
    from amaranth.hdl._ir import build_netlist
    from amaranth.lib import io
    style, cls = d["style"], d["cls"]
    padw = list(d["padw"])
    bufs = [{"kind": b["kind"], "bdir": b["bdir"], "neg": bool(b["neg"]), "site": b["site"],
             "segs": [{"pad": g["pad"], "lo": g["lo"], "hi": g["hi"]} for g in b["segs"]]} for b in d["bufs"]]
    item = {"k": "design", "style": style, "cls": cls, "padw": padw, "bufs": bufs, "raised": "", "cells": [], "tops": [],
            "steps": [], "bdir": "", "prog": []}
    pads_p = [IOPort(w, name="p%d" % (n + 1)) for n, w in enumerate(padw)]
    pads_n = [IOPort(w, name="n%d" % (n + 1)) for n, w in enumerate(padw)]
    mask = [tuple(k % 2 == 0 for k in range(w)) for w in padw]          # wire k (0-based) inverted iff k is even
    m = Module()
    m.domains.sync = ClockDomain("sync")
    sigs, raw_specs, ports = [], [], []
    for n, b in enumerate(bufs):
        w = sum(g["hi"] - g["lo"] for g in b["segs"])
        sig = {"i": Signal(w, name="i_%d" % (n + 1)), "o": Signal(w, name="o_%d" % (n + 1)), "oe": Signal(1, name="oe_%d" % (n + 1))}
        sigs.append(sig)
        ports += [sig[x] for x in (("i",) if b["bdir"] == "i" else ("o", "oe") if b["bdir"] == "o" else ("i", "o", "oe"))]
        if b["kind"] == "raw":
            parts = [pads_p[g["pad"] - 1][g["lo"]:g["hi"]] for g in b["segs"]]
            raw_specs.append((n, parts[0] if len(parts) == 1 else Cat(*parts), _raw_kw(b["bdir"], sig)))
        else:
            def lib(g):
                pad = g["pad"] - 1
                whole = (io.SingleEndedPort(pads_p[pad], invert=mask[pad]) if cls == "se" else
                         io.DifferentialPort(pads_p[pad], pads_n[pad], invert=mask[pad]))
                return whole[g["lo"]:g["hi"]]
            port = lib(b["segs"][0])
            for g in b["segs"][1:]:
                port = port + lib(g)
            if b["neg"]:
                port = ~port
            buf = io.Buffer(b["bdir"], port) if b["kind"] == "comb" else io.FFBuffer(b["bdir"], port)
            m.submodules["b%d" % (n + 1)] = buf
            if b["bdir"] != "i":
                m.d.comb += [buf.o.eq(sig["o"]), buf.oe.eq(sig["oe"])]
            if b["bdir"] != "o":
                m.d.comb += sig["i"].eq(buf.i)
    # raw IOBufferInstances: on lines of their own, on one line in a comprehension, or through one helper
    if style == "raw_lines":
        made = [(_raw_line_1, _raw_line_2, _raw_line_3)[k](port, kw) for k, (n, port, kw) in enumerate(raw_specs)]
    elif style == "raw_loop":
        made = [IOBufferInstance(port, **kw) for n, port, kw in raw_specs]
    else:
        made = [_raw_helper(port, kw) for n, port, kw in raw_specs]
    for (n, port, kw), inst in zip(raw_specs, made):
        m.submodules["b%d" % (n + 1)] = inst
    try:
        with warnings.catch_warnings():
            warnings.simplefilter("ignore")
            if back == "rtlil":
                from amaranth.back import rtlil
                rtlil.convert(m, ports=ports)
                return item
            nl = build_netlist(Fragment.get(m, None), ports=ports)
    except Exception as e:
        item["raised"] = type(e).__name__
        item["message"] = str(e)[:300]
        return item
    item["cells"], tops_i, tops_o = _cells(nl)
    for n, b in enumerate(bufs):
        item["tops"].append({"o": tops_i.get("o_%d" % (n + 1), [0, 0]), "oe": tops_i.get("oe_%d" % (n + 1), [0, 0]),
                             "i": tops_o.get("i_%d" % (n + 1), [])})
    return item


def _design_worker(job):
    """Every design of an IoUse dump on the real code: refused / built compared literally with the spec's verdict;
    the built netlists go back for IoBufTrace."""
    path, lo, hi, net_mod, rtlil_mod = job
    out = {"n": 0, "n_ok": 0, "n_conflict": 0, "n_rtlil": 0, "mism": [], "items": [], "fps": [], "styles": {}, "sample": None}
    for state in expr_replay.iter_states_range(path, lo, hi):
        d, exp = state["d"], state["exp"]
        out["n"] += 1
        text = describe(d)
        h = zlib.crc32(text.encode())
        out["fps"].append(h)
        out["styles"][d["style"]] = out["styles"].get(d["style"], 0) + 1
        it = build_design(d)
        want = "" if exp["ok"] else "DriverConflict"
        out["n_ok" if exp["ok"] else "n_conflict"] += 1
        if out["sample"] is None and not exp["ok"] and len(d["bufs"]) >= 2:
            out["sample"] = {"design": text, "IoUse says": "refused (a pad bit is used twice)", "amaranth": it["raised"] or "built"}
        if it["raised"] != want:
            out["mism"].append({"mode": "design", "design": _plain(d), "text": text, "back": "netlist", "expected": want or "built",
                                "actual": it["raised"] or "built", "message": it.get("message", "")})
            continue
        if h % rtlil_mod == 0:
            out["n_rtlil"] += 1
            it2 = build_design(d, back="rtlil")
            if it2["raised"] != want:
                out["mism"].append({"mode": "design", "design": _plain(d), "text": text, "back": "rtlil", "expected": want or "built",
                                    "actual": it2["raised"] or "built", "message": it2.get("message", "")})
        if exp["ok"] and h % net_mod == 0:
            out["items"].append(it)
    out["n_mism"] = len(out["mism"])
    out["mism"] = out["mism"][:40]
    return out


def _plain(x):
    if isinstance(x, dict):
        return {k: _plain(v) for k, v in x.items()}
    if isinstance(x, (list, tuple)):
        return [_plain(v) for v in x]
    return x


# ------------------------------------------------------------------------------------------------
# cases: every finished program of the builder dump
def _case_worker(job):
    path, lo, hi, stims, sim_mod, sim_res, real = job
    out = {"n": 0, "n_err": 0, "n_sim": 0, "n_ctor": 0, "n_buf": 0, "n_rej": 0, "mism": [], "fps": [], "sample": None, "ops": {}}
    bench = None
    pending = 0

    def flush():
        nonlocal bench, pending
        if bench is not None and bench.items:
            for tag, t, what, exp, got in bench.run(stims):
                prog, kind, bdir, src, obs = tag
                out["mism"].append({"mode": "buffer", "prog": [_op(o) for o in prog], "kind": kind, "bdir": bdir,
                                    "step": t, "what": what, "expected": exp, "actual": got, "stims": stims,
                                    "src": [list(x) for x in src], "obs": [list(x) for x in obs]})
        bench = None
        pending = 0

    with warnings.catch_warnings():
        warnings.simplefilter("ignore")
        for state in expr_replay.iter_states_range(path, lo, hi):
            exp = state["exp"]
            if not exp["c"]:
                continue
            prog = list(state["prog"])
            st = state["st"]
            out["n"] += 1
            r = render(prog)
            out["fps"].append(hash(r))
            out["ops"][prog[-1]["op"]] = out["ops"].get(prog[-1]["op"], 0) + 1
            stack, leaves, err = build_port(prog)
            if st["err"] or err:
                out["n_err"] += 1
                if err != st["err"]:
                    out["mism"].append({"mode": "algebra", "prog": [_op(o) for o in prog], "what": "error",
                                        "expected": st["err"] or "no error", "actual": err or "no error"})
                continue
            p = st["stack"][0]["p"]
            port = stack[0]
            got = (len(port), port.direction.value, tuple(port.invert))
            want = (len(p["inv"]), p["dir"], tuple(p["inv"]))
            if got != want or not all(isinstance(b, bool) for b in port.invert):
                out["mism"].append({"mode": "algebra", "prog": [_op(o) for o in prog], "what": "len/direction/invert",
                                    "expected": list(want), "actual": [got[0], got[1], list(got[2])]})
                if got[:2] != want[:2]:
                    continue              # (a wrong mask alone is also shown by the buffers' behaviour below)
            if real:                  # the same expression on real I/O ports (no simulation: attributes only)
                for cls, mk in (("SingleEndedPort", se_leaf), ("DifferentialPort", diff_leaf)):
                    rstack, _, rerr = build_port(prog, mk)
                    rgot = rerr or (len(rstack[0]), rstack[0].direction.value, tuple(rstack[0].invert))
                    if rgot != want:
                        out["mism"].append({"mode": "algebra", "cls": cls, "prog": [_op(o) for o in prog],
                                            "what": "len/direction/invert on " + cls, "expected": list(want),
                                            "actual": rgot if rerr else [rgot[0], rgot[1], list(rgot[2])]})
            src = [tuple(x) for x in p["src"]]
            if out["sample"] is None and len(prog) >= 4 and want[0] >= 2 and any(want[2]) and exp["acc"] and exp["acc"][-1]["obs"]:
                out["sample"] = {"program": r, "len": want[0], "direction": want[1], "invert": list(want[2]), "wires": src,
                                 "buffer": exp["acc"][-1]["kind"] + "/" + exp["acc"][-1]["bdir"],
                                 "expected <<port.o, port.oe, i>> per step": [list(x) for x in exp["acc"][-1]["obs"][:4]]}
            acc = {(a["kind"], a["bdir"]): a for a in exp["acc"]}
            # simulated: every program of at most 3 operations, and a seeded 1-in-sim_mod sample of the longer ones
            sim_here = sim_mod and (len(prog) <= 3 or sim_mod == 1 or zlib.crc32(r.encode()) % sim_mod == sim_res)
            out["n_sim"] += bool(sim_here and exp["acc"])
            # constructors (refusal depends on the port's direction only, which was just compared): every program that is
            # simulated or short, and 1 in 4 of the others
            if not (sim_here or len(prog) <= 3 or zlib.crc32(r.encode()) % 4 == 0):
                continue
            out["n_ctor"] += 1
            for kind, bdir in COMBOS:
                a = acc.get((kind, bdir))
                simulate = a is not None and sim_here and bool(a["obs"])
                # a simulated buffer gets leaves of its own; constructing alone can share them
                pstack, pleaves, _ = build_port(prog) if simulate else (stack, leaves, "")
                buf, raised = make_buffer(kind, bdir, pstack[0])
                if (raised or "accepted") != ("accepted" if a is not None else "ValueError"):
                    out["mism"].append({"mode": "accept", "prog": [_op(o) for o in prog], "kind": kind, "bdir": bdir,
                                        "expected": "accepted" if a is not None else "ValueError",
                                        "actual": raised or "accepted"})
                    continue
                if a is None:
                    out["n_rej"] += 1
                elif simulate:
                    if bench is None:
                        bench = _Bench()
                    bench.add((prog, kind, bdir, src, a["obs"]), buf, bdir, pleaves, src, a["obs"])
                    out["n_buf"] += 1
                    pending += 1
            if pending >= 96:
                flush()
        flush()
    out["n_mism"] = len(out["mism"])
    out["mism"] = out["mism"][:40]
    return out


def case_jobs(ctx, stage, r, dump, stims, sim_mod, real):
    ctx.require_actions(r, ["PushLeaf", "DoSlice", "DoIndex", "DoInvert", "DoConcat"], stage)
    sim_res = ctx.rng.randrange(sim_mod) if sim_mod else 0
    return [(dump + ".dump", lo, hi, stims, sim_mod, sim_res, real) for lo, hi in expr_replay.split_dump(dump + ".dump", 48)]


def collect_cases(ctx, stage, res, sim_mod):
    tot = {k: sum(x[k] for x in res) for k in ("n", "n_err", "n_sim", "n_ctor", "n_buf", "n_rej", "n_mism")}
    ops = {}
    for x in res:
        for k, v in x["ops"].items():
            ops[k] = ops.get(k, 0) + v
        for fp in x["fps"]:
            ctx.case(fp)
        for m in x["mism"]:
            report(ctx, m)
    smp = next((x["sample"] for x in res if x["sample"]), None)
    if smp:
        ctx.sample(smp)
    if tot["n"] == 0 or (sim_mod and tot["n_buf"] == 0):
        raise MachineryError("vacuous replay in stage %s: %r" % (stage, tot))
    ctx.cov["stages"]["replay/" + stage] = {"programs": tot["n"], "refused_sums": tot["n_err"], "programs_simulated": tot["n_sim"],
                                            "programs_with_constructors_tried": tot["n_ctor"],
                                            "buffers_simulated": tot["n_buf"], "buffers_refused": tot["n_rej"], "by_last_op": ops,
                                            "simulated": ("all programs of <= 3 operations" +
                                                          ("" if sim_mod == 1 else ", 1 in %d of the longer ones" % sim_mod)) if sim_mod else "none"}
    ctx.cov["traces_validated_against_impl"] += tot["n"] + tot["n_buf"]


def report(ctx, m):
    prog = render(m["prog"])
    if m["mode"] == "algebra":
        key = {"kind": "algebra", "what": m["what"], "last_op": m["prog"][-1]["op"], "program": prog}
        ctx.violation(key, "port `%s`: %s is %r, IoBuf says %r" % (prog, m["what"], m["actual"], m["expected"]), replay=m)
    elif m["mode"] == "accept":
        key = {"kind": "accept", "buffer": m["kind"], "bdir": m["bdir"], "program": prog}
        ctx.violation(key, "%s buffer of direction %s on port `%s`: constructor outcome %s, IoBuf says %s" % (
            m["kind"], m["bdir"], prog, m["actual"], m["expected"]), replay=m)
    else:
        key = {"kind": "buffer", "buffer": m["kind"], "bdir": m["bdir"], "what": m["what"], "program": prog}
        ctx.violation(key, "%s buffer (%s) on port `%s`: at step %d %s (wire order) is %d, IoBuf says %d" % (
            m["kind"], m["bdir"], prog, m["step"], m["what"], m["actual"], m["expected"]), replay=m)


# ------------------------------------------------------------------------------------------------
# code -> spec jobs
def _tour_job(job):
    inv, bdir, pdir, w, steps = job
    prog = [{"op": "leaf", "dir": pdir, "w": w, "form": "seq", "inv": list(inv)}]
    return record_run(prog, "ff", bdir, [(int(ei), int(eo), o, int(oe), [pin]) for ei, eo, o, oe, pin in steps])


def _leaf_widths(prog):
    return [op["w"] for op in prog if op["op"] == "leaf"]


def _random_job(job):
    prog, kind, bdir, n, seed = job
    rng = random.Random(seed)
    ws = _leaf_widths(prog)
    wtot = sum(ws)
    steps = []
    for _ in range(n):
        ei, eo = rng.choice([(1, 1), (1, 0), (0, 1), (1, 1), (0, 0)])
        if kind == "ffsync":
            ei = eo = max(ei, eo)
        steps.append((ei, eo, rng.getrandbits(wtot) if wtot else 0, rng.getrandbits(1), [rng.getrandbits(w) if w else 0 for w in ws]))
    return record_run(prog, kind, bdir, steps)


def _net_job(job):
    prog, cls, kind, bdir = job
    return export_netlist(prog, cls, kind, bdir)


def _any_job(j):
    return {"tour": _tour_job, "random": _random_job, "net": _net_job, "case": _case_worker, "design": _design_worker}[j[0].split(":")[0]](j[1])


def gen_programs(rng, n, maxw=9, maxleaves=4):
    """Seeded port-building programs for the code -> spec stages, also beyond the builder's bounds (more leaves, wider,
    deeper); IoBufTrace evaluates any program."""
    out = []
    for _ in range(n):
        nl = rng.randint(1, maxleaves)
        dirs = rng.choice([["i"], ["o"], ["io"], ["i", "io"], ["o", "io"]])
        prog = []
        for j in range(nl):
            w = rng.randint(0, maxw)
            if rng.random() < .2:
                prog.append({"op": "leaf", "dir": rng.choice(dirs), "w": w, "form": "bool", "b": rng.random() < .5})
            else:
                prog.append({"op": "leaf", "dir": rng.choice(dirs), "w": w, "form": "seq", "inv": [rng.random() < .5 for _ in range(w)]})
            cur = w
            for _ in range(rng.randint(0, 2)):
                c = rng.random()
                if c < .4:
                    prog.append({"op": "invert"})
                elif c < .8 or cur == 0:
                    lo = rng.randint(0, cur)
                    hi = rng.randint(lo, cur)
                    op = {"op": "slice", "lo": lo, "olo": False, "hi": hi, "ohi": False}
                    # the same selection written the Python way: from the end, or with the bound left out
                    if lo == 0 and rng.random() < .5:
                        op.update(olo=True)
                    elif lo < cur and rng.random() < .4:
                        op.update(lo=lo - cur)
                    if hi == cur and rng.random() < .5:
                        op.update(hi=0, ohi=True)
                    elif hi < cur and rng.random() < .4:
                        op.update(hi=hi - cur)
                    prog.append(op)
                    cur = hi - lo
                else:
                    i = rng.randrange(cur)
                    prog.append({"op": "index", "i": i - cur if rng.random() < .5 else i})
                    cur = 1
            if j:
                prog.append({"op": "concat"})
                if rng.random() < .3:
                    prog.append({"op": "invert"})
        out.append(prog)
    return out


def judge(ctx, items, metas, stage, extra=()):
    """Verdicts of IoBufTrace for items (+ extra items that are judged but never reported)."""
    everything = list(items) + list(extra)
    parts = [everything[n:n + 3000] for n in range(0, len(everything), 3000)]
    if len(parts) <= 1:
        verdicts = tracecheck.validate(ctx, "IoBufTrace", everything, stage, cfg=CFG_TRACE, batch_size=3000)
    else:                                       # several batches: one TLC each, concurrently
        before = (ctx.cov["traces_validated_against_impl"], ctx.cov.get("trace_states_checked", 0))
        with ThreadPoolExecutor(min(6, len(parts))) as ex:
            vs = list(ex.map(lambda a: tracecheck.validate(ctx, "IoBufTrace", a[1], "%s-%d" % (stage, a[0]), cfg=CFG_TRACE,
                                                           batch_size=3000, workers=4), enumerate(parts)))
        verdicts = [v for part in vs for v in part]
        agg = ctx.cov["stages"].setdefault(stage + "/validate", {})
        for n in range(len(parts)):
            st = ctx.cov["stages"].pop("%s-%d/validate" % (stage, n))
            for k in ("tlc_states", "tlc_generated", "trace_states", "batches"):
                agg[k] = agg.get(k, 0) + st.get(k, 0)
            agg["tlc_wall_s"] = max(agg.get("tlc_wall_s", 0), st.get("tlc_wall_s", 0))
        ctx.cov["traces_validated_against_impl"] = before[0] + len(everything)      # (counters are not thread-safe)
        ctx.cov["trace_states_checked"] = before[1] + agg["trace_states"]
    for v, it, me in zip(verdicts, items, metas):
        if v[0] == "REJ":
            step, clause = v[1], v[2]
            if clause == "bad_item":
                raise MachineryError("IoBufTrace could not evaluate %r" % (render(it["prog"]),))
            key = {"kind": it["k"], "cls": it["cls"], "buffer": me["kind"], "bdir": it["bdir"], "clause": clause,
                   "program": describe(it) if it["k"] == "design" else render(it["prog"])}
            if it["k"] == "design":
                desc = "design `%s`: netlist breaks clause %s; cells: %s" % (
                    key["program"], clause, [(c["k"], c["op"] or c["dir"], c["port"]) for c in it["cells"][1:]])
            elif it["k"] == "net":
                desc = "%s buffer (%s) on %s port `%s`: netlist breaks clause %s; cells: %s" % (
                    me["kind"], it["bdir"], it["cls"], key["program"], clause,
                    [(c["k"], c["op"] or c["dir"], c["port"]) for c in it["cells"][1:]])
            else:
                desc = "%s buffer (%s) on port `%s`: clause %s broken at step %d; steps <<ei,eo,o,oe,leaf.i,leaf.o,leaf.oe,i>>: %r" % (
                    me["kind"], it["bdir"], key["program"], clause, step, it["steps"][max(0, step - 3):step])
            ctx.violation(key, desc, replay={"mode": "item", "item": it, "meta": me, "clause": clause})
    return verdicts


def run(ctx):
    th = ctx.thorough
    stims = gen_stims(ctx.rng, STIM_W, 6 if th else 4)
    while not stims_ok(stims, STIM_W):
        stims = gen_stims(ctx.rng, STIM_W, 6 if th else 4)
    with open(os.path.join(ctx.tmp, "stims.json"), "w") as f:
        json.dump({"stims": stims}, f)

    # ---------------- mc: all TLC runs of the models, concurrently ------------------------------------------------
    base = dict(mutant="", depth=2, bools="FALSE", sim="TRUE", extra="", dirs='"i", "o", "io"', neg="FALSE")
    # (name, builder instance, simulate 1 in N of the programs longer than 3 operations (0 = no simulation),
    #  also rebuild on SingleEndedPort / DifferentialPort leaves)
    if th:
        builders = [("cases-w2", dict(base, leafw="0,1,2", k=1), 2, False),
                    ("cases-w3", dict(base, leafw="0,1,2,3", k=1, sim="FALSE", extra="INVARIANT ExpIsEval"), 0, False),
                    ("cases-w3-sim", dict(base, leafw="0,3", k=0, bools="TRUE"), 2, False),
                    ("cases-keys", dict(base, leafw="0,1,2,3", k=0, dirs='"io"', neg="TRUE"), 2, True)]
    else:
        builders = [("cases-w2", dict(base, leafw="0,1,2", k=0, bools="TRUE"), 6, False),
                    ("cases-k1", dict(base, leafw="2", k=1, sim="FALSE", extra="INVARIANT ExpIsEval"), 0, True),
                    ("cases-keys", dict(base, leafw="0,1,2", k=0, dirs='"io"', neg="TRUE"), 3, True)]
    # designs on real pads (IoUse): (name, instance, judge 1 in N of the built netlists with IoBufTrace, rtlil for 1 in N)
    uses = [("use-designs", dict(mutant="", styles=ALL_STYLES, plans="PlansThorough" if th else "PlansQuick"), 2 if th else 3, 8)]
    tour_ws = (1, 2) if th else (1,)
    jobs = [("IoBufCases", "mc/" + name, CFG_CASES.format(**inst), None, 6,
             ("-coverage", "1", "-dump", os.path.join(ctx.tmp, name)), 1) for name, inst, _, _ in builders]
    jobs += [("MC_IoUse", "mc/" + name, CFG_USE.format(**inst), None, 4, ("-dump", os.path.join(ctx.tmp, name)), 1)
             for name, inst, _, _ in uses]
    jobs += [("MC_IoUse", "mc/mutant-same_site_ok", CFG_USE.format(mutant="same_site_ok", styles=ALL_STYLES, plans="PlansMutant"),
              "UseLaws", 2, (), 0)]
    jobs += [("IoBufFF", "mc/ff-w%d" % w, CFG_FF.format(mutant="", w=w), None, 2,
              ("-coverage", "1") + (("-dump", "dot,actionlabels", os.path.join(ctx.tmp, "ffg_%d" % w)) if w in tour_ws else ()), 1)
             for w in ((1, 2, 3) if th else (1, 2))]
    jobs += [("IoBufCases", "mc/mutant-concat_rev", CFG_CASES_MUT.format(mutant="concat_rev", inv="ConcatLaws"), "ConcatLaws", 2, (), 0),
             ("IoBufCases", "mc/mutant-invert_same", CFG_CASES_MUT.format(mutant="invert_same", inv="InvertInvolution"), "InvertInvolution", 2, (), 0),
             ("IoBufCases", "mc/mutant-neg_index_empty", CFG_CASES_MUT.format(mutant="neg_index_empty", inv="KeyLaws"), "KeyLaws", 2, (), 0),
             ("IoBufCases", "mc/mutant-no_in_inv", CFG_CASES_MUT.format(mutant="no_in_inv", inv="Loopback"), "Loopback", 2, (), 0),
             ("IoBufFF", "mc/mutant-oe_wrong_domain", CFG_FF.format(mutant="oe_wrong_domain", w=1), "Latency1", 2, (), 0)]

    def one(j):
        mod, stage, cfg, expect, workers, args, _ = j
        return ctx.tlc(mod, stage=stage, cfg_text=cfg, workers=workers, expect_violation=expect, count=expect is None,
                       args=args, env={"IOBUF_STIM": os.path.join(ctx.tmp, "stims.json")})
    with ThreadPoolExecutor(len(jobs)) as ex:
        results = {j[1]: r for j, r in zip(jobs, ex.map(one, jobs))}
    for j in jobs:
        if j[3] is None and j[0] == "IoBufFF":
            # (harness.tlc's coverage pattern does not match action headers that carry a location suffix)
            m = re.search(r"<Tick line [^>]*>: (\d+):(\d+)", results[j[1]].out)
            if not m or int(m.group(2)) == 0:
                raise MachineryError("vacuous model run %s: action Tick never taken" % j[1])
            ctx.cov["stages"][j[1]]["actions"] = {"Tick": int(m.group(2))}

    # ---------------- tours: every edge of the FFBuffer machine on the real FFBuffer -------------------------
    items, metas = [], []
    tour_jobs = []
    for w in tour_ws:
        dot = os.path.join(ctx.tmp, "ffg_%d" % w)
        g = tours.load_dot(dot + ".dot")
        walks = tours.covering_walks(g, max_len=400)
        ctx.cov["stages"]["mc/ff-w%d" % w].update({"graph_nodes": len(g.out), "graph_edges": g.n_edges, "walks": len(walks),
                                                         "walk_steps": sum(len(x) for _, x in walks)})
        for n, (init, walk) in enumerate(walks):
            s0 = g.state(init)
            steps = [tours.parse_action(lab)[1] for lab, _ in walk]
            pdir = s0["bdir"] if n % 2 else "io"
            tour_jobs.append((tuple(s0["inv"]), s0["bdir"], pdir, w, steps))
        os.unlink(dot + ".dot")
    # ---------------- random: long runs on sampled and wider ports; netlist: real ports ---------------------------
    progs = gen_programs(ctx.rng, 300 if th else 40, 3, 3) + gen_programs(ctx.rng, 100 if th else 20)
    rjobs = []
    for prog in progs:
        for kind in ("comb", "ff", "ffsync"):
            for bdir in ("i", "o", "io"):
                rjobs.append((prog, kind, bdir, 60 if th else 30, ctx.rng.getrandbits(48)))
    nprogs = gen_programs(ctx.rng, 600 if th else 80, 3, 3) + gen_programs(ctx.rng, 60 if th else 20)
    njobs = [(prog, cls, kind, bdir) for prog in nprogs for cls in ("se", "diff") for kind, bdir in COMBOS]
    t0 = time.time()
    alljobs = [("tour", j) for j in tour_jobs] + [("random", j) for j in rjobs] + [("net", j) for j in njobs]
    # cases (spec -> code): every finished program of every builder dump, in the same process pool
    cjobs = []
    for name, inst, sim_mod, real in builders:
        cjobs += [("case:" + name, j) for j in case_jobs(ctx, name, results["mc/" + name], os.path.join(ctx.tmp, name), stims, sim_mod, real)]
    for name, inst, net_mod, rtlil_mod in uses:
        path = os.path.join(ctx.tmp, name) + ".dump"
        cjobs += [("design:" + name, (path, lo, hi, net_mod, rtlil_mod)) for lo, hi in expr_replay.split_dump(path, 64)]
    ctx.rng.shuffle(alljobs)
    both = cjobs + alljobs
    order = sorted(range(len(both)), key=lambda n: (n % 7, n))           # interleave long and short jobs
    out = pmap(_any_job, [both[n] for n in order], chunksize=2)
    byidx = dict(zip(order, out))
    for name, inst, sim_mod, real in builders:
        collect_cases(ctx, name, [byidx[n] for n, j in enumerate(both) if j[0] == "case:" + name], sim_mod)
        os.unlink(os.path.join(ctx.tmp, name) + ".dump")
    for name, inst, net_mod, rtlil_mod in uses:
        res = [byidx[n] for n, j in enumerate(both) if j[0] == "design:" + name]
        os.unlink(os.path.join(ctx.tmp, name) + ".dump")
        tot = {k: sum(x[k] for x in res) for k in ("n", "n_ok", "n_conflict", "n_rtlil", "n_mism")}
        if tot["n"] != results["mc/" + name].distinct or tot["n_conflict"] == 0 or tot["n_ok"] == 0:
            raise MachineryError("design replay %s is vacuous or incomplete: %r vs %d TLC states" % (name, tot, results["mc/" + name].distinct))
        styles = {}
        for x in res:
            for k, v in x["styles"].items():
                styles[k] = styles.get(k, 0) + v
            for fp in x["fps"]:
                ctx.case(("design", fp))
            for mm in x["mism"]:
                key = {"kind": "design", "style": mm["design"]["style"], "back": mm["back"], "expected": mm["expected"], "design": mm["text"]}
                ctx.violation(key, "design `%s` (%s): building gives %s, IoUse says %s%s" % (
                    mm["text"], mm["back"], mm["actual"], mm["expected"], (" [" + mm["message"] + "]") if mm["message"] else ""), replay=mm)
            for it in x["items"]:
                items.append(it)
                metas.append({"driver": "design", "kind": "design"})
        smp = next((x["sample"] for x in res if x["sample"]), None)
        if smp:
            ctx.sample(smp)
        ctx.cov["stages"]["replay/" + name] = {"designs": tot["n"], "built (IoUse: accepted)": tot["n_ok"],
                                               "DriverConflict (IoUse: a pad bit used twice)": tot["n_conflict"],
                                               "also through rtlil.convert": tot["n_rtlil"], "by_style": styles,
                                               "netlists judged by IoBufTrace": sum(len(x["items"]) for x in res)}
        ctx.cov["traces_validated_against_impl"] += tot["n"]
    for n, (what, job) in enumerate(both):
        if what.startswith("case:") or what.startswith("design:"):
            continue
        it = byidx[n]
        items.append(it)
        if what == "tour":
            metas.append({"driver": "tour", "kind": "ff", "job": list(job[:4]) + [[list(x) for x in job[4]]]})
            ctx.case(("tour", job), nontrivial=len(job[4]) > 2)
        elif what == "random":
            metas.append({"driver": "random", "kind": job[1], "n": job[3], "seed": job[4]})
            ctx.case(("rand", render(job[0]), job[1], job[2]), nontrivial=bool(it["steps"]) and sum(_leaf_widths(job[0])) > 0)
        else:
            metas.append({"driver": "netlist", "kind": job[2]})
            ctx.case(("net", render(job[0]), job[1], job[2], job[3]), nontrivial=len(it["cells"]) > 1)
    t1 = time.time()

    # ---------------- binding demonstration: corrupted recordings must be rejected (same TLC run) -----------------
    demo_job = ((True, False), "io", "io", 2, [(True, True, o, oe, pin) for o, oe, pin in
                                                 [(1, True, 2), (2, True, 1), (3, False, 1), (0, False, 2), (1, True, 0), (2, False, 3), (0, True, 0)]])
    items.append(_tour_job(demo_job))
    metas.append({"driver": "tour", "kind": "ff", "job": list(demo_job[:4]) + [[list(x) for x in demo_job[4]]]})
    gi = len(items) - 1
    ni = next((n for n, (it, me) in enumerate(zip(items, metas)) if it["k"] == "net" and it["cls"] == "diff" and it["bdir"] == "io"
               and me["kind"] == "comb" and len(it["top_o"]) >= 2), None)
    if ni is None:
        raise MachineryError("no suitable netlist for the binding demonstration")
    good, ngood = items[gi], items[ni]
    bad1 = json.loads(json.dumps(good))
    for x in bad1["steps"]:
        x[7] ^= 1                                               # one wrong bit on i
    bad2 = json.loads(json.dumps(good))
    for x in bad2["steps"]:
        x[6] = [v ^ 1 if v >= 0 else v for v in x[6]]           # an enable bit that does not follow oe
    bad3 = json.loads(json.dumps(ngood))
    iob = next(c for c in bad3["cells"] if c["k"] == "iob")
    iob["port"][0], iob["port"][1] = iob["port"][1], iob["port"][0]      # two pads swapped under the same mask
    bad4 = json.loads(json.dumps(ngood))
    bad4["cells"].append(dict(iob))                              # a second buffer cell on the same pads
    bad5 = dict(json.loads(json.dumps(good)), raised="ValueError", steps=[])
    dgood = next((it for it in items if it["k"] == "design" and len(it["bufs"]) >= 2), None)
    if dgood is None:
        raise MachineryError("no built design for the binding demonstration")
    bad6 = dict(json.loads(json.dumps(dgood)), raised="DriverConflict")          # a refusal where nothing is used twice
    bad7 = json.loads(json.dumps(dgood))
    bad7["bufs"][1]["segs"] = bad7["bufs"][0]["segs"]                             # a double use that was built
    demos = [bad1, bad2, bad3, bad4, bad5, bad6, bad7]
    verdicts = judge(ctx, items, metas, "impl", demos)
    ctx.cov["traces_validated_against_impl"] -= len(demos)
    vs = verdicts[len(items):]
    if verdicts[gi][0] == "ACC" and verdicts[ni][0] == "ACC" and any(v[0] != "REJ" for v in vs):
        raise MachineryError("binding demo: corrupted items were accepted: %r" % (vs,))
    ctx.cov["stages"]["impl/validate"].update({
        "record_wall_s": round(t1 - t0, 1), "validate_wall_s": round(time.time() - t1, 1),
        "tour_traces": len(tour_jobs), "random_traces": len(rjobs),
        "random_traces_simulated": sum(1 for it in items if it["k"] == "sim" and it["steps"]) - len(tour_jobs),
        "netlists": sum(1 for it in items if it["k"] == "net" and it["cells"]),
        "refused_constructions": sum(1 for it in items if it["raised"]),
        "binding_demo_corrupted_rejected": [list(map(str, v)) for v in vs]})
    ctx.sample({"program": render(good["prog"]), "buffer": "ff/io",
                "first_steps <<ei,eo,o,oe,leaf.i,leaf.o,leaf.oe,i>>": good["steps"][:5]})
    ctx.sample({"program": render(ngood["prog"]), "port class": "diff", "buffer": "comb/io",
                "netlist cells (kind, op/dir, pads)": [(c["k"], c["op"] or c["dir"], c["port"]) for c in ngood["cells"]]})

    ctx.cov["exhaustive"] = False
    ctx.cov["rule"] = ("case = one finished port-building program (leaves of the stated widths with every mask and direction; "
                       "[lo:hi] / [i] / ~ / + to depth 2), all enumerated by TLC; for every one of them len / direction / invert "
                       "are compared; constructors of all six buffers and the pysim run of every accepted buffer are done for "
                       "the sub-sample stated per stage (replay/*: programs_with_constructors_tried, programs_simulated); plus "
                       "one FFBuffer execution per tour walk (every edge of the IoBufFF graph), one seeded random execution per "
                       "(generated program, buffer kind, direction) and one netlist per (generated program, port class, buffer "
                       "kind, direction); non-trivial = distinct program / execution of a port of non-zero width / netlist "
                       "with at least one cell")
    ctx.assume("builder bounds: %s; every leaf is used once; slices 0 <= lo <= hi <= len only (the language refuses lo > hi)"
               % "; ".join("%s: leaf widths {%s}, depth <= 2, sums of operands whose depths add up to <= %d" % (n, i["leafw"], i["k"])
                           for n, i, _, _ in builders))
    ctx.assume("simulated stimulus = %d steps chosen from the seed, checked complete per wire by TLC (ASSUME StimComplete): all "
               "eight (o, oe, port input) combinations on every wire, any two wires told apart, all four edge combinations" % len(stims))
    ctx.assume("power-on contents of FFBuffer registers are not compared (observations start after the first edge of the domain)")
    ctx.assume("netlists: FFBuffer registers are treated as transparent; only XOR/NOT/register/IOBuffer cells are understood "
               "(anything else is rejected as not being o XOR mask); the complement half of a DifferentialPort must be "
               "driven with the complement by output buffers and left undriven by input buffers")
    ctx.assume("DDRBuffer is platform-dependent and out of scope; leaf bits that are not part of the port are unconstrained; an "
               "input buffer on a bidirectional simulation port leaves port.o / port.oe unconstrained")


def replay(ctx, rep):
    m = rep["replay"]
    if m.get("mode") == "item":
        it = m["item"]
        me = m["meta"]
        if it["k"] == "design":
            new = build_design(it)
        elif it["k"] == "net":
            new = export_netlist(it["prog"], it["cls"], me["kind"], it["bdir"])
        elif me.get("driver") == "random":
            new = _random_job((it["prog"], me["kind"], it["bdir"], me["n"], me["seed"]))
        elif me.get("driver") == "tour":
            j = me["job"]
            new = _tour_job((j[0], j[1], j[2], j[3], j[4]))
        else:
            new = it
        vs = tracecheck.validate(ctx, "IoBufTrace", [new], "replay", cfg=CFG_TRACE)
        print("replay verdict:", vs[0])
        if vs[0][0] == "REJ":
            print("VIOLATION property=C18 replay=(same)")
            return 1
        return 0
    if m.get("mode") == "design":
        it = build_design(m["design"], m["back"])
        print("design:", m["text"], "(%s)" % m["back"])
        print("amaranth:", it["raised"] or "built", it.get("message", ""), " IoUse:", m["expected"])
        if (it["raised"] or "built") != m["expected"]:
            print("VIOLATION property=C18 replay=(same)")
            return 1
        return 0
    prog = m["prog"]
    stack, leaves, err = build_port(prog)
    print("program:", render(prog))
    if m["mode"] == "algebra":
        if m.get("cls"):
            stack, leaves, err = build_port(prog, se_leaf if m["cls"] == "SingleEndedPort" else diff_leaf)
        got = err or (len(stack[0]), stack[0].direction.value, list(stack[0].invert))
        print("amaranth:", got, " IoBuf:", m["expected"])
        bad = (list(got) if not isinstance(got, str) else got) != m["expected"] and got != m["expected"]
    elif m["mode"] == "accept":
        _, raised = make_buffer(m["kind"], m["bdir"], stack[0])
        print("amaranth:", raised or "accepted", " IoBuf:", m["expected"])
        bad = (raised or "accepted") != m["expected"]
    else:
        buf, raised = make_buffer(m["kind"], m["bdir"], stack[0])
        bench = _Bench()
        bench.add("replay", buf, m["bdir"], leaves, [tuple(x) for x in m["src"]], [tuple(x) for x in m["obs"]])
        res = bench.run(m["stims"])
        print("amaranth vs IoBuf (tag, step, signal, expected, actual):", res or "all steps agree")
        bad = bool(res)
    if bad:
        print("VIOLATION property=C18 replay=(same)")
        return 1
    return 0
