"""C02 — assignments and control flow: last active assignment wins, per bit.

spec:   AmLhs (assignment targets), AmStmt (Module DSL builder machine), MC_AmStmt (vocabulary + instances).
stages: ctrl   all nestings of If/Elif/Else/Switch/Case/Default up to the length bound over a small assignment
               vocabulary (comb and sync), exhaustive
        lhs    every assignable target form x right-hand sides, alone, in pairs (last wins on overlapping bits) and
               under an If, comb and sync
        fsm    FSM/State/next programs (init state, reset, ongoing, transitions)
        mixed  random long programs over the full vocabulary (TLC -simulate)
        mutant a Case that ignores earlier matches must violate AtMostOneSelected
Every *closed* program (all constructs ended) is replayed through the real DSL in pysim for every valuation of
inputs x previous register contents x previous FSM state and compared with TLC's meaning tables."""
import glob
import os

from ..common import pmap, MachineryError
from .. import expr_replay, stmt_replay, tlaval

LEVEL = "model_checking"

CFG = """SPECIFICATION Spec
CONSTANTS
 Sigs <- MSigs
 SigSh <- MSigSh
 SigInit <- MSigInit
 Exprs <- MExprs
 ESh <- MESh
 EVal <- MEVal
 NV = {nv}
 PrevOf <- MPrevOf
 FsmPrev <- MFsmPrev
 RegOf <- MRegOf
 NFsm = {nfsm}
 Conds <- {conds}
 Tests <- {tests}
 Rhs <- {rhs}
 PatSets <- MPatSets
 Targets <- {targets}
 States <- {states}
 Inits <- {inits}
 MaxLen = {maxlen}
 MaxDepth = {maxdepth}
 MaxAssign = {maxassign}
 Mutant = "{mutant}"
INVARIANT AtMostOneSelected
INVARIANT FrameCondition
INVARIANT ValuesInRange
CHECK_DEADLOCK FALSE
"""


def instances(th):
    ctrl = dict(nfsm=1, nv=48, conds="CondsSmall", tests="TestsSmall", rhs="RhsOne" if not th else "RhsSmall", targets="TargetsCtrl",
                states="NoStates", inits="NoInits", maxlen=6 if th else 5, maxdepth=2, maxassign=2, mutant="")
    lhs = dict(nfsm=1, nv=48, conds="CondsOne", tests="NoTests", rhs="RhsLhs" if not th else "RhsRich", targets="TargetsRich",
               states="NoStates", inits="NoInits", maxlen=3, maxdepth=1, maxassign=2, mutant="")
    fsm = dict(nfsm=1, nv=144, conds="CondsOne", tests="NoTests", rhs="RhsOne", targets="TargetsFsm",
               states="ThreeStates" if th else "TwoStates", inits="SomeInits", maxlen=8 if th else 7, maxdepth=2,
               maxassign=3, mutant="")
    mixed = dict(nfsm=1, nv=144, conds="CondsRich", tests="TestsRich", rhs="RhsRich", targets="TargetsRich",
                 states="ThreeStates", inits="SomeInits", maxlen=14 if th else 11, maxdepth=3, maxassign=5, mutant="")
    # two FSMs, the second possibly nested in a State of the first (m.next must address the innermost one)
    fsm2 = dict(nfsm=2, nv=432, conds="NoConds", tests="NoTests", rhs="RhsOne", targets="TargetsOne",
                states="TwoStates", inits="NoInitArg", maxlen=10 if th else 9, maxdepth=2, maxassign=3, mutant="")
    return ctrl, lhs, fsm, mixed, fsm2


def regoff_instance(th):
    # targets whose run-time offset / index is a register assigned earlier in the same synchronous domain
    return dict(nfsm=1, nv=48, conds="CondsOne", tests="NoTests", rhs="RhsLhs", targets="TargetsReg",
                states="NoStates", inits="NoInits", maxlen=5 if th else 4, maxdepth=1, maxassign=3, mutant="")


def collect(ctx, name, res, nstates=None):
    n = sum(x["n"] for x in res)
    feats = {}
    for x in res:
        for k, v in x["features"].items():
            feats[k] = feats.get(k, 0) + v
        for fp in x["fps"]:
            ctx.case(fp)
        if x["sample"]:
            ctx.sample({"stage": name, **x["sample"]})
    ctx.cov["stages"]["replay/" + name] = {"closed_programs_replayed": n, "dsl_calls": feats}
    if n == 0:
        raise MachineryError("stage %s replayed no program" % name)
    ctx.cov["traces_validated_against_impl"] += n
    for x in res:
        for mm in x["mism"]:
            key = {"side": mm["side"], "prog": mm["prog"]}
            if "error" in mm:
                key["error"] = mm["error"]
            ctx.violation(key, "%s: program `%s`: %s" % (mm["side"], mm["prog"], {k: v for k, v in mm.items() if k not in ("prog", "side")}),
                          replay={"stage": name, "mismatch": mm})


def run_dump_stage(ctx, name, inst):
    dump = os.path.join(ctx.tmp, "dump_" + name)
    r = ctx.tlc("MC_AmStmt", stage="mc/" + name, cfg_text=CFG.format(**inst), workers=16, args=("-dump", dump), timeout=3000)
    path = dump + ".dump"
    jobs = [(path, lo, hi, inst["nv"], 40) for lo, hi in expr_replay.split_dump(path, 64)]
    res = pmap(stmt_replay.replay_dump_range, jobs)
    os.unlink(path)
    collect(ctx, name, res)


def sim_worker(job):
    files, nv = job
    out = {"n": 0, "mism": [], "fps": [], "sample": None, "features": {}}
    cases = []
    seen = set()
    for f in files:
        for act, st in tlaval.parse_sim_file(f):
            if st["frames"] != () or not st["prog"]:
                continue
            r = stmt_replay.render(st["prog"])
            if r in seen:
                continue
            seen.add(r)
            out["n"] += 1
            out["fps"].append(hash(r))
            for rec in st["prog"]:
                out["features"][rec["op"]] = out["features"].get(rec["op"], 0) + 1
            if out["sample"] is None and len(st["prog"]) >= 7:
                out["sample"] = {"program": r, "dom": list(st["dom"])}
            cases.append(st)
    for i in range(0, len(cases), 40):
        out["mism"].extend(stmt_replay.replay_batch(cases[i:i + 40], nv))
    out["mism"] = out["mism"][:200]
    return out


def run_sim_stage(ctx, name, inst, num):
    d = os.path.join(ctx.tmp, "sim_" + name)
    os.makedirs(d, exist_ok=True)
    workers = 8
    ctx.tlc("MC_AmStmt", stage="sim/" + name, cfg_text=CFG.format(**inst), workers=workers, count=False,
            args=("-simulate", "file=%s/tr,num=%d" % (d, max(1, num // workers)), "-depth", str(inst["maxlen"] + 1),
                  "-seed", str(ctx.seed + 7)), timeout=3000)
    files = sorted(glob.glob(os.path.join(d, "tr*")))
    if not files:
        raise MachineryError("simulate produced no behaviours")
    ctx.cov["stages"]["sim/" + name]["behaviours"] = len(files)
    res = pmap(sim_worker, [(files[i::32], inst["nv"]) for i in range(32) if files[i::32]])
    collect(ctx, name, res)


def run(ctx):
    th = ctx.thorough
    ctrl, lhs, fsm, mixed, fsm2 = instances(th)
    run_dump_stage(ctx, "fsm2", fsm2)
    run_dump_stage(ctx, "ctrl", ctrl)
    run_dump_stage(ctx, "lhs", lhs)
    run_dump_stage(ctx, "fsm", fsm)
    if not th:
        # one statement longer, two assignments / transitions at most (e.g. `If(c): next = X` followed by `next = Y`)
        run_dump_stage(ctx, "fsm-long", dict(fsm, maxlen=8, maxassign=2, inits="NoInitArg"))
    run_dump_stage(ctx, "regoff", regoff_instance(th))
    run_sim_stage(ctx, "mixed", mixed, 20000 if th else 2500)
    mut = dict(ctrl, maxlen=4, mutant="last_match", nv=16)
    ctx.tlc("MC_AmStmt", stage="mc/mutant-lastmatch", cfg_text=CFG.format(**mut), workers=4, expect_violation="AtMostOneSelected")
    ctx.cov["exhaustive"] = False
    ctx.cov["rule"] = ("case = one closed Module program (DSL call sequence) with TLC's meaning tables; replayed for every "
                       "valuation of inputs (a: u2, b: s2) x 3 previous register patterns x previous FSM state; distinct = "
                       "distinct rendered programs")
    ctx.assume("one driving domain per signal inside a program; FSM only at the top level of the module; array indices in range")
    ctx.assume("registers are loaded with previous values through ctx.set before each edge (state restore)")


def replay(ctx, rep):
    print("replay: programs are regenerated deterministically by TLC; mismatch was:\n%s" % rep["replay"]["mismatch"])
    return 0
