"""C17 — clock-domain-crossing primitives meet their latency and pulse contracts.

spec:   Cdc       Part 1: the contracts of FFSynchronizer / AsyncFFSynchronizer+ResetSynchronizer /
                  PulseSynchronizer as pure operators over events; Part 2: implementation-structured models
                  (flop chains; toggle + chain + edge detector) run against the contracts for every interleaving
                  of {input-clock edge, output-clock edge, both, input change, async assert/release, reset}.
        CdcTrace  deterministic monitors built from Cdc's operators; judge executions of the real classes.
stages: mc        TLC: models => contracts (full histories/counters to depth 10/14, and the complete finite graphs),
                  the pulse-spacing assumption as an enabling condition; 4 (thorough: 8) mutants that must violate
        tours     every edge of the small model graphs replayed on the real primitives in pysim (spec -> code)
        random    seeded random schedules on larger parameters (code -> spec)
        binding   corrupted recorded traces must be rejected
Verdicts come from CdcTrace (Cdc Part 1) only."""
import os
import random
import re
from concurrent.futures import ThreadPoolExecutor

from ..common import pmap, MachineryError
from .. import tours, tracecheck

LEVEL = "model_checking"

CFG = """SPECIFICATION Spec
CONSTANTS Prims = {prims}
 StagesSet = {stages}
 Widths = {widths}
 Inits = {inits}
 ResetLessSet = {rls}
 Edges = {edges}
 Spacings = {spacings}
 MaxDepth = {depth}
 MaxDepth2 = {depth2}
 Mutant = "{mutant}"
CONSTRAINT Constr
"""
INV = {
    "ff": ["FFLatency", "FFStatement", "FFWindow"],
    "async": ["AsyncContract", "AsyncCounts"],
    "pulse": ["PulseContract", "PulseConservation", "PulseInflight", "PulseQuiescent", "PulseOutputSeen"],
}
PROPS = {"ff": ["UnrelatedInvisible"], "async": ["AsyncImmediate", "AsyncNoSpontaneous", "UnrelatedInvisible"],
         "pulse": ["UnrelatedInvisible"]}
CONTRACT = {"ff": "FFLatency", "async": "AsyncContract", "pulse": "PulseContract"}
ACTIONS = {"ff": ["OEdge", "SetInput", "SetReset", "Unrelated"],
           "async": ["OEdge", "AsyncAssert", "AsyncRelease", "Unrelated"],
           "pulse": ["IEdge", "OEdge", "BothEdges", "SetInput", "Unrelated"]}

# the design family around the primitive (see cdc_drive): domain names other than the defaults, the defaults
# themselves ("sync": parameter omitted), an unrelated active "sync" domain next to them, the input as an expression
ENVS = {
    "ff": [{}, dict(o_name="fast", sync=True), dict(o_name="sync", expr="not"), dict(o_name="sec", sync=True, expr="bit"),
           dict(o_name="sync", expr="bit"), dict(o_name="o", sync=True, expr="not"), dict(o_name="sync"),
           dict(expr="sgn"), dict(o_name="sec", sync=True, expr="as_s"), dict(o_name="sync", expr="sgn")],
    "async": [{}, dict(o_name="sec", sync=True, expr="rst"), dict(o_name="sec", sync=True, expr="rst_or"),
              dict(o_name="sync", expr="not"), dict(o_name="fast", sync=True, expr="bit"), dict(o_name="sec", sync=True),
              dict(o_name="sync"), dict(o_name="o", sync=True, expr="not"), dict(o_name="sync", expr="bit"),
              # attributes of the user's output signal (reset-less, an initial value) are the user's business: the contract is the same
              dict(o_rl=True), dict(o_name="sec", sync=True, o_rl=True, expr="not")],
    "pulse": [{}, dict(i_name="slow", o_name="fast", sync=True), dict(i_name="sync", o_name="fast"),
              dict(i_name="slow", o_name="sync"), dict(i_name="i", o_name="o", sync=True)],
}
ENVS["reset"] = [e for e in ENVS["async"] if "o_rl" not in e]      # (ResetSynchronizer has no output signal of the user's)


def _envs(prim, i0):
    return [e for e in ENVS[prim] if not (e.get("expr") == "rst" and i0)]

TRACE_CFG = """SPECIFICATION Spec
CHECK_DEADLOCK FALSE
INVARIANT Conserved
"""


def _set(xs):
    def one(x):
        if isinstance(x, bool):
            return "TRUE" if x else "FALSE"
        return '"%s"' % x if isinstance(x, str) else str(x)
    return "{%s}" % ", ".join(one(x) for x in xs)


def cfg(prims, stages, widths=(1,), inits=None, rls=(True,), edges=("pos",), spacings=("strict",), depth=0, depth2=0,
        mutant="", only_contract=False):
    if inits is None:
        inits = range(1 << max(widths))
    text = CFG.format(prims=_set(prims), stages=_set(stages), widths=_set(widths), inits=_set(inits), rls=_set(rls),
                      edges=_set(edges), spacings=_set(spacings), depth=depth, depth2=depth2, mutant=mutant)
    if only_contract:
        return text + "".join("INVARIANT %s\n" % CONTRACT[p] for p in prims)
    return text + "".join("INVARIANT %s\n" % i for p in prims for i in INV[p]) + \
        "".join("PROPERTY %s\n" % q for p in prims for q in PROPS[p])


# ---------------------------------------------------------------------------------------------------
def _run_job(job):
    from .. import cdc_drive
    spec, events = job
    o0, steps = cdc_drive.run(spec, events)
    return cdc_drive.trace_of(spec, o0, steps)


def _gen(spec, n, seed):
    from .. import cdc_drive
    rng = random.Random(seed)
    if spec["prim"] == "ff":
        return cdc_drive.gen_ff(rng, n, spec["width"])
    if spec["prim"] == "pulse":
        return cdc_drive.gen_pulse(rng, n, spec["stages"])
    return cdc_drive.gen_async(rng, n)


def _random_job(job):
    spec, n, seed = job
    return _run_job((spec, _gen(spec, n, seed)))


def _walk_events(walk, inp0):
    """labels of Cdc's named actions -> driver events (ie, oe, v, r, via)"""
    cur, rst = inp0, 0
    evs = []
    for k, (lab, _) in enumerate(walk):
        name, args = tours.parse_action(lab)
        via = k & 1
        if name == "IEdge":
            cur = int(args[0]); evs.append((1, 0, cur, rst, 1))
        elif name == "OEdge":
            cur = int(args[0]); evs.append((0, 1, cur, rst, 1))
        elif name == "BothEdges":
            cur = int(args[0]); evs.append((1, 1, cur, rst, 1))
        elif name == "SetInput":
            cur = int(args[0]); evs.append((0, 0, cur, rst, via))
        elif name in ("AsyncAssert", "AsyncRelease"):
            cur = 1 - cur; evs.append((0, 0, cur, rst, via))
        elif name == "SetReset":
            rst = int(args[0]); evs.append((0, 0, cur, rst, 1))
        elif name == "Unrelated":
            evs.append((0, 0, cur, rst, 1))
        else:
            raise MachineryError("unknown action label %r" % lab)
    return evs


def _nontrivial(t):
    steps = t["steps"]
    outs = [t["o0"]] + [s[4] for s in steps]
    changes = sum(1 for a, b in zip(outs, outs[1:]) if a != b)
    return changes >= 3


_NODE = re.compile(r'^(-?\d+) \[label="((?:[^"\\]|\\.)*)"')
_EDGE = re.compile(r'^(-?\d+) -> (-?\d+) \[label="((?:[^"\\]|\\.)*)"')


def _load_dot(path):
    """tours.load_dot with a label pattern that survives string values inside records (\"pos\", ...)"""
    g = tours.Graph()
    with open(path) as f:
        for line in f:
            m = _EDGE.match(line)
            if m:
                g.out.setdefault(int(m.group(1)), []).append((m.group(3), int(m.group(2))))
                continue
            m = _NODE.match(line)
            if m:
                nid = int(m.group(1))
                g._raw[nid] = m.group(2)
                g.out.setdefault(nid, [])
                if "style = filled" in line:
                    g.init.append(nid)
    return g


def _spec_of(cf):
    """Cdc configuration record (from a state of the model) -> driver specs of the real classes to replay on"""
    prim, s = str(cf["prim"]), int(cf["stages"])
    if prim == "ff":
        return [dict(prim="ff", stages=s, width=int(cf["width"]), init=int(cf["init"]), reset_less=bool(cf["reset_less"]))]
    if prim == "async":
        e = str(cf["edge"])
        return [dict(prim="async", stages=s, edge=e)] + ([dict(prim="reset", stages=s)] if e == "pos" else [])
    return [dict(prim="pulse", stages=s)]


def run(ctx):
    th = ctx.thorough
    D1 = 14 if th else 10
    D2 = 8 if th else 5
    S = [2, 3, 4]
    both = (True, False)

    # ---------------- random schedules on larger parameters (recorded first: fork pool before threads) -----
    n_ev, reps = (1000, 6) if th else (300, 1)
    rjobs = []
    nenv = {"ff": 0, "pulse": 0}

    def add(spec, cycle=None):
        if cycle is not None:
            es = _envs(cycle, spec.get("i0", 0))
            spec.update(es[nenv[cycle] % len(es)])
            nenv[cycle] += 1
        spec["nseed"] = ctx.rng.getrandbits(32)
        rjobs.append((spec, n_ev, ctx.rng.getrandbits(48)))
    for rep in range(reps):
        for s in (2, 3, 4, 5):
            for w in (1, 2, 5):
                mask = (1 << w) - 1
                for init in sorted({0, mask, ctx.rng.getrandbits(w) | 1}):
                    for rl in both:
                        add(dict(prim="ff", stages=s, width=w, init=init, reset_less=rl, i0=ctx.rng.getrandbits(w)), "ff")
            for e in ("pos", "neg"):
                for prim in (("async", "reset") if e == "pos" else ("async",)):
                    for env in ENVS[prim]:
                        i0 = 0 if env.get("expr") == "rst" else ctx.rng.getrandbits(1)
                        add(dict(prim=prim, stages=s, edge=e, i0=i0, **env))
            for k in range(7):
                add(dict(prim="pulse", stages=s, i0=0), "pulse")
    # FFSynchronizer defaults (init / reset_less / o_domain not given)
    add(dict(prim="ff", stages=2, width=3, i0=5, o_name="sync"))
    rtraces = pmap(_random_job, rjobs, chunksize=2)
    rmeta = [{"spec": spec, "driver": "random", "seed": seed, "n": n} for spec, n, seed in rjobs]

    # ---------------- mc: the models meet the contracts for every interleaving; tour graphs ---------------
    jobs = [   # (stage, cfg, expected violation, prims, dump)
        ("mc/ff-hist-d%d-d%d" % (D1, D2), cfg(["ff"], S, (1, 2), rls=both if th else (False,), depth=D1, depth2=D2), None, ["ff"], None),
        ("mc/ff-graph", cfg(["ff"], S, (1, 2), rls=both), None, ["ff"], None),
        ("mc/pulse-hist-d%d" % D1, cfg(["pulse"], S, spacings=("strict", "weak"), depth=D1), None, ["pulse"], None),
        ("mc/async-pulse-graph", cfg(["async", "pulse"], S, edges=("pos", "neg"), spacings=("strict", "weak")), None,
         ["async", "pulse"], None),
    ]
    muts = [("ff", "short_chain", {}), ("ff", "bad_init_last", {}),
            ("async", "short_chain", {}), ("async", "edge_inverted", {"edges": ("neg",)}), ("async", "sync_assert", {}),
            ("pulse", "no_xor", {}), ("pulse", "short_chain", {}), ("pulse", "", {"spacings": ("none",)})]
    if not th:      # quick: one seeded error per primitive + the necessity of the spacing assumption
        muts = [x for x in muts if (x[0], x[1]) in (("ff", "short_chain"), ("async", "edge_inverted"), ("pulse", "no_xor"),
                                                    ("pulse", ""))]
    for prim, mu, kw in muts:
        jobs.append(("mc/mutant-%s-%s" % (prim, mu or "no-spacing-assumption"),
                     cfg([prim], [3], mutant=mu, only_contract=True, **kw), CONTRACT[prim], [prim], None))
    St = [2, 3, 4] if th else [2, 3]
    jobs.append(("tours/graph-small", cfg(["ff", "async", "pulse"], St, (1,), rls=both, edges=("pos", "neg")), None, None,
                 os.path.join(ctx.tmp, "g_small")))
    jobs.append(("tours/graph-ff-w2", cfg(["ff"], [2, 3] if th else [2], (2,), inits=None if th else [2], rls=(False,)), None, None,
                 os.path.join(ctx.tmp, "g_w2")))

    def one(j):
        stage, text, expect, prims, dump = j
        if dump:
            return ctx.tlc("Cdc", stage=stage, cfg_text=text, workers=2, count=False, args=("-dump", "dot,actionlabels", dump))
        return ctx.tlc("Cdc", stage=stage, cfg_text=text, workers=6 if "ff-" in stage and expect is None else 1,
                       expect_violation=expect, count=expect is None, args=("-coverage", "1") if expect is None else ())
    with ThreadPoolExecutor(len(jobs)) as ex:
        results = list(ex.map(one, jobs))
    for j, r in zip(jobs, results):
        if j[2] is None and j[3]:
            ctx.require_actions(r, [a for p in j[3] for a in ACTIONS[p]], j[0])

    # ---------------- tours: every edge of the model graphs on the real primitives -----------------
    djobs, tmeta = [], []
    n_env = 0
    for j in jobs:
        if not j[4]:
            continue
        g = _load_dot(j[4] + ".dot")
        os.unlink(j[4] + ".dot")
        walks = tours.covering_walks(g, max_len=300)
        ctx.cov["stages"][j[0]].update({"graph_nodes": len(g.out), "graph_edges": g.n_edges, "walks": len(walks),
                                        "walk_steps": sum(len(w) for _, w in walks)})
        for init, w in walks:
            st0 = g.state(init)
            for sp in _spec_of(st0["cf"]):
                i0 = int(st0["inp"])
                if sp["prim"] == "pulse" and i0:
                    # PulseSynchronizer.i starts at 0: reach the model's initial state by one input change
                    i0 = 0
                    evs = [(0, 0, 1, 0, 0)] + _walk_events(w, 1)
                else:
                    evs = _walk_events(w, i0)
                es = _envs(sp["prim"], i0)
                if sp["prim"] in ("async", "reset"):
                    use = es                                   # few, short walks: every member of the family
                else:
                    use = [es[n_env % len(es)]]                # many walks: the family in rotation
                    n_env += 1
                for env in use:
                    spec = dict(sp, i0=i0, nseed=len(djobs), **env)
                    djobs.append((spec, evs))
                    tmeta.append({"spec": spec, "driver": "tour", "graph": j[0], "events": evs})
    n_tour = len(djobs)
    if n_tour < 20:
        raise MachineryError("vacuous: only %d tour walks" % n_tour)
    traces = pmap(_run_job, djobs, chunksize=4) + rtraces
    meta = tmeta + rmeta
    for k, (t, mt) in enumerate(zip(traces, meta)):
        ctx.case((mt["driver"], repr(sorted(mt["spec"].items())), mt.get("seed"), k if k < n_tour else None),
                 nontrivial=_nontrivial(t))

    # binding demonstration material: copies of non-trivial random traces with one corruption each
    bad, bad_of = [], []
    for prim in ("ff", "async", "reset", "pulse"):
        gi = next((x for x in range(n_tour, len(traces)) if traces[x]["prim"] == prim and _nontrivial(traces[x])), None)
        if gi is None:
            raise MachineryError("binding demo: no non-trivial random %s trace" % prim)
        good = traces[gi]
        outs = [good["o0"]] + [s[4] for s in good["steps"]]
        chg = [x for x in range(1, len(outs)) if outs[x] != outs[x - 1]]
        k = chg[len(chg) // 2]                                                              # an output change ...
        b = {**good, "steps": [list(s) for s in good["steps"]]}
        b["steps"][k - 1][4] = outs[k - 1]                                                  # ... reported one event late
        bad.append(b)
        bad_of.append(gi)
        if prim == "pulse":
            b2 = {**good, "steps": [list(s) for s in good["steps"]]}
            for k1 in (x for x in chg if outs[x] == 1):
                x = next((x for x in range(k1, len(b2["steps"])) if b2["steps"][x][1] == 1), None)  # the next output-clock edge
                if x is not None and b2["steps"][x][4] == 0:     # (the real output is low again there: the corruption is one)
                    b2["steps"][x][4] = 1                                                   # pulse two cycles wide
                    bad.append(b2)
                    bad_of.append(gi)
                    break

    allv = tracecheck.validate(ctx, "CdcTrace", traces + bad, "real", cfg=TRACE_CFG)
    ctx.cov["traces_validated_against_impl"] -= len(bad)
    verdicts, vs = allv[:len(traces)], allv[len(traces):]
    n_pulses = 0
    for v, mt, t in zip(verdicts, meta, traces):
        if t["prim"] == "pulse":
            n_pulses += sum(1 for a, b in zip([[0, 0, t["i0"]]] + t["steps"], t["steps"]) if b[0] == 1 and a[2] == 1)
        if v[0] == "REJ":
            step, clause = v[1], v[2]
            sp = mt["spec"]
            if str(clause).startswith("ASSUMPTION"):
                raise MachineryError("generator left the domain of the property: %s at step %d of %r" % (clause, step, mt))
            key = {"prim": sp["prim"], "stages": sp["stages"], "clause": clause, "input": sp.get("expr", "sig"),
                   "o_domain": sp.get("o_name", "o"), "unrelated_sync": bool(sp.get("sync"))}
            if sp["prim"] == "ff":
                key.update(width=sp.get("width", 1), reset_less=bool(sp.get("reset_less", True)))
            if sp["prim"] == "async":
                key["edge"] = sp.get("edge", "pos")
            lo = max(0, step - 6)
            ctx.violation(key, "%s %r: clause %s broken at event %d (driver %s); i0=%r o0=%r; events %d..%d "
                          "[ie,oe,input,rst,output]: %r" % (
                              sp["prim"], {k: x for k, x in sp.items() if k != "prim"}, clause, step, mt["driver"],
                              t["i0"], t["o0"], lo + 1, step, t["steps"][lo:step]),
                          replay={"meta": mt if mt["driver"] == "random" else dict(mt, events=[list(e) for e in mt["events"]]),
                                  "step": step, "clause": clause})
    ctx.cov["input_pulses_driven"] = n_pulses
    if n_pulses < 50:
        raise MachineryError("vacuous: only %d input pulses were driven into PulseSynchronizer" % n_pulses)
    ctx.sample({"meta": {k: v for k, v in meta[0].items() if k != "events"}, "first_steps": traces[0]["steps"][:8],
                "step_format": "ie,oe,input_after,rst_after,output_after"})
    ctx.sample({"meta": meta[-1], "o0": traces[-1]["o0"], "first_steps": traces[-1]["steps"][:8]})

    # ---------------- binding demonstration: corrupted traces must be rejected ---------------------
    for v, gi in zip(vs, bad_of):
        if verdicts[gi][0] == "ACC" and v[0] != "REJ":
            raise MachineryError("binding demo: a corrupted trace was accepted: %r" % (vs,))
    ctx.cov["stages"]["real/validate"]["corrupted_rejected"] = [list(map(str, v)) for v in vs]

    ctx.cov["exhaustive"] = False
    ctx.cov["rule"] = ("cases = executions of the real primitives in pysim (tour walks covering every edge of the Cdc "
                       "model graphs, plus seeded random schedules of %d events); non-trivial = the observed output "
                       "changes at least 3 times" % n_ev)
    ctx.assume("events are applied with one ctx.set each; an input change coincident with a clock edge is produced by a "
               "harness source register clocked in the same event (a testbench-driven signal changed in the same "
               "ctx.set as the clock that samples it is a pysim testbench race: seen with its NEW value; not generated)")
    ctx.assume("the output domain's reset changes only in events without an output-clock edge")
    ctx.assume("design family: output/input domains named o/i, fast/slow, sec, or the default sync; with or without an "
               "unrelated active sync domain (own clock, reset, counter); input = Signal, ~x, slice of a wider signal, "
               "ResetSignal('sync'), ResetSignal('sync') | req (the last two for AsyncFFSynchronizer/ResetSynchronizer); "
               "the trace records the value of the input expression")
    ctx.assume("PulseSynchronizer: an input pulse = an input-clock edge with the input high before the event; consecutive "
               "input pulses are separated by an output-clock edge in an event strictly between them (re-checked by "
               "CdcTrace); an answer must come at the stages-th or (stages+1)-th output-clock edge after the pulse")
    ctx.assume("power-on output of AsyncFFSynchronizer/ResetSynchronizer with the input released is not documented: "
               "the monitor adopts the observed one (asserted-as-if-just-released, or released)")
    ctx.assume("TLC model checking: stages 2..4, widths 1..2, all init values; full histories to depth %d (width 2: %d)" % (D1, D2))


def replay(ctx, rep):
    r = rep["replay"]
    mt = r["meta"]
    spec = mt["spec"]
    if mt["driver"] == "random":
        t = _random_job((spec, mt["n"], mt["seed"]))
    else:
        t = _run_job((spec, [tuple(e) for e in mt["events"]]))
    vs = tracecheck.validate(ctx, "CdcTrace", [t], "replay", cfg=TRACE_CFG)
    print("replay verdict:", vs[0])
    if vs[0][0] == "REJ":
        step = vs[0][1]
        print("events %d..%d [ie,oe,input,rst,output]: %r" % (max(0, step - 6) + 1, step, t["steps"][max(0, step - 6):step]))
        print("VIOLATION property=C17 replay=(same)")
        return 1
    return 0
