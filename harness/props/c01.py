"""C01 — operators compute exact integer results in shapes that never overflow.

spec:   AmBits, AmShape, AmExpr (typed stack machine; one action per documented operator), MC_AmExpr (instances).
stages: single   every single operator x every pair of leaf shapes (widths 0..3 quick / 0..4 thorough, signed and
                 unsigned, constants, zero width) x ALL operand values: TLC enumerates, checks NoOverflow etc.,
                 dumps; every state is replayed on the real amaranth (shape + circuit value for every valuation)
        ternary  Mux / Array indexing / 3-operand Cat over three independent leaves
        compose  random compositions (TLC -simulate) of depth up to 6 (quick) / 9 (thorough), every prefix checked
        mutant   a result-shape rule without the carry bit must violate NoOverflow (non-vacuity)
This module also serves C05's read side (ctx.get(expr)); each check reports its own side only."""
import glob
import os

from ..common import pmap, MachineryError
from .. import expr_replay, tlaval

LEVEL = "model_checking"
SIDES = ("build", "shape", "circuit")

CFG = """SPECIFICATION Spec
CONSTANTS NSig = {nsig}
 LeafBits = {leafbits}
 LeafShapes <- {leafshapes}
 Consts <- {consts}
 Ops <- {ops}
 ShAmts <- {amts}
 Idxs <- {idxs}
 Reps = {reps}
 PartWs = {partws}
 PatSets <- {pats}
 MaxLen = {maxlen}
 MaxStack = {maxstack}
 MaxW = {maxw}
 Mode = "{mode}"
{override}
INVARIANT NoOverflow
INVARIANT WellFormedShapes
INVARIANT SeqOpsUnsigned
INVARIANT CmpIsBit
CHECK_DEADLOCK FALSE
"""


def instances(th):
    single = dict(nsig=2, leafbits=4 if th else 3, leafshapes="LS4" if th else "LS3", consts="CS", ops="AllOps",
                  amts="Amts", idxs="Ix", reps="{0,1,2,3}", partws="{0,1,2,4}", pats="PS", maxlen=3, maxstack=3,
                  maxw=24, mode="single", override="")
    tern = dict(nsig=3, leafbits=3 if th else 2, leafshapes="LS3" if th else "LS2", consts="CS2", ops="TernOps",
                amts="Amts2", idxs="Ix2", reps="{2}", partws="{2}", pats="PS2", maxlen=5, maxstack=4,
                maxw=24, mode="single", override="")
    comp = dict(nsig=2, leafbits=3, leafshapes="LSc", consts="CS2", ops="AllOps",
                amts="Amts2", idxs="Ix2", reps="{0,2}", partws="{1,2}", pats="PS2", maxlen=9 if th else 6, maxstack=3,
                maxw=14, mode="free", override="")
    return single, tern, comp


def wide_instance(th):
    return dict(nsig=2, leafbits=8, leafshapes="LSw", consts="CS2", ops="AllOps", amts="Amts2", idxs="Ix2", reps="{0,2}",
                partws="{1,2}", pats="PS2", maxlen=8 if th else 6, maxstack=3, maxw=26, mode="free",
                override="CONSTANT Vals <- WideVals")


def run_dump_stage(ctx, name, inst, want_tb, sides, prop):
    dump = os.path.join(ctx.tmp, "dump_" + name)
    r = ctx.tlc("MC_AmExpr", stage="mc/" + name, cfg_text=CFG.format(**inst), workers=16,
                args=("-dump", dump), timeout=3000)
    path = dump + ".dump"
    ranges = expr_replay.split_dump(path, 64)
    jobs = [(path, lo, hi, inst["leafbits"], inst["nsig"], want_tb, 250) for lo, hi in ranges]
    res = pmap(expr_replay.replay_dump_range, jobs)
    os.unlink(path)
    return collect(ctx, name, res, sides, prop, r.distinct)


def collect(ctx, name, res, sides, prop, expect_states=None):
    n = sum(x["n"] for x in res)
    ops = {}
    for x in res:
        for k, v in x["ops"].items():
            ops[k] = ops.get(k, 0) + v
        for fp in x["fps"]:
            ctx.case(fp, nontrivial=True)
        if x["sample"]:
            ctx.sample({"stage": name, **x["sample"]})
    st = ctx.cov["stages"].setdefault("replay/" + name, {})
    st.update({"programs_replayed": n, "by_last_operator": ops})
    if expect_states is not None and n != expect_states - 1:
        raise MachineryError("%s: replayed %d programs but TLC found %d states" % (name, n, expect_states))
    ctx.cov["traces_validated_against_impl"] += n
    for x in res:
        for mm in x["mism"]:
            if mm["side"] not in sides:
                continue
            key = {"side": mm["side"], "last_op": mm["last_op"], "prog": mm["prog"]}
            if "error" in mm:
                key["error"] = mm["error"]
            ctx.violation(key, "%s: program `%s`: %s" % (mm["side"], mm["prog"], {k: v for k, v in mm.items() if k not in ("prog", "side")}),
                          replay={"stage": name, "mismatch": mm})
    return n


def sim_worker(job):
    files, leaf_bits, nsig, want_tb = job
    cases = []
    fps = []
    sample = None
    ops = {}
    for f in files:
        for act, st in tlaval.parse_sim_file(f):
            c = expr_replay.state_to_case(st)
            if c is None:
                continue
            cases.append(c)
            r = expr_replay.render(c[0])
            fps.append(hash(r))
            ops[c[0][-1]["op"]] = ops.get(c[0][-1]["op"], 0) + 1
            if sample is None and len(c[0]) >= 5:
                sample = {"program": r, "shape": "%s(%d)" % ("signed" if c[2] else "unsigned", c[1]),
                          "values_first8": (list(c[3].items()) if isinstance(c[3], dict) else c[3])[:8]}
    mism = []
    for i in range(0, len(cases), 250):
        mism.extend(expr_replay.replay_batch(cases[i:i + 250], leaf_bits, nsig, want_tb))
    return {"n": len(cases), "ops": ops, "mism": mism[:200], "n_mism": len(mism), "fps": fps, "sample": sample}


def run_sim_stage(ctx, name, inst, num, want_tb, sides, prop):
    d = os.path.join(ctx.tmp, "sim_" + name)
    os.makedirs(d, exist_ok=True)
    workers = 8
    r = ctx.tlc("MC_AmExpr", stage="sim/" + name, cfg_text=CFG.format(**inst), workers=workers, count=False,
                args=("-simulate", "file=%s/tr,num=%d" % (d, max(1, num // workers)), "-depth", str(inst["maxlen"] + 1),
                      "-seed", str(ctx.seed + 1)), timeout=3000)
    files = sorted(glob.glob(os.path.join(d, "tr*")))
    if not files:
        raise MachineryError("simulate produced no behaviours")
    ctx.cov["stages"]["sim/" + name]["behaviours"] = len(files)
    res = pmap(sim_worker, [(files[i::32], inst["leafbits"], inst["nsig"], want_tb) for i in range(32) if files[i::32]])
    return collect(ctx, name, res, sides, prop)


def run(ctx, sides=SIDES, want_tb=False, prop="C01"):
    th = ctx.thorough
    single, tern, comp = instances(th)
    run_dump_stage(ctx, "single", single, want_tb, sides, prop)
    run_dump_stage(ctx, "ternary", tern, want_tb, sides, prop)
    # Mux / Array indexing whose selector or branch is the result of one sign reinterpretation, complement or shift
    choice = dict(tern, leafbits=2, leafshapes="LSp", ops="ChoiceOps", maxlen=6, maxstack=3, mode="pair")
    run_dump_stage(ctx, "choice", choice, want_tb, sides, prop)
    if want_tb:
        # (C05 only) Array indexing with an index that equals no position - negative, or beyond the last element -
        # must read as in the circuit: nothing is selected
        oor = dict(tern, nsig=4, leafbits=2, leafshapes="LSp", ops="ChoiceOpsS", maxlen=5, maxstack=4, mode="single")
        run_dump_stage(ctx, "oor-index", oor, want_tb, sides, prop)
    run_sim_stage(ctx, "compose", comp, 60000 if th else 8000, want_tb, sides, prop)
    # wide operands (5..8 bit leaves, results up to 26 bits) on 64 sampled corner valuations
    run_sim_stage(ctx, "wide", wide_instance(th), 30000 if th else 4000, want_tb, sides, prop)
    if th or os.environ.get("VERIF_PAIRS"):
        # all compositions of two operators over small leaves (exhaustive): ~10^5 programs
        pairs = dict(comp, leafbits=2, leafshapes="LSp", maxlen=5, mode="pair", maxw=12)
        run_dump_stage(ctx, "pairs", pairs, want_tb, sides, prop)
    # non-vacuity: a shape rule that forgets the carry bit must break NoOverflow
    mut = dict(single, leafbits=2, leafshapes="LS2", override="CONSTANT ShiftLeftShape <- BadShiftLeftShape")
    ctx.tlc("MC_AmExpr", stage="mc/mutant-noWiden", cfg_text=CFG.format(**mut), workers=4, expect_violation="NoOverflow")
    ctx.cov["exhaustive"] = False
    ctx.cov["rule"] = ("case = one program (postfix operator sequence) with its expected shape and value table over all "
                       "valuations; distinct = distinct rendered programs; all are non-trivial (>= 1 leaf, every prefix is "
                       "its own case). single/ternary stages are exhaustive within the stated shape/value box")
    ctx.assume("widths of intermediate results <= 24 bits (TLC 32-bit integers)")
    ctx.assume("constant-offset bit_select/word_select only where the selected bits lie inside the operand (documented equivalence)")
    ctx.assume("array indices always in range; shift amounts unsigned (the API rejects others)")


def replay(ctx, rep):
    mm = rep["replay"]["mismatch"]
    print("replay: re-run `./check %s` (programs are regenerated deterministically by TLC); mismatch was:\n%s" % (ctx.prop, mm))
    return 0
