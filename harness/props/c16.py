"""C16 — CRC software and hardware agree with the Williams model for all parameters.

spec:   Crc (Williams/Rocksoft model, bit-serial, bit vectors MSB first; Processor machine + codeword theorems;
        generator of expected CRCs), CrcTrace (validation of recorded compute()/residue() results and of
        per-cycle Processor executions).
data:   data/crc_check_values.json — frozen published table (parameters, check, residue per catalogue name).
stages: mc         TLC: Processor machine over all parameter sets of small width; theorems CrcIsFold, OwnCrcMatches,
                   OtherTrailerNoMatch, ...; mutant models must violate a named theorem
        catalogue  TLC computes check/residue of every published entry from Crc.tla (must equal the published value:
                   spec self-check, else machinery failure); the real compute(b"123456789") / residue() must be
                   accepted too (else violation); a mutant model must disagree with the published table
        small      TLC prints the CRC of every word sequence for every small parameter set x data width; compared
                   literally with the real Parameters.compute / residue (spec -> code)
        sw         compute() on random messages: catalogue x data widths, random parameter sets (code -> spec)
        hw         the real Processor in pysim under random start/valid schedules with idle gaps, restarts, own-CRC
                   trailers and corrupted trailers; every cycle judged by CrcTrace (code -> spec)
        binding    corrupted recorded traces must be rejected
Verdicts come from TLC (CrcTrace clauses, or values printed by Crc.tla compared literally)."""
import ast
import itertools
import json
import os
import random
import re
from concurrent.futures import ThreadPoolExecutor

from ..common import pmap, MachineryError, VERIF, REPO, chunks

LEVEL = "model_checking"

DATA = os.path.join(VERIF, "data", "crc_check_values.json")
CHECK_STRING = b"123456789"

CFG_MC = """INIT Init
NEXT Next
CONSTANTS Widths = {widths}
 DataWidths = {dws}
 MaxWords = {maxwords}
 MaxBits = {maxbits}
 Mutant = "{mutant}"
{invs}
CONSTRAINT Constr
CHECK_DEADLOCK FALSE
"""

CFG_GEN = """INIT GenInit
NEXT GenNext
CONSTANTS Widths = {widths}
 DataWidths = {dws}
 MaxWords = {maxwords}
 MaxBits = {maxbits}
 Mutant = ""
CHECK_DEADLOCK FALSE
"""

CFG_TRACE = """INIT TInit
NEXT TNext
CONSTANTS Widths = {{1}}
 DataWidths = {{1}}
 MaxWords = 1
 MaxBits = 1
 Mutant = "{mutant}"
CHECK_DEADLOCK FALSE
"""


# ------------------------------------------------------------------ representation helpers
def bits(n, w):
    """integer -> bit vector, MSB first (the representation of Crc.tla)"""
    return [(n >> (w - 1 - j)) & 1 for j in range(w)]


def unbits(v):
    n = 0
    for b in v:
        n = (n << 1) | b
    return n


def pjson(p):
    w = p["crc_width"]
    return {"w": w, "poly": bits(p["polynomial"], w), "init": bits(p["initial_crc"], w),
            "refin": int(p["reflect_input"]), "refout": int(p["reflect_output"]), "xorout": bits(p["xor_output"], w)}


def load_table():
    with open(DATA) as f:
        tab = json.load(f)
    out = []
    for e in tab["entries"]:
        out.append({"name": e["name"],
                    "params": {"crc_width": e["crc_width"], "polynomial": int(e["polynomial"], 16),
                               "initial_crc": int(e["initial_crc"], 16), "reflect_input": e["reflect_input"],
                               "reflect_output": e["reflect_output"], "xor_output": int(e["xor_output"], 16)},
                    "check": int(e["check"], 16), "residue": int(e["residue"], 16)})
    return out


def make_algo(source):
    """source = ("catalog", NAME) -> the live catalogue object; ("custom", params) -> Algorithm(**params)"""
    from amaranth.lib.crc import Algorithm, catalog
    if source[0] == "catalog":
        return getattr(catalog, source[1])
    return Algorithm(**source[1])


# ------------------------------------------------------------------ drivers of the real code (run in workers)
def _sw_job(job):
    """(source, dw, words) -> value returned by the real compute(); exceptions are reported, not hidden"""
    source, dw, words = job
    try:
        return ("ok", make_algo(source)(dw).compute(words))
    except Exception as e:           # noqa: BLE001
        return ("exc", "%s: %s" % (type(e).__name__, e))


def _residue_job(source):
    try:
        return ("ok", make_algo(source)(8).residue())
    except Exception as e:           # noqa: BLE001
        return ("exc", "%s: %s" % (type(e).__name__, e))


def _small_job(cases):
    """cases: list of (w, poly, init, refin, refout, xorout, dw, residue, table) as printed by TLC.
    Returns the list of disagreements with the real code."""
    from amaranth.lib.crc import Algorithm
    bad = []
    n = 0
    for (w, poly, init, refin, refout, xorout, dw, res, table) in cases:
        params = {"crc_width": w, "polynomial": poly, "initial_crc": init, "reflect_input": bool(refin),
                  "reflect_output": bool(refout), "xor_output": xorout}
        try:
            par = Algorithm(**params)(dw)
            r = par.residue()
        except Exception as e:       # noqa: BLE001
            bad.append((params, dw, None, "construct/residue", "%s: %s" % (type(e).__name__, e)))
            continue
        if r != res:
            bad.append((params, dw, None, res, r))
        for length, row in enumerate(table):
            seqs = itertools.product(range(1 << dw), repeat=length)
            for words, exp in zip(seqs, row):
                n += 1
                try:
                    got = par.compute(words)
                except Exception as e:   # noqa: BLE001
                    got = "%s: %s" % (type(e).__name__, e)
                if got != exp:
                    if len(bad) < 20:
                        bad.append((params, dw, list(words), exp, got))
    return n, bad


def tx_words(crc, w, dw, refin, refout):
    """Driver side only (never used as an oracle): a CRC value cut into data words the way a transmitter would
    send it.  CrcTrace decides independently whether a trailer is the message's own CRC; a wrong ordering here
    would show up as missing coverage (the `own` counter of the verdict), which is guarded."""
    stream = bits(crc, w)
    if refout:
        stream.reverse()
    out = []
    for j in range(0, w, dw):
        chunk = stream[j:j + dw]
        if refin:
            chunk = chunk[::-1]
        out.append(unbits(chunk))
    return out


def hw_run(source, dw, seed, n_target):
    """Simulate the real Processor under a seeded random schedule.  Returns (steps, info);
    steps = [(start, valid, data, crc, match_detected)] with the outputs sampled before the clock edge."""
    from amaranth.sim import Simulator, Period
    algo = make_algo(source)
    w = algo.crc_width
    refin, refout = algo.reflect_input, algo.reflect_output
    dut = algo(dw).create()
    rng = random.Random(seed)
    steps = []
    info = {"own": 0, "bad": 0, "restarts": 0}
    whole = w % dw == 0

    async def tb(ctx):
        async def cyc(start, valid, data):
            c = ctx.get(dut.crc)
            m = ctx.get(dut.match_detected)
            ctx.set(dut.start, start)
            ctx.set(dut.valid, valid)
            ctx.set(dut.data, data)
            await ctx.tick()
            steps.append((start, valid, data, c, m))

        async def idle(maxn):
            for _ in range(rng.randrange(maxn + 1)):
                await cyc(0, 0, rng.getrandbits(dw))

        if rng.random() < 0.3:                           # activity before the first start (reset = initial value)
            for _ in range(rng.randrange(1, 4)):
                await cyc(0, rng.getrandbits(1), rng.getrandbits(dw))
        while len(steps) < n_target:
            info["restarts"] += 1
            words = [rng.getrandbits(dw) for _ in range(rng.choice([0, 0, 1, 1, 2, 3, 4, 6, 9]))]
            first = 0
            if words and rng.random() < 0.5:
                await cyc(1, 1, words[0])                # start together with the first word
                first = 1
            else:
                await cyc(1, 0, rng.getrandbits(dw))     # start alone
                if rng.random() < 0.3:
                    await idle(2)
            for wd in words[first:]:
                if rng.random() < 0.3:
                    await idle(2)
                await cyc(0, 1, wd)
            if not whole:
                await idle(1)
                continue
            kind = rng.choice(["own", "own", "own_gaps", "flip", "flip", "random", "cut", "none"])
            if kind == "none":
                await idle(1)
                continue
            tw = tx_words(ctx.get(dut.crc), w, dw, refin, refout)
            if kind == "flip":
                j = rng.randrange(len(tw))
                tw[j] ^= 1 << rng.randrange(dw)
            elif kind == "random":
                tw = [rng.getrandbits(dw) for _ in tw]
            cut = len(tw) // 2 if kind == "cut" and len(tw) > 1 else None
            done = True
            for j, wd in enumerate(tw):
                if cut is not None and j == cut:
                    done = False
                    break                                # restart in the middle of the trailer
                if kind == "own_gaps" and rng.random() < 0.5:
                    await idle(2)
                await cyc(0, 1, wd)
            if done:
                info["own" if kind in ("own", "own_gaps", "cut") else "bad"] += 1
                await idle(1) if rng.random() < 0.5 else await cyc(0, 0, 0)
                if rng.random() < 0.3:                   # the stream goes on after the trailer
                    await cyc(0, 1, rng.getrandbits(dw))
        await cyc(0, 0, 0)                               # final observation

    sim = Simulator(dut)
    sim.add_clock(Period(MHz=1))
    sim.add_testbench(tb)
    sim.run()
    return steps, info


def _hw_job(job):
    source, dw, seed, n_target = job
    try:
        steps, info = hw_run(source, dw, seed, n_target)
    except Exception as e:            # noqa: BLE001
        import traceback
        return ("exc", "%s: %s\n%s" % (type(e).__name__, e, traceback.format_exc()[-1500:]))
    return ("ok", steps, info)


def hw_trace(pspec, dw, steps):
    w = pspec["crc_width"]
    return {"kind": "hw", "dw": dw, "p": pjson(pspec),
            "steps": [[s, v, bits(d, dw), bits(c, w), m] for (s, v, d, c, m) in steps]}


def sw_trace(pspec, dw, words, out):
    return {"kind": "sw", "dw": dw, "p": pjson(pspec), "words": [bits(x, dw) for x in words],
            "out": bits(out, pspec["crc_width"])}


def res_trace(pspec, out):
    return {"kind": "res", "dw": 8, "p": pjson(pspec), "out": bits(out, pspec["crc_width"])}


_EXP = re.compile(r'^"(<<778, .*>>)"$', re.M)


def validate(ctx, traces, stage, mutant="", count_states=True, jobs=1, cost=None):
    """Batch validation by CrcTrace (protocol of harness.tracecheck.validate; additionally collects the "expected"
    lines).  The batch is dealt into `jobs` single-worker TLC runs executed concurrently (several small JVMs use a
    loaded machine far better than one TLC with many workers).  Returns verdicts aligned with traces:
    ("ACC", steps, own, matches) or ("REJ", step, clause, expected)."""
    verdicts = [None] * len(traces)
    st_name = "%s/validate" % stage
    order = sorted(range(len(traces)), key=(lambda j: -cost[j]) if cost else (lambda j: j))
    jobs = max(1, min(jobs, len(traces)))
    parts = [order[k::jobs] for k in range(jobs)]

    def one(k):
        idx = parts[k]
        path = os.path.join(ctx.tmp, "CrcTrace_%s_%d.json" % (re.sub(r"\W", "_", stage), k))
        with open(path, "w") as f:
            json.dump({"traces": [traces[j] for j in idx]}, f, separators=(",", ":"))
        r = ctx.tlc("CrcTrace", stage="%s#%d" % (st_name, k) if jobs > 1 else st_name, cfg_text=CFG_TRACE.format(mutant=mutant),
                    env={"TRACE_FILE": path}, workers=1, timeout=3000, count=False)
        expected = {}
        for m in _EXP.finditer(r.out):
            v = json.loads(m.group(1).replace("<<", "[").replace(">>", "]"))
            expected[v[1]] = v[2]
        for txt in r.printed():
            if txt.startswith('<<"ACC"') or txt.startswith('<<"REJ"'):
                v = json.loads(txt.replace("<<", "[").replace(">>", "]"))
                j = idx[v[1] - 1]
                verdicts[j] = ("ACC",) + tuple(v[2:]) if v[0] == "ACC" else ("REJ", v[2], v[3], expected.get(v[1]))
        os.unlink(path)
        return r.distinct, r.wall

    if jobs > 1:
        with ThreadPoolExecutor(jobs) as tp:
            res = list(tp.map(one, range(jobs)))
        stages = ctx.cov["stages"]
        for k in range(jobs):
            stages.pop("%s#%d" % (st_name, k), None)
        stages[st_name] = {"tlc_runs": jobs, "tlc_wall_s_max": round(max(w for _, w in res), 2)}
    else:
        res = [one(0)]
    st = ctx.cov["stages"][st_name]
    st["trace_states"] = sum(d for d, _ in res)
    if count_states:
        ctx.cov["trace_states_checked"] = ctx.cov.get("trace_states_checked", 0) + st["trace_states"]
    missing = [j for j, v in enumerate(verdicts) if v is None]
    if missing:
        raise MachineryError("CrcTrace: no verdict for %d traces (first: %d) in stage %s" % (len(missing), missing[0], stage))
    ctx.cov["traces_validated_against_impl"] += len(traces)
    return verdicts


def random_params(rng, wmax):
    w = rng.choice([1, 2, 3, 4, 5, 7, 8, 9, 12, 16, 17, 24, 31, 32, 33, 40, 63, 64, 65, 82, 90])
    while w > wmax:
        w = rng.randrange(1, wmax + 1)
    poly = rng.getrandbits(w)
    if rng.random() < 0.75:
        poly |= 1                                        # a proper generator; even ones are valid parameters too
    return {"crc_width": w, "polynomial": poly, "initial_crc": rng.choice([0, (1 << w) - 1, rng.getrandbits(w)]),
            "reflect_input": rng.random() < 0.5, "reflect_output": rng.random() < 0.5,
            "xor_output": rng.choice([0, (1 << w) - 1, rng.getrandbits(w)])}


def pname(p):
    return "Algorithm(crc_width=%d, polynomial=%#x, initial_crc=%#x, reflect_input=%s, reflect_output=%s, xor_output=%#x)" % (
        p["crc_width"], p["polynomial"], p["initial_crc"], p["reflect_input"], p["reflect_output"], p["xor_output"])


# ------------------------------------------------------------------ the check
INVARIANTS = ["CrcIsFold", "CrcIsCompute", "RegOfBitStream", "OwnCrcMatches", "OtherTrailerNoMatch", "OwnCrcMatchesDef"]


def cfg_mc(bounds, mutant="", invariants=INVARIANTS):
    return CFG_MC.format(mutant=mutant, invs="\n".join("INVARIANT " + i for i in invariants), **bounds)


def sim_cost(w, dw):
    """rough relative cost of building the simulator of Processor(w, dw) (pysim compiles w XOR trees of ~(w+dw)/2 terms)"""
    return w * (w + dw) * (w + dw)


def run(ctx):
    th = ctx.thorough
    rng = ctx.rng
    from amaranth.lib.crc import catalog
    import amaranth.sim  # noqa: F401  (imported before any fork)
    from ..common import make_pool
    pool = make_pool()        # forked before the TLC helper threads start (fork + threads can deadlock the child)
    try:
        return _run(ctx, th, rng, catalog, pool)
    finally:
        pool.terminate()
        pool.join()


def _run(ctx, th, rng, catalog, pool):
    table = load_table()
    by_name = {e["name"]: e for e in table}
    live_names = sorted(n for n in dir(catalog) if n.startswith("CRC"))
    missing = [n for n in by_name if n not in live_names]
    extra = [n for n in live_names if n not in by_name]
    if missing:
        ctx.notes.append("published entries missing from amaranth.lib.crc.catalog (not checked): %s" % missing)
    if extra:
        ctx.notes.append("catalogue entries without a published check value in data/crc_check_values.json "
                         "(not covered by the catalogue stage): %s" % extra)
    names = [n for n in live_names if n in by_name]
    if len(names) < 100:
        raise MachineryError("only %d catalogue entries with a published check value" % len(names))

    # ---------------- mc + generator: single-worker TLC runs in threads, concurrently with the simulations ----
    # The (width, data width) plane is cut into independent TLC runs.  Bounds on the words since the last start:
    # at most maxwords words and maxbits bits.
    if th:
        mc_jobs = [dict(widths="{1, 2}", dws="{1, 2, 3, 4}", workers=2, maxwords=6, maxbits=8)]
        for w, d, k, mw, mbits in [(3, 1, 1, 6, 10), (3, 2, 2, 6, 8), (3, 3, 4, 6, 10), (3, 4, 2, 6, 10),
                                   (4, 1, 3, 6, 8), (4, 2, 3, 3, 8), (4, 3, 1, 6, 8), (4, 4, 6, 6, 8)]:
            mc_jobs.append(dict(widths="{%d}" % w, dws="{%d}" % d, workers=k, maxwords=mw, maxbits=mbits))
        gen_jobs = [dict(widths="{%d}" % w, dws="{%d}" % d, maxwords=6 if w <= 3 else 3, maxbits=9 if w <= 3 else 8,
                         workers=2 if w == 4 else 1) for w in (1, 2, 3, 4) for d in (1, 2, 3, 4)]
    else:
        mb = dict(maxwords=5, maxbits=6)
        mc_jobs = [dict(widths="{1, 2}", dws="{1, 2, 3, 4}", workers=1, **mb), dict(widths="{3}", dws="{2, 4}", workers=1, **mb),
                   dict(widths="{3}", dws="{1}", workers=1, **mb), dict(widths="{3}", dws="{3}", workers=2, **mb)]
        gb = dict(maxwords=4, maxbits=6)
        gen_jobs = [dict(widths="{1, 2}", dws="{1, 2, 3, 4}", workers=1, **gb), dict(widths="{3}", dws="{1, 4}", workers=1, **gb),
                    dict(widths="{3}", dws="{2}", workers=1, **gb), dict(widths="{3}", dws="{3}", workers=1, **gb)]
    cov_bounds = dict(widths="{1, 2}", dws="{1, 2}", maxwords=3, maxbits=4)
    small_bounds = dict(widths="{1, 2}", dws="{1, 2, 3}", maxwords=4, maxbits=6)
    mutants = [("tx_msb_always", "OwnCrcMatches", INVARIANTS),
               ("tx_msb_always", "OtherTrailerNoMatch", ["OtherTrailerNoMatch"]),
               ("start_drops_word", "CrcIsFold", INVARIANTS)] + \
        ([("refin_ignored", "RegOfBitStream", INVARIANTS)] if th else [])

    def jname(b):
        return "w%s-d%s" % (re.sub(r"\W", "", b["widths"]), re.sub(r"\W", "", b["dws"]))

    def tlc_mc(b):
        bb = {k: v for k, v in b.items() if k != "workers"}
        r = ctx.tlc("Crc", stage="mc/processor-" + jname(b), cfg_text=cfg_mc(bb), workers=b["workers"], timeout=3000)
        m = re.search(r"Finished computing initial states: (\d+) distinct", r.out)
        if not m or r.distinct <= 2 * int(m.group(1)):
            raise MachineryError("vacuous model run mc/processor-%s: %d states from %s initial states" % (
                jname(b), r.distinct, m and m.group(1)))
        return r

    def tlc_cov():
        r = ctx.tlc("Crc", stage="mc/processor-coverage", cfg_text=cfg_mc(cov_bounds), workers=1, args=("-coverage", "1"),
                    count=False)
        ctx.require_actions(r, ["Init", "Next"], "mc/processor-coverage")
        return r

    def tlc_mutant(m):
        return ctx.tlc("Crc", stage="mc/mutant-%s-%s" % (m[0], m[1]), cfg_text=cfg_mc(small_bounds, m[0], m[2]),
                       workers=1, expect_violation=m[1], count=False)

    def tlc_gen(b):
        bb = {k: v for k, v in b.items() if k != "workers"}
        return ctx.tlc("Crc", stage="small/gen-" + jname(b), cfg_text=CFG_GEN.format(**bb), workers=b["workers"], timeout=3000)

    ex = ThreadPoolExecutor(12)
    order = sorted(range(len(mc_jobs)), key=lambda j: -mc_jobs[j]["workers"])
    fut_mc = [ex.submit(tlc_mc, mc_jobs[j]) for j in order]
    fut_gen = [ex.submit(tlc_gen, b) for b in gen_jobs]
    fut_misc = [ex.submit(tlc_cov)] + [ex.submit(tlc_mutant, m) for m in mutants]

    # ---------------- catalogue: published check values; sw: random messages --------------------------------
    check_words = list(CHECK_STRING)
    batch, roles = [], []          # one TLC run judges: table rows (spec self-check), real catalogue values, sw cases
    for n in names:
        e = by_name[n]
        batch.append(sw_trace(e["params"], 8, check_words, e["check"]))
        roles.append(("table", n, "check"))
        batch.append(res_trace(e["params"], e["residue"]))
        roles.append(("table", n, "residue"))
    n_table = len(batch)

    uniq = {}
    for n in names:                                          # aliases are the same object: exercise it once
        uniq.setdefault(id(getattr(catalog, n)), n)
    uniq_names = sorted(uniq.values())

    sw_jobs, sw_meta = [], []
    for n in names:
        sw_jobs.append((("catalog", n), 8, check_words))
        sw_meta.append({"stage": "catalogue", "name": n, "params": by_name[n]["params"], "dw": 8, "words": check_words})
    for n in uniq_names:
        for dw in ([1, 3, 8, 13, 16, 32, 64] if th else [1, 3, 8, 16, 32]):
            for rep in range(3 if th else 1):
                ln = rng.choice([0, 1, 2, 3, 5, 8, 13]) if dw > 1 else rng.choice([0, 1, 7, 8, 9, 31, 40])
                words = [rng.getrandbits(dw) for _ in range(ln)]
                if rep == 0 and dw in (16, 32):              # (part of) the check string regrouped into wider words
                    words = regroup(CHECK_STRING[:8], dw, by_name[n]["params"]["reflect_input"])
                sw_jobs.append((("catalog", n), dw, words))
                sw_meta.append({"stage": "sw", "name": n, "params": by_name[n]["params"], "dw": dw, "words": words})
    for j in range(600 if th else 120):
        p = random_params(rng, 90)
        dw = rng.choice([1, 2, 3, 5, 8, 16, 24, 32, 33, 64, 70])
        words = [rng.getrandbits(dw) for _ in range(rng.choice([0, 1, 2, 3, 5, 8]))]
        sw_jobs.append((("custom", p), dw, words))
        sw_meta.append({"stage": "sw", "name": None, "params": p, "dw": dw, "words": words})
    sw_out = pmap(_sw_job, sw_jobs, chunksize=64, pool=pool)
    res_out = pmap(_residue_job, [("catalog", n) for n in names], chunksize=16, pool=pool)

    def label(meta):
        return ("catalog." + meta["name"]) if meta["name"] else pname(meta["params"])

    for meta, out in zip(sw_meta, sw_out):
        w = meta["params"]["crc_width"]
        key = {"stage": meta["stage"], "name": meta["name"], "params": pname(meta["params"]), "dw": meta["dw"], "words": meta["words"]}
        if out[0] != "ok" or not isinstance(out[1], int) or not (0 <= out[1] < (1 << w)):
            ctx.violation(dict(key, clause="compute_raises"), "%s(%d).compute(%r) raised / is out of range: %r" % (
                label(meta), meta["dw"], meta["words"], out[1]), replay={"kind": "sw", **meta})
            continue
        batch.append(sw_trace(meta["params"], meta["dw"], meta["words"], out[1]))
        roles.append(("sw", meta, key, out[1]))
        ctx.case((meta["stage"], meta["name"], pname(meta["params"]), meta["dw"], tuple(meta["words"])), nontrivial=len(meta["words"]) > 0)
    for n, out in zip(names, res_out):
        e = by_name[n]
        key = {"stage": "catalogue", "name": n, "clause": "residue"}
        if out[0] != "ok" or not (0 <= out[1] < (1 << e["params"]["crc_width"])):
            ctx.violation(key, "catalog.%s(8).residue() raised / is out of range: %r" % (n, out[1]),
                          replay={"kind": "residue", "name": n, "params": e["params"]})
            continue
        batch.append(res_trace(e["params"], out[1]))
        roles.append(("res", n, key, out[1]))
        ctx.case(("residue", n))

    def judge_sw():
        vs = validate(ctx, batch, "sw", jobs=4 if th else 2)
        ctx.cov["traces_validated_against_impl"] -= n_table          # table rows are not executions
        for v, role in zip(vs, roles):
            if role[0] == "table":
                if v[0] != "ACC":
                    raise MachineryError("Crc.tla disagrees with the published table for %s (%s): TLC says %r" % (role[1], role[2], v))
            elif v[0] == "REJ" and role[0] == "sw":
                meta, key, out = role[1:]
                e = by_name.get(meta["name"])
                ctx.violation(dict(key, clause=v[2]), "%s(%d).compute(%r) returned %#x; the Williams model%s gives %#x%s" % (
                    label(meta), meta["dw"], meta["words"], out,
                    (" with the published parameters (%s)" % pname(meta["params"])) if e else "", unbits(v[3] or []),
                    (" (published check value %#x)" % e["check"]) if e and meta["stage"] == "catalogue" else ""),
                    replay={"kind": "sw", **meta})
            elif v[0] == "REJ":
                n, key, out = role[1:]
                ctx.violation(key, "catalog.%s(8).residue() returned %#x; the Williams model with the published parameters gives %#x "
                              "(published residue %#x)" % (n, out, unbits(v[3] or []), by_name[n]["residue"]),
                              replay={"kind": "residue", "name": n, "params": by_name[n]["params"]})
        st = ctx.cov["stages"]["sw/validate"]
        st.update({"published_table_rows_reproduced_by_spec": n_table, "catalogue_check_strings": len(names),
                   "compute_cases": sum(1 for r in roles if r[0] == "sw"), "residue_cases": sum(1 for r in roles if r[0] == "res")})
        return vs

    def judge_mutant_table():
        # the mutant model must disagree with the published table
        with_xor = [j for j, n in enumerate(names) if by_name[n]["params"]["xor_output"] != 0]
        sample = [batch[2 * j] for j in with_xor[:12]]
        vm = validate(ctx, sample, "catalogue/mutant-xor_skipped", mutant="xor_skipped", count_states=False)
        ctx.cov["traces_validated_against_impl"] -= len(sample)
        if not sample or any(v[0] != "REJ" for v in vm):
            raise MachineryError("mutant model xor_skipped still reproduces published check values: %r" % (vm,))
        ctx.cov["stages"]["catalogue/mutant-xor_skipped/validate"]["mutant_rejected"] = len(sample)

    fut_sw = ex.submit(judge_sw)
    fut_misc.append(ex.submit(judge_mutant_table))
    ctx.sample({"stage": "catalogue", "name": names[0],
                "published": {k: (hex(v) if isinstance(v, int) and not isinstance(v, bool) else v) for k, v in by_name[names[0]]["params"].items()},
                "check": hex(by_name[names[0]]["check"]), "real_compute": hex(sw_out[0][1]) if sw_out[0][0] == "ok" else sw_out[0][1]})

    # ---------------- hw: the real Processor, per-cycle (code -> spec) ---------------------------------------
    def unusual(n):
        p = by_name[n]["params"]
        return p["crc_width"] not in (8, 16, 32) or p["reflect_input"] != p["reflect_output"]
    if th:
        hw_names = uniq_names
    else:
        seen, firsts = set(), []
        for n in uniq_names:                                 # one entry per unusual width / cross-endian combination
            p = by_name[n]["params"]
            k = (p["crc_width"], p["reflect_input"], p["reflect_output"])
            if unusual(n) and k not in seen:
                seen.add(k)
                firsts.append(n)
        rest = [n for n in uniq_names if n not in firsts]
        hw_names = sorted(set(firsts + rng.sample(rest, min(len(rest), 24))))
    n_target = 100 if th else 40
    hw_jobs, hw_meta = [], []
    for n in hw_names:
        w = by_name[n]["params"]["crc_width"]
        for dw in [1, 3, 8, 16, 32]:
            if not th and sim_cost(w, dw) > sim_cost(32, 32):
                continue                                     # quick tier: the widest XOR networks are left to the thorough tier
            reps = 1 if (not th or sim_cost(w, dw) > sim_cost(32, 16)) else 2
            for rep in range(reps):
                seed = rng.getrandbits(40)
                hw_jobs.append((("catalog", n), dw, seed, n_target))
                hw_meta.append({"stage": "hw", "name": n, "params": by_name[n]["params"], "dw": dw, "seed": seed, "n": n_target})
    for j in range(300 if th else 32):
        p = random_params(rng, 40)
        w = p["crc_width"]
        divs = [d for d in range(1, w + 1) if w % d == 0]
        dw = rng.choice(divs) if rng.random() < 0.6 else rng.choice([1, 2, 3, 5, 8, 13, 24, w + 1, 2 * w])
        seed = rng.getrandbits(40)
        hw_jobs.append((("custom", p), dw, seed, n_target))
        hw_meta.append({"stage": "hw", "name": None, "params": p, "dw": dw, "seed": seed, "n": n_target})
    order = sorted(range(len(hw_jobs)), key=lambda j: -sim_cost(hw_meta[j]["params"]["crc_width"], hw_meta[j]["dw"]))
    hw_jobs = [hw_jobs[j] for j in order]
    hw_meta = [hw_meta[j] for j in order]
    hw_out = pmap(_hw_job, hw_jobs, chunksize=1, pool=pool)
    hw_traces, hw_keep = [], []
    for meta, out in zip(hw_meta, hw_out):
        key = {"stage": "hw", "name": meta["name"], "params": pname(meta["params"]), "dw": meta["dw"]}
        if out[0] != "ok":
            ctx.violation(dict(key, clause="simulation_raises"), "Processor(%s, data_width=%d) failed in simulation: %s" % (
                label(meta), meta["dw"], out[1]), replay={"kind": "hw", **meta})
            continue
        hw_traces.append(hw_trace(meta["params"], meta["dw"], out[1]))
        hw_keep.append((meta, key, out[2]))
    vs = validate(ctx, hw_traces, "hw", jobs=12 if th else 6,
                  cost=[t["p"]["w"] * t["dw"] * len(t["steps"]) + 50 * len(t["steps"]) for t in hw_traces])
    own_expected = own_seen = bad_trailers = matches = 0
    for v, (meta, key, info), t in zip(vs, hw_keep, hw_traces):
        if v[0] == "REJ":
            step, clause = v[1], v[2]
            exp = v[3] or None
            ctx.violation(dict(key, clause=clause),
                          "Processor of %s, data_width=%d (seed %d): clause %s broken at cycle %d; expected crc=%s match_detected=%s; "
                          "cycles (start, valid, data, crc, match_detected) up to it: %r" % (
                              label(meta), meta["dw"], meta["seed"], clause, step, hex(unbits(exp[0])) if exp else "?",
                              exp[1] if exp else "?",
                              [(s[0], s[1], hex(unbits(s[2])), hex(unbits(s[3])), s[4]) for s in t["steps"][max(0, step - 4):step]]),
                          replay={"kind": "hw", **meta})
        else:
            own_expected += info["own"]
            own_seen += v[2]
            matches += v[3]
            bad_trailers += info["bad"]
        ctx.case(("hw", meta["name"], pname(meta["params"]), meta["dw"], meta["seed"]),
                 nontrivial=sum(1 for s in t["steps"] if s[1]) > 3)
    st = ctx.cov["stages"]["hw/validate"]
    st.update({"traces": len(hw_traces), "catalogue_entries": len(hw_names), "cycles": sum(len(t["steps"]) for t in hw_traces),
               "own_crc_trailers_sent": own_expected, "cycles_where_spec_sees_own_crc_trailer": own_seen,
               "other_trailers_sent": bad_trailers, "cycles_with_match_detected": matches})
    if not ctx.violations and (own_seen < own_expected or own_seen < 20):
        raise MachineryError("vacuous hardware traces: the driver sent %d own-CRC trailers but CrcTrace recognised only %d "
                             "(transmission order of the driver and of the specification differ)" % (own_expected, own_seen))
    if hw_keep:
        m0 = hw_keep[-1][0]
        ctx.sample({"stage": "hw", "algorithm": label(m0), "dw": m0["dw"], "seed": m0["seed"],
                    "first_cycles(start,valid,data,crc,match)": [(s[0], s[1], hex(unbits(s[2])), hex(unbits(s[3])), s[4])
                                                                  for s in hw_traces[-1]["steps"][:8]],
                    "verdict": [str(x) for x in vs[-1]]})

    # ---------------- binding demonstration: corrupted traces must be rejected -------------------------------
    good = next((t for t, v in zip(hw_traces, vs) if v[0] == "ACC" and v[3] > 0 and len(t["steps"]) > 20
                 and t["p"]["w"] <= 32), None)
    if good is None:
        if not ctx.violations:
            raise MachineryError("no accepted hardware trace with match_detected to corrupt")
    else:
        bad1 = json.loads(json.dumps(good))
        j = min(max(k for k, s in enumerate(bad1["steps"]) if s[0] == 1) + 2, len(bad1["steps"]) - 1)
        bad1["steps"][j][3][-1] ^= 1                      # one wrong crc bit after a start
        bad2 = json.loads(json.dumps(good))
        for s in bad2["steps"]:
            s[4] = 0                                      # a hook that never reports match_detected
        bad3 = json.loads(json.dumps(batch[n_table]))
        bad3["out"][0] ^= 1                               # wrong software CRC
        bad4 = json.loads(json.dumps(good))
        bad4["p"]["poly"] = bad4["p"]["poly"][:-1]        # malformed parameters
        vb = validate(ctx, [bad1, bad2, bad3, bad4], "binding-demo", count_states=False)
        ctx.cov["traces_validated_against_impl"] -= 4
        if any(v[0] != "REJ" for v in vb):
            raise MachineryError("binding demo: corrupted traces were accepted: %r" % (vb,))
        ctx.cov["stages"]["binding-demo/validate"]["corrupted_rejected"] = [[str(x) for x in v[:3]] for v in vb]

    # ---------------- small exhaustive: values printed by TLC vs the real compute (spec -> code) ------------
    n_eval = n_cases = 0
    for b, f in zip(gen_jobs, fut_gen):
        r = f.result()
        cases = parse_gen(r.out)
        r.out = ""
        if not cases:
            raise MachineryError("generator printed nothing for %r" % (b,))
        n_cases += len(cases)
        for n, bad in pmap(_small_job, chunks(cases, max(1, len(cases) // 64)), chunksize=1, pool=pool):
            n_eval += n
            for (params, dw, words, exp, got) in bad:
                key = {"stage": "small", "params": pname(params), "dw": dw, "words": words}
                what = "residue()" if words is None else "compute(%r)" % (words,)
                ctx.violation(key, "%s(%d).%s = %r; Crc.tla gives %r" % (pname(params), dw, what, got, exp),
                              replay={"kind": "sw" if words is not None else "residue", "name": None, "params": params,
                                      "dw": dw, "words": words})
        del cases
    ctx.add_cases(n_eval, n_eval)
    ctx.cov["stages"]["small/compare"] = {"parameter_sets_x_data_widths": n_cases, "crc_values_compared": n_eval}

    sw_vs = fut_sw.result()
    k = max(j for j, r in enumerate(roles) if r[0] == "sw")
    ctx.sample({"stage": "sw", "algorithm": label(roles[k][1]), "dw": roles[k][1]["dw"], "words": roles[k][1]["words"],
                "real_compute": hex(roles[k][3]), "verdict": [str(x) for x in sw_vs[k][:3]]})
    for f in fut_misc:
        f.result()
    for f in fut_mc:
        f.result()
    ex.shutdown()

    ctx.cov["exhaustive"] = False
    ctx.cov["rule"] = ("cases = (a) every (parameter set, data width, word sequence) of the small exhaustive stage whose CRC "
                       "printed by TLC was compared with the real compute(); (b) every recorded compute()/residue() result and "
                       "every simulated Processor run validated by CrcTrace; a hardware run is non-trivial when more than 3 "
                       "words were accepted, a software case when the message is not empty")
    ctx.assume("match_detected for 'any other trailer' is only required to be low when the polynomial has the +1 term "
               "(otherwise distinct trailers necessarily leave the same register)")
    ctx.assume("out of reset the Processor is in the state a start establishes (initial_crc is documented as the register's "
               "reset value)")
    ctx.assume("published check/residue values: data/crc_check_values.json (reveng values as recorded in the repository's "
               "test table at extraction time, parameters frozen from catalog.py at extraction time)")


def regroup(data, dw, refin):
    """bytes regrouped into dw-bit words that present the same bit stream to the CRC (dw multiple of 8)"""
    out = []
    k = dw // 8
    for j in range(0, len(data) - len(data) % k, k):
        chunk = data[j:j + k]
        out.append(int.from_bytes(chunk, "little" if refin else "big"))
    return out


_GEN = re.compile(r'^"(<<777, .*>>)"$', re.M)


def parse_gen(out):
    cases = []
    for m in _GEN.finditer(out):
        v = json.loads(m.group(1).replace("<<", "[").replace(">>", "]"))
        cases.append(tuple(v[1:]))
    return cases


# ------------------------------------------------------------------ replay
def replay(ctx, rep):
    r = rep["replay"]
    kind = r["kind"]
    src = ("catalog", r["name"]) if r.get("name") else ("custom", r["params"])
    w = r["params"]["crc_width"]
    vs = None
    if kind == "sw":
        out = _sw_job((src, r["dw"], r["words"]))
        print("real compute:", out if out[0] != "ok" else hex(out[1]))
        if out[0] == "ok" and 0 <= out[1] < (1 << w):
            vs = validate(ctx, [sw_trace(r["params"], r["dw"], r["words"], out[1])], "replay")
    elif kind == "residue":
        out = _residue_job(src)
        print("real residue:", out if out[0] != "ok" else hex(out[1]))
        if out[0] == "ok" and 0 <= out[1] < (1 << w):
            vs = validate(ctx, [res_trace(r["params"], out[1])], "replay")
    elif kind == "hw":
        out = _hw_job((src, r["dw"], r["seed"], r["n"]))
        if out[0] != "ok":
            print(out[1])
        else:
            vs = validate(ctx, [hw_trace(r["params"], r["dw"], out[1])], "replay")
    else:
        raise MachineryError("unknown replay kind %r" % kind)
    print("replay verdict:", vs[0] if vs else "the real code raised / returned an out-of-range value")
    if vs is None or vs[0][0] == "REJ":
        print("VIOLATION property=C16 replay=(same)")
        return 1
    return 0


# ------------------------------------------------------------------ one-off: (re)build the published table
def extract_table(repo=REPO):
    """Build data/crc_check_values.json.  NOT run by the check.  Parameters: the keyword arguments of every
    `NAME = ... = Algorithm(...)` assignment of amaranth/lib/crc/catalog.py (the file states it was retrieved from the
    reveng catalogue on 2023-05-25); check / residue: the CRC_CHECKS table of tests/test_lib_crc.py ("All catalogue
    CRCs with their associated check values and residues from the reveng catalogue").  Both files are parsed with
    `ast`, nothing is executed and nothing is computed: the table is a transcription."""
    cat = ast.parse(open(os.path.join(repo, "amaranth/lib/crc/catalog.py")).read())
    params = {}
    for node in cat.body:
        if isinstance(node, ast.Assign) and isinstance(node.value, ast.Call) and getattr(node.value.func, "id", "") == "Algorithm":
            kw = {k.arg: ast.literal_eval(k.value) for k in node.value.keywords}
            for t in node.targets:
                params[t.id] = kw
    tst = ast.parse(open(os.path.join(repo, "tests/test_lib_crc.py")).read())
    checks = None
    for node in tst.body:
        if isinstance(node, ast.Assign) and getattr(node.targets[0], "id", "") == "CRC_CHECKS":
            checks = ast.literal_eval(node.value)
    entries = []
    for name in sorted(checks):
        p = params[name]
        entries.append({"name": name, "crc_width": p["crc_width"], "polynomial": hex(p["polynomial"]),
                        "initial_crc": hex(p["initial_crc"]), "reflect_input": p["reflect_input"],
                        "reflect_output": p["reflect_output"], "xor_output": hex(p["xor_output"]),
                        "check": hex(checks[name][0]), "residue": hex(checks[name][1])})
    doc = {"description": "Published CRC parameter sets with their check value (CRC of the ASCII string 123456789 over "
                          "8-bit words) and residue, reveng catalogue conventions (width, poly, init, refin, refout, xorout, "
                          "check, residue).",
           "provenance": "No network in the sandbox.  Transcribed by harness/props/c16.py:extract_table() from the "
                         "repository snapshot: parameters from the Algorithm(...) literals of amaranth/lib/crc/catalog.py "
                         "(retrieved by its authors from https://reveng.sourceforge.io/crc-catalogue/all.htm on 2023-05-25), "
                         "check and residue from the CRC_CHECKS literal of tests/test_lib_crc.py (reveng values).  Frozen: "
                         "later edits of catalog.py do not change this file.",
           "entries": entries}
    os.makedirs(os.path.dirname(DATA), exist_ok=True)
    with open(DATA, "w") as f:
        json.dump(doc, f, indent=1)
        f.write("\n")
    return len(entries)


if __name__ == "__main__":
    import sys
    if sys.argv[1:] == ["--extract"]:
        print("entries:", extract_table())
