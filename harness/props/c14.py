# amaranth: UnusedElaboratable=no
"""C14 — interface signatures, flipping, flatten, compliance, connect() and component metadata.

spec:   Wiring.tla — signature trees as TLA+ data; Flip, Norm, Flatten, EffDir, Nodes, Compliant,
        ConnectOutcome defined from docs/stdlib/wiring.rst; a BUILDER state machine whose closed states
        enumerate every signature tree within the bounds.  Every closed state carries (variable `exp`)
        the values the real library must produce for that tree; TLC checks the theorems (FlipFlip,
        FlipReverses, DirTheorem, EachLeafOnce, CreatedComplies, PermInvariant, ConnectSound,
        PairConnects) on every state and dumps the states.
stages: mc/*      TLC: theorems over all trees of a configuration + state dump (spec -> tests)
        mutant/*  seeded specification errors must violate the named theorem (non-vacuity)
        replay/*  one implementation test per dumped state: the real Signature / flipped() / connect /
                  Simulator / ComponentMetadata are driven and compared literally with TLC's values
        binding   a corrupted expectation must be rejected by the comparison
Verdicts: equal / not equal between the real library's observable results and the values TLC computed."""
import copy
import itertools
import os
import re
import warnings

from ..common import pmap, MachineryError
from .. import tlaval

LEVEL = "model_checking"

INVARIANTS = ["FlipFlip", "FlipReverses", "DirTheorem", "EachLeafOnce", "CreatedComplies", "PermInvariant",
              "ConnectSound", "PairConnects", "NeverOwnFlip", "WrongWayRejected"]

CFG = """SPECIFICATION Spec
CONSTANTS
 MaxDepth = {depth}
 MaxPerLevel = {width}
 MaxMembers = {members}
 PortDims <- {pdims}
 SubDims <- {sdims}
 PortAttrs <- {attrs}
 AggAttrs <- {aggs}
 SubFlips <- {flips}
 Variants = {variants}
 Triples = {triples}
 Quiet = {quiet}
 Swaps = {swaps}
 RootNm <- {rootnm}
 SubNm <- {subnm}
 Mutant = "{mutant}"
"""

TUPLES = (("S", "F"), ("S", "S"), ("F", "F"), ("S", "F", "F"), ("S", "S", "F"), ("S", "D"))
KNOWN_MSG = "flipped() can only flip an interface object"
DEFECT_CLAUSE = "flipped_interface_dimensioned_member"


def cfg(depth, width, members, pdims, sdims, attrs, flips, variants=False, triples=False, mutant="", invariants=None,
        quiet=False, swaps=False, rootnm="NmAnon", subnm="NmAnon", aggs="AggNone"):
    t = CFG.format(depth=depth, width=width, members=members, pdims=pdims, sdims=sdims, attrs=attrs, flips=flips,
                   variants="TRUE" if variants else "FALSE", triples="TRUE" if triples else "FALSE", mutant=mutant,
                   quiet="TRUE" if quiet else "FALSE", swaps="TRUE" if swaps else "FALSE", rootnm=rootnm, subnm=subnm,
                   aggs=aggs)
    for inv in (INVARIANTS if invariants is None else invariants):
        t += "INVARIANT %s\n" % inv
    return t


# ------------------------------------------------------------------------------------------------
# binding: TLA+ tree -> real objects
# ------------------------------------------------------------------------------------------------
def _lib():
    from amaranth.lib import wiring
    return wiring


_CLASSES = []
_AGG = {}


def agg_catalogue():
    """the shape-castable port shapes of Wiring!AggT, and the initial values of Wiring!AggGiven (binding only: the
    expected width / bit pattern comes from the specification)"""
    if not _AGG:
        from amaranth.hdl import unsigned, signed
        from amaranth.lib import data, enum

        slayout = data.StructLayout({"a": unsigned(2), "b": signed(3)})

        class SClass(data.Struct):
            a: unsigned(2) = 3
            b: signed(3) = -1
        arr = data.ArrayLayout(unsigned(2), 3)
        nest = data.StructLayout({"x": data.ArrayLayout(unsigned(1), 2), "y": data.StructLayout({"a": unsigned(2)})})

        class En(enum.Enum, shape=unsigned(2)):
            B = 2
            A = 1
        _AGG.update({
            "slayout": (slayout, {"a": 1, "b": -2}, slayout.const({"a": 1, "b": -2})),
            "sclass": (SClass, {"b": 2}, SClass.const({"b": 2})),
            "arr": (arr, [1, 2, 3], arr.const([1, 2, 3])),
            "nest": (nest, {"x": [1, 0], "y": {"a": 2}}, nest.const({"x": [1, 0], "y": {"a": 2}})),
            "enum": (En, En.A, En.B),
        })
    return _AGG



def named_classes():
    """the generated Signature subclasses: IdentSig has no __eq__ of its own (amaranth compares such signatures by
    identity); StructSig has a structural __eq__ and an extra constructor parameter, like the library's own"""
    if not _CLASSES:
        wiring = _lib()

        class IdentSig(wiring.Signature):
            pass

        class StructSig(wiring.Signature):
            def __init__(self, members, tag):
                super().__init__(members)
                self.tag = tag

            def __eq__(self, other):
                return type(other) is type(self) and self.tag == other.tag and self.members == other.members

            def __repr__(self):
                return "StructSig(%r, %r)" % (dict(self.members.items()), self.tag)
        _CLASSES.extend([IdentSig, StructSig])
    return _CLASSES


def build_members(ms, descs, mp=(), pool=None):
    """ms: members of a signature expression (tuple of dicts). descs collects member path -> description."""
    from amaranth.hdl import signed, unsigned
    wiring = _lib()
    out = {}
    for m in ms:
        ctor = wiring.In if m["flow"] == "In" else wiring.Out
        if m["kind"] == "port" and m.get("agg"):
            shape, given, const = agg_catalogue()[m["agg"]]
            mem = ctor(shape, init={"none": None, "dict": given, "const": const}[m["ini"]])
        elif m["kind"] == "port":
            mem = ctor(signed(m["w"]) if m["s"] else unsigned(m["w"]), init=m["init"])
        else:
            desc = build_sig(m["sub"], descs, mp + (m["name"],), pool)
            descs[mp + (m["name"],)] = desc
            mem = ctor(desc)
        if m["dims"]:
            mem = mem.array(*m["dims"])
        out[m["name"]] = mem
    return out


def build_sig(x, descs=None, mp=(), pool=None):
    """pool: id -> object for the named-by-identity nodes: nodes with the same id are the same signature object"""
    wiring = _lib()
    descs = {} if descs is None else descs
    pool = {} if pool is None else pool
    members = build_members(x["ms"], descs, mp, pool)
    nm = x.get("nm", "anon")
    if nm == "anon":
        sig = wiring.Signature(members)
    elif nm == "ident":
        key = (x["id"], tree_repr(x["ms"]))       # (a corrupted copy of a shared node is another object)
        if key not in pool:
            pool[key] = named_classes()[0](members)
        sig = pool[key]
    else:
        sig = named_classes()[1](members, x["id"])
    return sig.flip() if x["fl"] else sig


def pypath(p):
    return tuple(int(e) if e.isdigit() else e for e in p)


def traverse(obj, path):
    for e in path:
        obj = obj[e] if isinstance(e, int) else getattr(obj, e)
    return obj


def set_leaf(obj, path, value):
    """obj.<path> = value.  An element of a dimensioned member is replaced by assigning a new (nested) list to the
    attribute that holds it: the list read through a flipped interface may be a copy."""
    k = max(i for i, e in enumerate(path) if isinstance(e, str))
    owner = traverse(obj, path[:k])
    idx = path[k + 1:]
    if not idx:
        setattr(owner, path[k], value)
        return

    def replaced(cur, idx):
        return [replaced(e, idx[1:]) if i == idx[0] else e for i, e in enumerate(cur)] if idx else value
    setattr(owner, path[k], replaced(getattr(owner, path[k]), idx))


def edit_tree(ms, mp, kind, attrs):
    """the single-point corruption of Wiring!Upd: replace the attributes of the member at mp, or remove it"""
    out = []
    for m in ms:
        if m["name"] != mp[0]:
            out.append(m)
        elif len(mp) == 1:
            if kind != "remove":
                out.append({**m, **attrs})
        else:
            out.append({**m, "sub": {**m["sub"], "ms": edit_tree(m["sub"]["ms"], mp[1:], kind, attrs)}})
    return tuple(out)


def tree_has(ms, pred):
    return any(pred(m) or (m["kind"] == "sig" and tree_has(m["sub"]["ms"], pred)) for m in ms)


def tree_repr(ms):
    parts = []
    for m in ms:
        if m["kind"] == "port" and m.get("agg"):
            d = "%s(%s, init=<%s>)" % (m["flow"], m["agg"], m["ini"])
        elif m["kind"] == "port":
            d = "%s(%s%d, init=%d)" % (m["flow"], "s" if m["s"] else "u", m["w"], m["init"])
        else:
            nm = m["sub"].get("nm", "anon")
            cls = {"anon": "Signature", "ident": "IdentSig#%s" % m["sub"].get("id"), "struct": "StructSig"}[nm]
            d = "%s(%s(%s)%s)" % (m["flow"], cls, tree_repr(m["sub"]["ms"]), ".flip()" if m["sub"]["fl"] else "")
        if m["dims"]:
            d += ".array(%s)" % ", ".join(map(str, m["dims"]))
        parts.append("%r: %s" % (m["name"], d))
    return "{" + ", ".join(parts) + "}"


# ------------------------------------------------------------------------------------------------
# one implementation test per dumped state
# ------------------------------------------------------------------------------------------------
class Tester:
    def __init__(self, ms, exp, opts):
        self.ms = ms
        self.exp = exp
        self.opts = opts
        self.viol = []          # (key, description)
        self.stats = {"connect_calls": 0, "sims": 0, "variants": 0, "metadata": 0, "defect_hits": 0,
                      "unspecified": 0, "checks": 0}
        self.defect = False     # the state ran into the FlippedInterface TypeError
        self.connect_broken = False   # connect on a compliant tuple raised something else than ConnectionError
        self.dim_sub = has_dim_sub(ms)   # part of every violation key: the tree has a dimensioned signature member
        self.rootnm = exp.get("rootnm", "anon")
        self.cls = {"anon": "Signature", "ident": "IdentSig", "struct": "StructSig"}[self.rootnm]

    # ---- reporting ----
    def bad(self, clause, op, text, **extra):
        key = {"clause": clause, "op": op, "dim_sub": self.dim_sub}
        key.update(extra)
        self.viol.append((key, "%s(%s): %s" % (self.cls, tree_repr(self.ms), text)))

    def report_exc(self, op, e, subject="", clause="unexpected_exception"):
        """an exception other than the specified one is a finding; the FlippedInterface TypeError gets its own key"""
        if isinstance(e, TypeError) and str(e).startswith(KNOWN_MSG):
            self.defect = True
            self.stats["defect_hits"] += 1
            self.viol.append(({"clause": DEFECT_CLAUSE, "error": "TypeError", "op": op, "dim_sub": self.dim_sub},
                              "%s(%s)%s: %s raises TypeError: %s" % (
                                  self.cls, tree_repr(self.ms), subject, op, str(e)[:160])))
        else:
            self.bad(clause, op, "%s%s raises %s: %s" % (op, subject, type(e).__name__, str(e)[:300]),
                     error=type(e).__name__)

    def guarded(self, op, fn, subject=""):
        """run fn(); returns (completed, result)"""
        try:
            return True, fn()
        except Exception as e:  # noqa: BLE001
            self.report_exc(op, e, subject)
            return False, None

    def eq(self, clause, op, got, want, what):
        self.stats["checks"] += 1
        if got != want:
            self.bad(clause, op, "%s: implementation %r, specification %r" % (what, got, want))
            return False
        return True

    # ---- pieces ----
    def root(self, ms):
        return {"fl": False, "ms": ms, "nm": self.rootnm, "id": 0 if self.rootnm == "anon" else 100}

    def run(self):
        wiring = _lib()
        exp = self.exp
        self.descs = {}
        self.pool = {}
        x = self.root(self.ms)
        self.sig = sig = build_sig(x, self.descs, (), self.pool)
        self.fsig = fsig = sig.flip()
        self.flat = {"S": [self.leaf(l) for l in exp["flatS"]], "F": [self.leaf(l) for l in exp["flatF"]]}

        # -- flipping and equality
        self.eq("flip_flip", "eq", sig.flip().flip() == sig, exp["eqFF"], "sig.flip().flip() == sig")
        self.eq("flip_flip", "eq", (sig.flip().flip() is sig, fsig.flip() is sig), (exp["eqFF"],) * 2,
                "sig.flip().flip() is sig (flipping back returns the original object)")
        self.eq("flip_eq", "eq", (fsig != sig, sig != fsig), (not exp["eqFlip"],) * 2, "sig.flip() != sig")
        for label, sg, want in (("sig.members", sig, exp["memS"]), ("sig.flip().members", fsig, exp["memF"])):
            got = tuple((name, "In" if mem.flow == wiring.In else "Out") for name, mem in sg.members.items())
            self.eq("flip_members", "eq", got, tuple(tuple(e) for e in want), label + " (name, flow)")
        self.eq("flip_flip", "eq", fsig.flip().flip() == fsig, exp["eqFF"], "sig.flip().flip().flip() == sig.flip()")
        self.eq("flip_eq", "eq", (fsig == sig, sig == fsig), (exp["eqFlip"],) * 2, "sig.flip() == sig")
        copy2 = build_sig(x)
        self.eq("flip_eq", "eq", (copy2 == sig, sig == copy2, copy2.flip() == fsig), (exp["eqCopy"],) * 3,
                "a second, separate construction of the same tree == sig")
        # Flip as data (every top-level member with the other flow) is what the proxy must equal
        self.fdata = fdata = build_sig({"fl": False, "nm": "anon", "id": 0, "ms": tuple(
            {**m, "flow": "In" if m["flow"] == "Out" else "Out"} for m in self.ms)}, None, (), self.pool)
        self.eq("flip_eq", "eq", (fdata == fsig, fsig == fdata, fdata.flip() == sig), (exp["eqData"],) * 3,
                "Signature(members flipped one by one) == sig.flip()")

        # -- create / flatten / is_compliant, on S, on F, and on flipped(S object)
        self.obj = obj = sig.create(path=("o",))
        self.fobj = fobj = fsig.create(path=("f",))
        self.check_flatten("S", sig, obj, "sig.flatten(sig.create())")
        self.check_flatten("F", fsig, fobj, "sig.flip().flatten(sig.flip().create())")
        self.check_flatten("F", fsig, wiring.flipped(obj), "sig.flip().flatten(flipped(sig.create()))", same_as=obj)
        self.check_flatten("F", fdata, fdata.create(path=("d",)), "flatten of Signature(members flipped one by one)")
        for name, s_, o_, want in (("sig.is_compliant(sig.create())", sig, obj, exp["compSS"]),
                                   ("sig.flip().is_compliant(sig.flip().create())", fsig, fobj, exp["compFF"]),
                                   ("sig.flip().is_compliant(flipped(sig.create()))", fsig, wiring.flipped(obj), exp["compFF"]),
                                   ("sig.is_compliant(sig.flip().create())", sig, fobj, exp["compSF"]),
                                   ("sig.is_compliant(flipped(sig.create()))", sig, wiring.flipped(obj), exp["compSF"]),
                                   ("sig.flip().is_compliant(sig.create())", fsig, obj, exp["compFS"])):
            ok, got = self.guarded("is_compliant", lambda: s_.is_compliant(o_), " " + name)
            if ok:
                self.eq("created_complies", "is_compliant", got, want, name)

        # -- sub-interfaces: what is found at every signature member (and index), through plain and flipped objects
        self.check_nodes("S", obj, exp["nodesS"], "sig.create()")
        self.check_nodes("F", fobj, exp["nodesF"], "sig.flip().create()")
        self.check_nodes("F", wiring.flipped(obj), exp["nodesF"], "flipped(sig.create())")
        self.check_setattr()

        # -- connect on tuples obtained by flipping, every permutation
        for ti, t in enumerate(TUPLES):
            out = exp["conn"][ti]
            if self.defect and ti > 0 and "F" in t:
                continue    # every further connect with a proxy runs into the same TypeError
            perms = list(itertools.permutations(range(len(t))))
            for pi, perm in enumerate(perms):
                args = [self.make_arg(k, "a%d" % i) for i, k in enumerate(t)]
                sim = self.opts["sim_all"] or pi == 0     # (every order is compared structurally, statement by statement)
                self.check_connect(t, args, perm, out, sim=sim, what="tuple %s order %s" % ("".join(t), perm))

        # -- single-point corruptions (meaningless when the compliant tuple cannot be connected in the first place)
        if exp.get("vars") or exp.get("cvars") or exp.get("ovars") or exp.get("qvars") or exp.get("swaps"):
            if self.defect or self.connect_broken:
                self.stats["variants_skipped_defect"] = 1
            else:
                self.check_variants()
                self.check_quiet()
                self.check_swaps()

        # -- component metadata
        if self.opts["metadata"]:
            self.check_metadata("S", sig)
            self.check_metadata("F", fsig)
        return self

    def leaf(self, l):
        return (pypath(l[0]), l[1], l[2], l[3], l[4])

    def check_flatten(self, k, sig, obj, what, same_as=None):
        from amaranth.hdl import Shape, Signal, ShapeCastable, Const, Value
        ok, got = self.guarded("flatten", lambda: list(sig.flatten(obj)), " " + what)
        if not ok:
            return
        want = self.flat[k]
        seen = []
        for path, member, value in got:
            sh = Shape.cast(member.shape)
            if isinstance(member.shape, ShapeCastable):      # the constant of the shape-castable, as a bit pattern
                init = Const.cast(Const(member.init, member.shape)).value
            else:
                init = member.init or 0
            seen.append((tuple(path), "In" if member.flow == _lib().In else "Out", sh.width, sh.signed, init))
        if not self.eq("flatten", "flatten", sorted(seen), sorted(want), what + " (path, flow, width, signed, init)"):
            return
        self.eq("flatten_once", "flatten", len(seen), self.exp["nleaves"], what + ": number of leaves visited")
        for (path, member, value), w in zip(got, seen):
            ok, there = self.guarded("getattr", lambda: traverse(obj, path), " path %r of %s" % (path, what))
            if not ok:
                return
            raw = value
            value = value if isinstance(value, Signal) else Value.cast(value)     # (a data.View / enum view of a Signal)
            sh = value.shape() if isinstance(value, Signal) else None
            same = there is raw or (not isinstance(raw, Signal) and Value.cast(there) is value)
            if not (same and isinstance(value, Signal) and (sh.width, sh.signed, value.init) == w[2:]):
                self.bad("flatten", "flatten", "%s: value at %r is %r (expected the signal created for that leaf: shape/init %r)"
                         % (what, path, value, w[2:]))
                return
            if same_as is not None:
                ok, other = self.guarded("getattr", lambda: traverse(same_as, path), " path %r of the unflipped object" % (path,))
                if not ok:
                    return
                if Value.cast(other) is not value:
                    self.bad("flipped_access", "flatten", "%s: leaf %r is not the signal of the unflipped object" % (what, path))
                    return

    def check_nodes(self, k, obj, nodes, what):
        wiring = _lib()
        for n in sorted(nodes):
            path = pypath(n[0])
            ok, node = self.guarded("getattr", lambda: traverse(obj, path), " path %r of %s" % (path, what))
            if not ok:
                return
            desc = self.descs[tuple(e for e in path if isinstance(e, str))]
            ok, got = self.guarded("getattr", lambda: (node.signature == desc, node.signature == desc.flip()),
                                   " signature at %r of %s" % (path, what))
            if not ok:
                return
            self.eq("sub_interface_signature", "getattr", got, (n[1], n[2]),
                    "%s: (x.signature == declared, x.signature == declared.flip()) for x at %r" % (what, path))

    def check_setattr(self):
        """flipped(obj).member = value stores the flipped value: a round trip must restore the object"""
        wiring = _lib()
        obj = self.sig.create(path=("w",))
        fo = wiring.flipped(obj)

        def deepflip(v):
            return [deepflip(e) for e in v] if isinstance(v, (list, tuple)) else wiring.flipped(v)

        def same(a, b):
            if isinstance(a, (list, tuple)):
                return isinstance(b, (list, tuple)) and len(a) == len(b) and all(same(p, q) for p, q in zip(a, b))
            return a is b or (type(a) is type(b) is wiring.FlippedInterface and a == b)
        for m in self.ms:
            if m["kind"] != "sig":
                continue
            before = getattr(obj, m["name"])
            ok, _ = self.guarded("setattr", lambda: setattr(fo, m["name"], deepflip(before)), " flipped(obj).%s = ..." % m["name"])
            if ok and not same(getattr(obj, m["name"]), before):
                self.bad("flipped_access", "setattr", "assigning the flipped sub-interface(s) to flipped(obj).%s does not "
                         "store the unflipped one(s) in obj" % m["name"])

    def make_arg(self, k, name, ms=None):
        if k == "D":
            return self.fdata.create(path=(name,))
        if ms is None:
            sig = self.sig
        else:
            sig = build_sig(self.root(ms))
        return (sig if k == "S" else sig.flip()).create(path=(name,))

    def leaf_signals(self, arg, paths, what):
        from amaranth.hdl import Signal, Const, Value
        out = {}
        for p in paths:
            ok, v = self.guarded("getattr", lambda: traverse(arg, p), " path %r of %s" % (p, what))
            if not ok:
                return None
            out[p] = v if isinstance(v, (Signal, Const)) else Value.cast(v)      # views -> the signal they wrap
        return out

    def check_connect(self, t, args, perm, out, sim, what, clause="connect", consts=None, paths=None):
        """connect(m, *[args[i] for i in perm]) against the outcome computed for the order args[0], args[1], ..."""
        from amaranth.hdl import Module, Signal, Const
        wiring = _lib()
        self.stats["connect_calls"] += 1
        if not isinstance(out, dict):
            out = dict(out)          # a record inside a TLA+ set is parsed into a tuple of (field, value) pairs
        m = Module()
        try:
            wiring.connect(m, *[args[i] for i in perm])
            err = None
        except wiring.ConnectionError as e:
            err = e
        except Exception as e:  # noqa: BLE001
            self.report_exc("connect", e, " " + what, clause="unexpected_exception" if clause == "connect" else clause)
            if clause == "connect":
                self.connect_broken = True
            return
        want_err = bool(out["errs"])
        if out["unspec"]:
            self.stats["unspecified"] += 1
            if err is not None:
                return
        elif (err is not None) != want_err:
            if want_err:
                self.bad(clause, "connect", "%s: connect returned normally, the specification requires ConnectionError %s"
                         % (what, sorted(out["errs"])), error="no_ConnectionError")
            else:
                self.bad(clause, "connect", "%s: ConnectionError(%s), the specification has no error" % (what, str(err)[:200]),
                         error="spurious_ConnectionError")
            return
        if err is not None:
            kind = classify(str(err))
            if kind is not None and kind not in out["errs"]:
                self.stats.setdefault("message_kind_differs", []).append((kind, sorted(out["errs"])))
            return
        # ---- ok: structure of the statements added to the module
        edges = {(e[0] - 1, e[1] - 1, pypath(e[2])) for e in out["edges"]}
        if paths is None:
            paths = sorted({l[0] for l in self.flat["S"]})
        sigs = []
        for i, a in enumerate(args):
            d = self.leaf_signals(a, paths, "argument %d of %s" % (i, what))
            if d is None:
                return
            sigs.append(d)
        where = {}
        for i, d in enumerate(sigs):
            for p, v in d.items():
                where[id(v)] = (i, p)
        got = set()
        stmts = list(m._statements.get("comb", [])) if hasattr(m, "_statements") else []
        if any(dom != "comb" for dom in getattr(m, "_statements", {})):
            self.bad(clause, "connect", "%s: connect added statements outside the comb domain" % what)
        for st in stmts:
            lhs, rhs = st.lhs, st.rhs
            li = where.get(id(lhs))
            ri = where.get(id(rhs))
            if ri is None and isinstance(rhs, Const) and consts:
                cand = [(i, p) for (i, p), c in consts.items() if c.value == rhs.value and li is not None and p == li[1]]
                ri = cand[0] if cand else None
            if li is None or ri is None or li[1] != ri[1]:
                self.bad(clause, "connect", "%s: unexpected statement %r" % (what, st))
                return
            got.add((ri[0], li[0], li[1]))
        if len(got) != len(stmts):
            self.bad(clause, "connect", "%s: a leaf is driven more than once: %r" % (what, stmts))
            return
        if not self.eq(clause, "connect", sorted(got, key=repr), sorted(edges, key=repr), what + ": (driver argument, driven argument, path) edges"):
            return
        if sim:
            self.simulate(m, sigs, edges, what, clause)

    def simulate(self, m, sigs, edges, what, clause):
        """pysim: every leaf that connect must not drive (outputs, unconnected inputs) is set, one at a time, to a value
        different from its current one; after each step every driven input must equal its driver (as read through its
        own shape) and every other leaf keeps its value.  A DriverConflict on ctx.set means connect drives a leaf it
        must not drive.  Constants cannot be set; inputs driven by a constant must read its value."""
        from amaranth.hdl import Signal, DriverConflict
        from amaranth.sim import Simulator
        self.stats["sims"] += 1
        driven = {(j, p): (i, p) for i, j, p in edges}
        leaves = [(i, p) for i, d in enumerate(sigs) for p in sorted(d, key=repr)]
        problems = []

        async def tb(ctx):
            def obj(k):
                return sigs[k[0]][k[1]]

            def read(k):
                return ctx.get(obj(k)) if isinstance(obj(k), Signal) else obj(k).value
            model = {k: (obj(k).init if isinstance(obj(k), Signal) else obj(k).value) for k in leaves if k not in driven}

            def check(when):
                for q in leaves:
                    want = cast_like(obj(q), model[driven[q]]) if q in driven else model[q]
                    got = read(q)
                    if got != want:
                        problems.append("%s: leaf %r reads %r, expected %r%s" % (
                            when, q, got, want, " (= its driver %r)" % (driven[q],) if q in driven else ""))
            check("before any stimulus")
            for k in leaves:
                if k in driven or not isinstance(obj(k), Signal) or len(problems) > 6:
                    continue
                new = cast_like(obj(k), model[k] + 1)
                try:
                    ctx.set(obj(k), new)
                except DriverConflict:
                    problems.append("leaf %r, which connect must not drive, is driven (DriverConflict on ctx.set)" % (k,))
                    continue
                model[k] = new
                check("after setting %r to %r" % (k, new))
        sim = Simulator(m)
        sim.add_testbench(tb)
        with warnings.catch_warnings():
            warnings.simplefilter("ignore")
            sim.run()
        if problems:
            self.bad("connect_dataflow" if clause == "connect" else clause, "simulate", "%s: %s" % (what, "; ".join(problems[:4])))

    def check_variants(self):
        from amaranth.hdl import Const, Signal, Shape
        exp = self.exp
        base_paths = sorted({l[0] for l in self.flat["S"]})
        # -- signature corruptions
        for v in sorted(exp.get("vars", ()), key=repr):
            t, a, mp, kind, flow, dims, w, s, init, out = v
            self.stats["variants"] += 1
            ms2 = edit_tree(self.ms, mp, kind, {"flow": flow, "dims": dims, "w": w, "s": s, "init": init})
            args = [self.make_arg(k, "a%d" % i, ms2 if i == a - 1 else None) for i, k in enumerate(t)]
            clause = "connect_dimension_mismatch" if kind == "dims" else "connect_corruption"
            what = "tuple %s with member %s of argument %d: %s%s" % (
                "".join(t), ".".join(mp), a - 1, kind,
                "" if kind == "remove" else " -> %s %s%d init=%d dims=%r" % (flow, "s" if s else "u", w, init, tuple(dims)))
            for perm in (tuple(range(len(t))), tuple(reversed(range(len(t))))):
                self.check_connect(t, args, perm, out, sim=True, what=what + " order %r" % (perm,), clause=clause,
                                   paths=base_paths)
        # -- constants
        shapes = {l[0]: (l[2], l[3]) for l in self.flat["S"]}
        for v in sorted(exp.get("cvars", ()), key=repr):
            path, inarg, cin, cout, out = v
            path = pypath(path)
            self.stats["variants"] += 1
            args = [self.make_arg("S", "a0"), self.make_arg("F", "a1")]
            consts = {}
            for i, c in ((inarg - 1, cin), (2 - inarg, cout)):
                if c >= 0:
                    consts[(i, path)] = Const(c, Shape(*shapes[path]))
                    set_leaf(args[i], path, consts[(i, path)])
            what = "tuple SF, leaf %r: input constant %s, output constant %s" % (path, cin if cin >= 0 else "-", cout if cout >= 0 else "-")
            for perm in ((0, 1), (1, 0)):
                self.check_connect(("S", "F"), args, perm, out, sim=True, what=what + " order %r" % (perm,),
                                   clause="connect_constant", consts=consts)
        # -- non-compliant objects
        for v in sorted(exp.get("ovars", ()), key=repr):
            path, impl, w, s, init, want = v
            path = pypath(path)
            obj = self.sig.create(path=("n",))
            if impl == "missing":
                if isinstance(path[-1], int):
                    continue
                delattr(traverse(obj, path[:-1]), path[-1])
            elif impl == "signal":
                set_leaf(obj, path, Signal(Shape(w, s), init=init))
            else:
                set_leaf(obj, path, Const(init, Shape(w, s)))
            self.stats["variants"] += 1
            ok, got = self.guarded("is_compliant", lambda: self.sig.is_compliant(obj))
            if ok:
                self.eq("is_compliant_corruption", "is_compliant", got, want,
                        "is_compliant of a created object whose leaf %r is replaced by %s %s%d init/value %d"
                        % (path, impl, "s" if s else "u", w, init))

    def check_quiet(self):
        """tuples in which one port member is an input on every argument (a path nobody drives): the compliant one
        must connect the other paths and leave that leaf alone; a different width / initial value of that member on
        one argument must be refused"""
        base_paths = sorted({l[0] for l in self.flat["S"]})
        for v in sorted(self.exp.get("qvars", ()), key=repr):
            t, mp, kind, a, mem, out = v
            self.stats["variants"] += 1
            self.stats["quiet"] = self.stats.get("quiet", 0) + 1
            n = len(t)
            orders = [tuple(range(n)), tuple(reversed(range(n)))] + ([(1, 2, 0)] if n == 3 else [])
            desc = ", ".join("arg%d %s %s%d init=%d" % (i, f[0], "s" if f[3] else "u", f[2], f[4]) for i, f in enumerate(mem))
            what = "tuple %s with member %s an input on every argument (declared: %s)%s" % (
                "".join(t), ".".join(mp), desc, "" if not a else ", argument %d differs in %s" % (a - 1, kind))
            for perm in orders:
                args = [self.make_arg(k, "a%d" % i, edit_tree(self.ms, mp, "attrs", {
                    "flow": mem[i][0], "dims": mem[i][1], "w": mem[i][2], "s": mem[i][3], "init": mem[i][4]}))
                    for i, k in enumerate(t)]
                self.check_connect(t, args, perm, out, sim=True, what=what + " order %r" % (perm,),
                                   clause="connect_no_output_leaf", paths=base_paths)

    def check_swaps(self):
        """an interface created from sig whose sub-interface at one path is replaced by flipped(that sub-interface):
        is_compliant and connect (both argument orders) against the specification"""
        wiring = _lib()
        for v in sorted(self.exp.get("swaps", ()), key=repr):
            path, want, out = pypath(v[0]), v[1], v[2]
            self.stats["variants"] += 1
            self.stats["swaps"] = self.stats.get("swaps", 0) + 1
            what = "sig.create() with the sub-interface at %r replaced by its flipped version" % (path,)
            for perm in ((0, 1), (1, 0)):
                obj = self.sig.create(path=("a0",))
                ok, _ = self.guarded("setattr", lambda: set_leaf(obj, path, wiring.flipped(traverse(obj, path))), " " + what)
                if not ok:
                    return
                if perm == (0, 1):
                    ok, got = self.guarded("is_compliant", lambda: self.sig.is_compliant(obj), " " + what)
                    if ok:
                        self.eq("wrong_way_sub_interface", "is_compliant", got, want, "is_compliant of " + what)
                args = [obj, self.fsig.create(path=("a1",))]
                self.check_connect(("S", "F"), args, perm, out, sim=True, what="connect of %s and sig.flip().create(), order %r"
                                   % (what, perm), clause="wrong_way_sub_interface")

    def check_metadata(self, k, sig):
        wiring = _lib()

        class C(wiring.Component):
            def __init__(self):
                super().__init__(sig)
        self.stats["metadata"] += 1
        what = "Component(%s).metadata.as_json()" % ("sig" if k == "S" else "sig.flip()")
        comp = C()
        try:
            js = comp.metadata.as_json()
        except Exception as e:  # noqa: BLE001
            self.report_exc("metadata", e, " " + what, clause="metadata_raises")
            return
        leaves = []

        def walk(node, path):
            if isinstance(node, list):
                for i, e in enumerate(node):
                    walk(e, path + (i,))
            elif node.get("type") == "port":
                leaves.append((path, {"in": "In", "out": "Out"}.get(node.get("dir")), node.get("width"), node.get("signed"),
                               int(node.get("init", "x")) if re.fullmatch(r"[+-]?\d+", str(node.get("init"))) else node.get("init")))
                if node.get("name") != "__".join(map(str, path)):
                    self.bad("metadata", "metadata", "%s: port at %r is named %r" % (what, path, node.get("name")))
            else:
                for name, sub in node["members"].items():
                    walk(sub, path + (name,))
        try:
            walk({"members": js["interface"]["members"]}, ())
        except Exception as e:  # noqa: BLE001
            self.bad("metadata", "metadata", "%s: malformed JSON (%s): %r" % (what, e, js))
            return
        self.eq("metadata", "metadata", sorted(leaves), sorted(self.flat[k]), what + " leaves (path, dir, width, signed, init)")
        # the specification's leafmeta records, literally, and the ports the component really has
        want = sorted((pypath(l[0]), l[1], l[2], l[3], l[4]) for l in self.exp.get("leafmeta" + k, ()))
        got = sorted((p, {"In": "in", "Out": "out"}.get(d), w, sg, i) for p, d, w, sg, i in leaves)
        if "leafmeta" + k in self.exp:
            self.eq("metadata", "metadata", got, want, what + " leaves vs leafmeta (path, dir, width, signed, init)")
        from amaranth.hdl import Value
        for p, d, w, sg, i in leaves:
            ok, port = self.guarded("getattr", lambda: Value.cast(traverse(comp, p)), " port %r of the component" % (p,))
            if not ok:
                return
            self.eq("metadata_vs_signal", "metadata", (w, sg, i), (len(port), port.shape().signed, port.init),
                    "%s port %r (width, signed, init) vs the component's own Signal" % (what, p))
        valid = schema_valid(js)
        if valid is not None:
            self.eq("metadata_schema", "metadata", valid, True, what + " validates against ComponentMetadata.schema (jschon)")


def cast_like(v, x):
    """value x as read through signal/const v (two's complement wrap to v's shape)"""
    sh = v.shape()
    x &= (1 << sh.width) - 1
    if sh.signed and sh.width and x >> (sh.width - 1):
        x -= 1 << sh.width
    return x


_MSG_KINDS = (("is present in", "missing_member"), ("shape widths", "width_mismatch"), ("initial values do not match", "init_mismatch"),
              ("several output members", "multiple_outputs"), ("varying value", "const_varying"),
              ("different constant value", "const_mismatch"), ("Only input to input", "inputs_only"),
              ("Cannot connect signature member", "missing_member"))


def classify(msg):
    for pat, kind in _MSG_KINDS:
        if pat in msg:
            return kind
    return None


_SCHEMA = []


def schema_valid(js):
    """independent validation of the JSON against the published schema; None when jschon is unavailable"""
    if not _SCHEMA:
        try:
            import jschon
            wiring = _lib()
            with warnings.catch_warnings():
                warnings.simplefilter("ignore")
                cat = jschon.create_catalog("2020-12")
                _SCHEMA.append((jschon, jschon.JSONSchema(copy.deepcopy(wiring.ComponentMetadata.schema), catalog=cat)))
        except Exception:  # noqa: BLE001
            _SCHEMA.append(None)
    if _SCHEMA[0] is None:
        return None
    jschon, schema = _SCHEMA[0]
    with warnings.catch_warnings():
        warnings.simplefilter("ignore")
        return bool(schema.evaluate(jschon.JSON(js)).valid)


def test_state(ms, exp, opts):
    t = Tester(ms, exp, opts)
    try:
        t.run()
    except Exception as e:  # noqa: BLE001 -- a crash of the harness on one state is a machinery failure
        import traceback
        raise MachineryError("harness failure on Signature(%s):\n%s" % (tree_repr(ms), traceback.format_exc())) from e
    return t


# ------------------------------------------------------------------------------------------------
# dump handling (parallel: byte ranges of the dump file)
# ------------------------------------------------------------------------------------------------
def split_dump(path, parts):
    size = os.path.getsize(path)
    offs = [0]
    with open(path, "rb") as f:
        for k in range(1, parts):
            f.seek(size * k // parts)
            f.readline()
            while True:
                pos = f.tell()
                ln = f.readline()
                if not ln or ln.startswith(b"State "):
                    break
            if ln and pos > offs[-1]:
                offs.append(pos)
    offs.append(size)
    return [(path, a, b) for a, b in zip(offs, offs[1:]) if b > a]


def iter_states(path, a, b):
    with open(path, "rb") as f:
        f.seek(a)
        text = f.read(b - a).decode()
    for blk in re.split(r"(?m)^State \d+:.*\n", text):
        if "done |-> TRUE" not in blk:
            if blk.strip():
                yield None
            continue
        yield tlaval.parse_conj(blk)


def has_dim_sub(ms):
    return tree_has(ms, lambda m: m["kind"] == "sig" and len(m["dims"]) > 0)


def _chunk(job):
    (path, a, b), opts = job
    res = {"closed": 0, "open": 0, "viol": [], "nviol": 0, "stats": {}, "fps": [], "last": {"AddPort": 0, "CloseSub": 0},
           "dim_sub": 0, "nontrivial": 0, "keys": {}, "sample": None, "msgdiff": []}
    per_key = {}
    for st in iter_states(path, a, b):
        if st is None:
            res["open"] += 1
            continue
        ms = st["stack"][0]["ms"]
        exp = st["exp"]
        res["closed"] += 1
        if ms:
            res["last"]["AddPort" if ms[-1]["kind"] == "port" else "CloseSub"] += 1
        o = {k: v for k, v in opts.items() if k != "demo"}
        fp = hash(tree_repr(ms)) & 0xFFFFFFFF
        o["metadata"] = opts["metadata_every"] > 0 and fp % opts["metadata_every"] == 0
        t = test_state(ms, exp, o)
        res["fps"].append(fp)
        if exp["nleaves"] > 0:
            res["nontrivial"] += 1
        if has_dim_sub(ms):
            res["dim_sub"] += 1
        for k, v in t.stats.items():
            if isinstance(v, int):
                res["stats"][k] = res["stats"].get(k, 0) + v
        res["msgdiff"].extend(t.stats.get("message_kind_differs", [])[:2])
        for key, desc in t.viol:
            res["nviol"] += 1
            kk = repr(sorted(key.items()))
            res["keys"][kk] = res["keys"].get(kk, 0) + 1
            if per_key.get(kk, 0) < 2:
                per_key[kk] = per_key.get(kk, 0) + 1
                res["viol"].append((key, desc, {"ms": ms, "exp": exp, "opts": o}))
        if res["sample"] is None and exp["nleaves"] >= 2 and not t.viol:
            res["sample"] = {"signature": tree_repr(ms), "flatten": [list(l) for l in exp["flatS"]],
                             "connect_SF_edges": sorted(map(list, exp["conn"][0]["edges"]), key=repr)}
    res["msgdiff"] = res["msgdiff"][:5]
    return res


def run_tlc(ctx, name, cfg_text, opts):
    dump = os.path.join(ctx.tmp, "dump_" + name)
    kw = {}
    module = "Wiring"
    if opts.get("demo") is not None:
        # the same model, plus the expectation of the binding-demo tree printed at start-up (saves a JVM)
        module = "WiringDemo"
        kw["extra_files"] = {"WiringDemo.tla": "---- MODULE WiringDemo ----\nEXTENDS Wiring\nDemo == %s\n"
                             "ASSUME PrintT(Expect(Demo, \"anon\"))\n====\n" % tlaval.to_tla(_tla_ms(opts["demo"]))}
    r = ctx.tlc(module, stage="mc/" + name, cfg_text=cfg_text, workers=opts.get("workers", 4),
                args=("-deadlock", "-dump", dump) + (("-coverage", "1") if opts.get("coverage") else ()), **kw)
    if opts.get("coverage"):
        ctx.require_actions(r, ["AddPort", "OpenSub", "CloseSub"], "mc/" + name)
    return r, dump + ".dump"


def replay_dump(ctx, name, r, path, opts):
    jobs = [(c, opts) for c in split_dump(path, 64 if os.path.getsize(path) > (1 << 20) else 8)]
    results = pmap(_chunk, jobs)
    os.unlink(path)
    shown = ctx.__dict__.setdefault("_c14_shown", {})
    rest = ctx.__dict__.setdefault("_c14_rest", {})
    forwarded = {}
    tot = {"closed": 0, "open": 0, "nviol": 0, "dim_sub": 0, "nontrivial": 0}
    stats, keys, last = {}, {}, {"AddPort": 0, "CloseSub": 0}
    fps = set()
    for res in results:
        for k in tot:
            tot[k] += res[k]
        for k, v in res["stats"].items():
            stats[k] = stats.get(k, 0) + v
        for k, v in res["keys"].items():
            keys[k] = keys.get(k, 0) + v
        for k, v in res["last"].items():
            last[k] += v
        fps.update(res["fps"])
        for key, desc, rep in res["viol"]:
            kk = repr(sorted(key.items()))
            if shown.get(kk, 0) < 2:          # the first occurrences carry the description and the replay
                shown[kk] = shown.get(kk, 0) + 1
                ctx.violation(key, desc, replay=rep)
                forwarded[kk] = forwarded.get(kk, 0) + 1
        if res["sample"]:
            ctx.sample({"config": name, **res["sample"]})
        for md in res["msgdiff"]:
            note = "error message kind %s outside the specification's kinds %s (not a verdict)" % (md[0], md[1])
            if note not in ctx.notes and len(ctx.notes) < 10:
                ctx.notes.append(note)
    for res in results:
        for key, desc, rep in res["viol"]:
            rest.setdefault(repr(sorted(key.items())), [key, 0])
    for kk, n in keys.items():
        if kk in rest:
            rest[kk][1] += n - forwarded.get(kk, 0)
    if tot["closed"] + tot["open"] != r.distinct:
        raise MachineryError("mc/%s: dump has %d states, TLC reported %d" % (name, tot["closed"] + tot["open"], r.distinct))
    # vacuity: every builder action produced tested states
    if tot["closed"] < 2 or last["AddPort"] == 0 or (tot["open"] and (last["CloseSub"] == 0)):
        raise MachineryError("mc/%s: vacuous enumeration %r %r" % (name, tot, last))
    if stats.get("connect_calls", 0) == 0 or stats.get("sims", 0) == 0:
        raise MachineryError("mc/%s: no connect / simulation was executed: %r" % (name, stats))
    ctx.add_cases(tot["closed"], 0)
    ctx.cov["traces_validated_against_impl"] += tot["closed"]
    st = ctx.cov["stages"].setdefault("replay/" + name, {})
    st.update({"states_replayed": tot["closed"], "open_builder_states": tot["open"], "with_leaves": tot["nontrivial"],
               "with_dimensioned_sub_signature": tot["dim_sub"], "violations": tot["nviol"],
               "violation_keys": keys, **stats})
    return tot, stats, fps


DEMO_MS = ({"name": "p", "flow": "In", "dims": (), "kind": "sig", "w": 0, "s": False, "init": 0,
            "sub": {"fl": False, "nm": "anon", "id": 0,
                    "ms": ({"name": "a", "flow": "In", "dims": (2,), "kind": "port", "w": 2, "s": True,
                            "init": 1, "sub": {"fl": False, "nm": "anon", "id": 0, "ms": ()}},)}},)


def plans_for(th):
    """(name, cfg, options).  P = port variants, S = sub-signature variants per member slot."""
    P = []
    # every leaf attribute x dimension x flow, flat signatures
    P.append(("leaves", cfg(1, 2, 2, "DimsAll", "DimsNone", "AttrsAll", "FlipsNo"),
              {"metadata_every": 2 if th else 8}))
    # ... and every single-point corruption of every kind of leaf
    P.append(("leaves-corrupt", cfg(1, 1, 1, "DimsAll", "DimsNone", "AttrsAll", "FlipsNo", variants=True, triples=True),
              {"metadata_every": 1, "workers": 2, "demo": DEMO_MS}))
    if not th:
        # nesting x dimensioned sub-signatures x In/Out x explicit flips, with all corruptions
        P.append(("nested-corrupt", cfg(2, 2, 2, "DimsTwo", "DimsAll", "AttrsOne", "FlipsBoth", variants=True, swaps=True),
                  {"coverage": True, "metadata_every": 2, "workers": 4}))
        # named signatures (subclass instances compared by identity / with a structural __eq__) at the top level
        # and as members, the same object reused plain and flipped; wrongly oriented sub-interfaces
        P.append(("named", cfg(2, 2, 3, "DimsNone", "DimsTwo", "AttrsOne", "FlipsNo", swaps=True, rootnm="NmAll",
                               subnm="NmNamed"),
                  {"metadata_every": 8, "workers": 4}))
        # a path that no argument drives (input everywhere), at nested / dimensioned positions, with its corruptions
        P.append(("undriven", cfg(2, 2, 3, "DimsTwo", "DimsTwo", "AttrsOne", "FlipsNo", quiet=True),
                  {"metadata_every": 0, "workers": 4}))
        P.append(("nested", cfg(3, 2, 3, "DimsNone", "DimsTwo", "AttrsOne", "FlipsBoth"),
                  {"metadata_every": 16, "workers": 8}))
        # ports shaped by aggregates (layouts, Struct classes with field defaults, shaped enums), initial value
        # given as None / dict / constant: metadata of every such tree
        P.append(("aggregates", cfg(2, 2, 2, "DimsTwo", "DimsTwo", "AttrsNone", "FlipsBoth", aggs="AggFew"),
                  {"metadata_every": 1, "workers": 4}))
    else:
        P.append(("aggregates", cfg(3, 2, 2, "DimsTwo", "DimsTwo", "AttrsOne", "FlipsBoth", aggs="AggAll"),
                  {"metadata_every": 1, "workers": 8}))
        P.append(("leaves2-corrupt", cfg(1, 2, 2, "DimsAll", "DimsNone", "AttrsFew", "FlipsNo", variants=True, triples=True,
                                         quiet=True),
                  {"metadata_every": 1, "workers": 4}))
        P.append(("nested-corrupt", cfg(3, 2, 3, "DimsNone", "DimsTwo", "AttrsFew", "FlipsBoth", variants=True, quiet=True),
                  {"metadata_every": 8, "workers": 8}))
        # a path that no argument drives (input everywhere), at nested / dimensioned positions, with its corruptions
        P.append(("undriven", cfg(2, 2, 3, "DimsTwo", "DimsAll", "AttrsOne", "FlipsBoth", quiet=True, triples=True),
                  {"metadata_every": 0, "workers": 8}))
        P.append(("nested-corrupt-dims", cfg(2, 2, 2, "DimsTwo", "DimsAll", "AttrsFew", "FlipsBoth", variants=True, triples=True,
                                             swaps=True),
                  {"coverage": True, "metadata_every": 1, "workers": 4}))
        # named signatures (subclass instances compared by identity / with a structural __eq__) at the top level
        # and as members, the same object reused plain and flipped; wrongly oriented sub-interfaces
        P.append(("named", cfg(2, 2, 3, "DimsNone", "DimsTwo", "AttrsOne", "FlipsBoth", swaps=True, rootnm="NmAll",
                               subnm="NmAll"),
                  {"metadata_every": 32, "workers": 8}))
        P.append(("named-deep", cfg(3, 2, 3, "DimsNone", "DimsTwo", "AttrsOne", "FlipsNo", swaps=True, rootnm="NmAll",
                                    subnm="NmNamed"),
                  {"metadata_every": 32, "workers": 8}))
        P.append(("named-deep2", cfg(3, 2, 2, "DimsNone", "DimsTwo", "AttrsOne", "FlipsBoth", swaps=True, rootnm="NmAll",
                                     subnm="NmAll"),
                  {"metadata_every": 32, "workers": 4}))
        P.append(("named-corrupt", cfg(2, 2, 2, "DimsTwo", "DimsTwo", "AttrsOne", "FlipsBoth", variants=True, quiet=True,
                                       swaps=True, rootnm="NmNamed", subnm="NmNamed"),
                  {"metadata_every": 4, "workers": 4}))
        P.append(("nested", cfg(3, 2, 4, "DimsNone", "DimsTwo", "AttrsOne", "FlipsBoth"),
                  {"metadata_every": 64, "workers": 8}))
        P.append(("nested-attrs", cfg(2, 2, 3, "DimsAll", "DimsAll", "AttrsFew", "FlipsBoth"),
                  {"metadata_every": 16, "workers": 8}))
        P.append(("wide", cfg(2, 3, 3, "DimsTwo", "DimsTwo", "AttrsFew", "FlipsNo"),
                  {"metadata_every": 8, "workers": 4}))
    return P


def run(ctx):
    from concurrent.futures import ThreadPoolExecutor
    th = ctx.thorough
    # import everything the workers need before they are forked
    import amaranth.sim  # noqa: F401
    import amaranth.lib.wiring  # noqa: F401
    schema_valid({"interface": {"members": {}, "annotations": {}}})
    plans = [(n, c, {"sim_all": th, **o}) for n, c, o in plans_for(th)]
    fps = set()
    demo_ms = DEMO_MS
    demo = None

    def small_runs():
        # mutants: seeded specification errors must violate the theorems
        ctx.tlc("Wiring", stage="mutant/no_flip_into_dimensioned_sub", workers=2, count=False,
                cfg_text=cfg(2, 2, 2, "DimsTwo", "DimsTwo", "AttrsOne", "FlipsNo", mutant="no_flip_into_dimensioned_sub",
                             invariants=["FlipReverses"]),
                args=("-deadlock",), expect_violation="FlipReverses")
        ctx.tlc("Wiring", stage="mutant/named_flip_is_noop", workers=2, count=False,
                cfg_text=cfg(2, 2, 2, "DimsNone", "DimsNone", "AttrsOne", "FlipsNo", rootnm="NmAll", subnm="NmNamed",
                             mutant="named_flip_is_noop", invariants=["NeverOwnFlip"]),
                args=("-deadlock",), expect_violation="NeverOwnFlip")
        ctx.tlc("Wiring", stage="mutant/first_argument_drives", workers=2, count=False,
                cfg_text=cfg(1, 2, 1, "DimsTwo", "DimsNone", "AttrsOne", "FlipsNo", mutant="first_argument_drives",
                             invariants=["PermInvariant"]),
                args=("-deadlock",), expect_violation="PermInvariant")

    with ThreadPoolExecutor(3) as ex:
        small = ex.submit(small_runs)
        futs = [ex.submit(run_tlc, ctx, n, c, o) for n, c, o in plans]
        for (name, text, opts), fu in zip(plans, futs):
            r, path = fu.result()
            if opts.get("demo") is not None:
                vals = [v for v in r.printed() if v.lstrip().startswith("[") and "flatS" in v]
                if not vals:
                    raise MachineryError("binding demo: TLC printed no expectation:\n" + r.out[-1500:])
                demo = tlaval.parse(vals[0])
                for k in ("vars", "cvars", "ovars", "qvars", "swaps"):      # the demonstration uses the compliant tuples only
                    demo[k] = frozenset()
            tot, stats, f = replay_dump(ctx, name, r, path, opts)
            fps |= f
        small.result()
    ctx.cov["_extra_distinct"] = len(fps)
    for kk, (key, n) in sorted(ctx.__dict__.get("_c14_rest", {}).items()):
        for _ in range(n):                     # the remaining occurrences: counted, not described
            ctx.violation(key, "(further occurrence of %s)" % kk, replay=None)

    # ---------------- binding demonstration: a corrupted expectation must be rejected --------------
    good = test_state(demo_ms, demo, {"sim_all": True, "metadata": True})
    rejected = []
    if good.viol:
        # the library disagrees with the specification on the demo tree itself: that is a finding (the tree is
        # also among the enumerated states), and the demonstration cannot be made on it
        for key, desc in good.viol[:3]:
            ctx.violation(key, desc, replay={"ms": demo_ms, "exp": demo, "opts": {"sim_all": True, "metadata": True}})
        ctx.notes.append("binding demo skipped: the real library already violates the expectation of the demo tree")
    for what, mut in () if good.viol else (("flatten flow", lambda e: e.__setitem__("flatS", (tuple(e["flatS"][0][:1]) + ("In",) + tuple(e["flatS"][0][2:]),) + tuple(e["flatS"][1:]))),
                      ("connect edge direction", lambda e: e["conn"].__setitem__(0, {**e["conn"][0], "edges": frozenset(
                          (x[1], x[0], x[2]) for x in e["conn"][0]["edges"])})),
                      ("connect error expected", lambda e: e["conn"].__setitem__(0, {**e["conn"][0], "errs": frozenset(["width_mismatch"]), "edges": frozenset()}))):
        e2 = copy.deepcopy(demo)
        e2["conn"] = list(e2["conn"])
        mut(e2)
        bad = test_state(demo_ms, e2, {"sim_all": False, "metadata": True})
        if not bad.viol:
            raise MachineryError("binding demo: corrupted expectation (%s) was accepted" % what)
        rejected.append(what)
    ctx.cov["stages"]["binding-demo"] = {"corrupted_expectations_rejected": rejected}

    ctx.cov["exhaustive"] = True
    ctx.cov["rule"] = ("cases = closed states of the Wiring builder (one signature tree each) replayed on the real library: "
                       "flip/equality, create, flatten, is_compliant, sub-interface access through flipped(), connect on 5 "
                       "tuples x all argument orders (statement structure + pysim data flow), single-point corruptions, "
                       "component metadata; distinct = distinct trees")
    ctx.assume("bounds: see the stage configurations (depth, members, dimensions {(),(2),(2,1)}, shapes {u1,u2,s2}, inits {0,1})")
    ctx.assume("connect outcomes where no connection at all is made (no ports; all inputs constant) are unspecified by the "
               "documentation and accepted either way")
    ctx.assume("the order in which flatten yields leaves is not specified; compared as multisets")
    ctx.assume("error messages are not compared; only ConnectionError vs normal return")
    ctx.assume("component metadata (jschon validation costs ~20 ms) is checked on a deterministic subset of the larger "
               "configurations")


def _tla_ms(ms):
    return [{**m, "dims": list(m["dims"]), "sub": {"fl": m["sub"]["fl"], "nm": m["sub"].get("nm", "anon"),
                                                   "id": m["sub"].get("id", 0), "ms": _tla_ms(m["sub"]["ms"])}} for m in ms]


def _thaw(v):
    """replay JSON -> the shapes test_state expects"""
    if isinstance(v, list):
        return tuple(_thaw(x) for x in v)
    if isinstance(v, dict):
        return {k: _thaw(x) for k, x in v.items()}
    return v


def replay(ctx, rep):
    r = rep["replay"]
    ms = _thaw(r["ms"])
    exp = _thaw(r["exp"])
    for k in ("nodesS", "nodesF", "vars", "cvars", "ovars", "qvars", "swaps"):
        exp[k] = frozenset(exp.get(k, ()))
    exp["conn"] = [{"errs": frozenset(c["errs"]), "edges": frozenset(c["edges"]), "unspec": c["unspec"]} for c in exp["conn"]]

    def fix(v):      # outcome records nested in variant tuples
        return tuple({"errs": frozenset(x["errs"]), "edges": frozenset(x["edges"]), "unspec": x["unspec"]}
                     if isinstance(x, dict) and "errs" in x else x for x in v)
    for k in ("vars", "cvars", "qvars", "swaps"):
        exp[k] = frozenset(fix(v) for v in exp[k])
    t = test_state(ms, exp, r.get("opts") or {"sim_all": True, "metadata": True})
    print("Signature(%s)" % tree_repr(ms))
    keys = []
    for key, desc in t.viol:
        if key not in keys:
            keys.append(key)
            print("  %r\n    %s" % (key, desc[:600]))
    if t.viol:
        print("VIOLATION property=C14 replay=(same)")
        return 1
    print("replay: no violation")
    return 0
