"""C12 — synchronous FIFOs refine a bounded queue for every strobe sequence.

spec:   FifoObs (contract), Fifo (abstract queue), FifoImpl (implementation-structured models),
        FifoTrace (validation of executions of the real SyncFIFO / SyncFIFOBuffered).
stages: mc        TLC: FifoImpl => contract over the full reachable graph (all strobe sequences),
                  Fifo's own theorems, a mutant that must fail (non-vacuity)
        tours     every edge of FifoImpl's graph replayed on the real FIFO (spec -> code)
        random    long seeded random walks on larger parameters (code -> spec)
        binding   a corrupted recorded trace must be rejected
Verdicts come from FifoTrace only (property-level contract)."""
import os
import random
from concurrent.futures import ThreadPoolExecutor

from ..common import pmap, MachineryError
from .. import tours, tracecheck

LEVEL = "model_checking"

CFG_IMPL = """SPECIFICATION Spec
CONSTANTS Depth = {depth}
 Data = {{0, 1}}
 Variant = "{variant}"
 MaxHist = {hist}
 Mutant = "{mutant}"
INVARIANT ObsAllowed
INVARIANT ReadLive
INVARIANT FifoOrder
INVARIANT NothingLost
INVARIANT Mapping
CONSTRAINT Constr
"""

CFG_ABS = """SPECIFICATION Spec
CONSTANTS Depth = {depth}
 Data = {{0, 1}}
 Variant = "{variant}"
 MaxHist = {hist}
INVARIANT FifoOrder
INVARIANT NothingLost
INVARIANT Bounded
INVARIANT ReadsAreHeads
PROPERTY NoDropOnRead
CONSTRAINT Constr
"""


def _replay(job):
    from .. import fifo_drive
    variant, width, depth, inputs = job
    return fifo_drive.run_sync(variant, width, depth, inputs)


def _random_job(job):
    from .. import fifo_drive
    variant, width, depth, n, seed = job
    rng = random.Random(seed)
    inputs = fifo_drive.random_inputs(rng, n, width)
    return fifo_drive.run_sync(variant, width, depth, inputs)


def _label_inputs(lab):
    name, args = tours.parse_action(lab)
    return (int(args[0]), int(args[1]), int(args[2]))


def run(ctx):
    th = ctx.thorough
    depths_mc = [0, 1, 2, 3, 4, 5, 6, 8] if th else [0, 1, 2, 3, 4, 5]
    depths_tour = [1, 2, 3, 4, 5] if th else [1, 2, 3]

    # ---------------- mc: the design refines the contract, exhaustively ------------------------
    jobs = []
    for variant in ("sync", "buffered"):
        for d in depths_mc:
            jobs.append(("FifoImpl", "mc/impl-%s-d%d" % (variant, d),
                         CFG_IMPL.format(depth=d, variant=variant, hist=0, mutant=""), None))
        for d in ([1, 2, 3] if th else [2]):
            jobs.append(("FifoImpl", "mc/impl-hist-%s-d%d" % (variant, d),
                         CFG_IMPL.format(depth=d, variant=variant, hist=6 if th else 4, mutant=""), None))
        jobs.append(("Fifo", "mc/abstract-%s" % variant,
                     CFG_ABS.format(depth=2, variant=variant, hist=3 if th else 2), None))
    jobs.append(("FifoImpl", "mc/mutant-wrdy", CFG_IMPL.format(depth=2, variant="sync", hist=0, mutant="wrdy_at_full"),
                 "ObsAllowed"))

    def one(j):
        mod, stage, cfg, expect = j
        return ctx.tlc(mod, stage=stage, cfg_text=cfg, workers=2, expect_violation=expect,
                       count=expect is None, args=("-coverage", "1") if expect is None else ())
    with ThreadPoolExecutor(8) as ex:
        results = list(ex.map(one, jobs))
    for j, r in zip(jobs, results):
        if j[3] is None and j[0] == "FifoImpl":
            ctx.require_actions(r, ["Cycle"], j[1])

    # ---------------- tours: every edge of the model's graph on the real FIFO ------------------
    traces = []
    meta = []
    tour_jobs = []
    for variant in ("sync", "buffered"):
        for d in depths_tour:
            dot = os.path.join(ctx.tmp, "g_%s_%d" % (variant, d))
            ctx.tlc("FifoImpl", stage="tours/graph-%s-d%d" % (variant, d), count=False, workers=4,
                    cfg_text=CFG_IMPL.format(depth=d, variant=variant, hist=0, mutant=""),
                    args=("-dump", "dot,actionlabels", dot))
            g = tours.load_dot(dot + ".dot")
            walks = tours.covering_walks(g, max_len=300)
            st = ctx.cov["stages"]["tours/graph-%s-d%d" % (variant, d)]
            st.update({"graph_nodes": len(g.out), "graph_edges": g.n_edges, "walks": len(walks),
                       "walk_steps": sum(len(w) for _, w in walks)})
            for _, w in walks:
                inputs = [_label_inputs(lab) for lab, _ in w]
                for width in ((1, 3) if th else (1,)):
                    tour_jobs.append((variant, width, d, inputs))
            os.unlink(dot + ".dot")
    for job, steps in zip(tour_jobs, pmap(_replay, tour_jobs)):
        traces.append({"variant": job[0], "depth": job[2], "k": 0, "steps": steps})
        meta.append({"class": job[0], "width": job[1], "depth": job[2], "driver": "tour", "inputs": job[3]})
        ctx.case(("tour", job[0], job[1], job[2], tuple(job[3])), nontrivial=len(steps) > 3)

    # ---------------- random walks on larger parameters ----------------------------------------
    rjobs = []
    n_walks, n_cycles = (40, 1000) if th else (6, 250)
    for variant in ("sync", "buffered"):
        for depth in ([0, 1, 2, 3, 4, 5, 7, 8, 16, 31] if th else [0, 1, 2, 3, 5, 8, 16]):
            for width in ([0, 1, 3, 8] if th else [0, 2, 8]):
                for k in range(n_walks if width else 1):
                    rjobs.append((variant, width, depth, n_cycles, ctx.rng.getrandbits(48)))
    for job, steps in zip(rjobs, pmap(_random_job, rjobs, chunksize=4)):
        traces.append({"variant": job[0], "depth": job[2], "k": 0, "steps": steps})
        meta.append({"class": job[0], "width": job[1], "depth": job[2], "driver": "random", "seed": job[4], "cycles": job[3]})
        full = any(s[5] == 0 for s in steps)
        empty_again = any(s[6] == 1 for s in steps)
        ctx.case(("rand", job), nontrivial=full and empty_again)

    verdicts = tracecheck.validate(ctx, "FifoTrace", traces, "sync-fifo")
    for v, m, t in zip(verdicts, meta, traces):
        if v[0] == "REJ":
            step, clause = v[1], v[2]
            key = {"class": m["class"], "depth": m["depth"], "width": m["width"], "clause": clause}
            ctx.violation(key, "%s(width=%d, depth=%d): clause %s broken at cycle %d (driver %s); observed %r" % (
                m["class"], m["width"], m["depth"], clause, step, m["driver"], t["steps"][max(0, step - 3):step]),
                replay={"meta": m, "trace": t, "step": step, "clause": clause})
    ctx.sample({"meta": {k: v for k, v in meta[0].items() if k != "inputs"}, "first_steps": traces[0]["steps"][:6],
                "step_format": "wedge,redge,w_en,w_data,r_en,w_rdy,r_rdy,r_data,level,r_level,w_level"})
    ctx.sample({"meta": meta[-1], "first_steps": traces[-1]["steps"][:6]})

    # ---------------- binding demonstration: a corrupted trace must be rejected ----------------
    good = next((t for t, v in zip(traces, verdicts) if v[0] == "ACC" and len(t["steps"]) > 8 and t["depth"] > 1), None)
    if good is not None:
        bad1 = {**good, "steps": [list(s) for s in good["steps"]]}
        bad1["steps"][5][8] += 1                       # level off by one
        bad2 = {**good, "steps": [list(s) for s in good["steps"]]}
        for s in bad2["steps"]:                        # a hook that never reports accepted reads' data
            if s[6] == 1:
                s[7] ^= 1
        vs = tracecheck.validate(ctx, "FifoTrace", [bad1, bad2], "binding-demo", count_states=False)
        ctx.cov["traces_validated_against_impl"] -= 2
        if vs[0][0] != "REJ" or (vs[1][0] != "REJ" and any(s[6] for s in bad2["steps"])):
            raise MachineryError("binding demo: corrupted traces were accepted: %r" % (vs,))
        ctx.cov["stages"]["binding-demo/validate"]["corrupted_rejected"] = [list(map(str, v)) for v in vs]

    ctx.cov["exhaustive"] = False
    ctx.cov["rule"] = ("cases = executions of the real FIFO (tour walks covering every edge of the FifoImpl graph for "
                       "depth<=%d, plus seeded random walks); non-trivial = the walk both fills the queue (w_rdy low) "
                       "and delivers data (r_rdy high), or a tour with >3 cycles" % max(depths_tour))
    ctx.assume("r_data is compared only while r_rdy is asserted")
    ctx.assume("TLC model checking uses data values {0,1} (data independence) and depths <= %d" % max(depths_mc))


def replay(ctx, rep):
    from .. import fifo_drive
    r = rep["replay"]
    m = r["meta"]
    if m["driver"] == "tour":
        steps = fifo_drive.run_sync(m["class"], m["width"], m["depth"], [tuple(x) for x in m["inputs"]])
    else:
        steps = _random_job((m["class"], m["width"], m["depth"], m["cycles"], m["seed"]))
    vs = tracecheck.validate(ctx, "FifoTrace", [{"variant": m["class"], "depth": m["depth"], "k": 0, "steps": steps}], "replay")
    print("replay verdict:", vs[0])
    if vs[0][0] == "REJ":
        print("VIOLATION property=C12 replay=(same)")
        return 1
    return 0
