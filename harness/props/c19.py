"""C19 -- resource requests map pins one-to-one; constraint files name the right pin.

spec:   ResMgrOps (the contract: Outcome / ports / Constraints over a platform table),
        ResMgr (state machine over all request histories of a batch of tables; invariants OneToOne,
        OwnerExact, AtMostOnce, RefusedLeavesStateUnchanged, ConstraintsOneToOne; mutant leak_partial),
        ResMgrTrace (validation of executions of the real ResourceManager / Platform.build).
stages: mc        TLC: invariants over the full graph (unbounded histories) + the mutant that must fail
        tours     every edge of the ResMgr graph (histories <= MaxLen) replayed on a fresh real
                  ResourceManager / minimal Platform; returned ports compared literally with the
                  dot-dump state labels, and every recording validated by ResMgrTrace (verdict)
        random    seeded random bigger tables, longer histories (code -> spec), ResMgrTrace
        build     iCE40 / ECP5 / Nexus / Gowin platform subclasses from the same tables: histories
                  requested inside a design, Platform.build(do_build=False), constraint file and
                  top-level ports of the RTLIL parsed and validated by ResMgrTrace's build clause
        binding   corrupted recordings must be rejected
One Python description of a table (a JSON-able dict) is rendered syntactically both to the TLA+
constant (JSON read by TLC) and to amaranth Resource(...)/Connector(...) objects.
Verdicts come from ResMgrTrace only."""
import json
import os
import random
import re
import time
import warnings
from concurrent.futures import ThreadPoolExecutor

from ..common import pmap, MachineryError
from .. import tours, tracecheck, tlaval

LEVEL = "model_checking"

# ============================== table descriptions (the single source) ==========================
NOCONN = {"name": "", "number": 0}


def _leaf(kind, names, nnames, dir, invert, conn, clock, attrs):
    return {"name": "", "kind": kind, "subs": [], "names": names.split(), "nnames": nnames.split(), "dir": dir,
            "invert": bool(invert), "has_conn": conn is not None,
            "conn": {"name": conn[0], "number": conn[1]} if conn else dict(NOCONN),
            "clock": clock, "attrs": [list(a) for a in (attrs or [])]}


def pins(names, dir="io", invert=False, conn=None, clock=0, attrs=None):
    return _leaf("pins", names, "", dir, invert, conn, clock, attrs)


def diff(p, n, dir="io", invert=False, conn=None, clock=0, attrs=None):
    return _leaf("diff", p, n, dir, invert, conn, clock, attrs)


def sub(name, *children):
    """Subsignal(name, <one leaf> | <subsignals...>)"""
    if len(children) == 1 and children[0]["kind"] != "group" and children[0]["name"] == "":
        node = dict(children[0])
        node["name"] = name
        return node
    return {"name": name, "kind": "group", "subs": list(children), "names": [], "nnames": [], "dir": "io",
            "invert": False, "has_conn": False, "conn": dict(NOCONN), "clock": 0, "attrs": []}


def res(name, number, *children):
    node = sub(name, *children)
    node["number"] = number
    return node


def conn_slots(name, number, slots, conn=None):
    return {"name": name, "number": number, "form": "slots", "pins": [], "slots": slots.split(),
            "has_conn": conn is not None, "conn": {"name": conn[0], "number": conn[1]} if conn else dict(NOCONN)}


def conn_pins(name, number, mapping, conn=None):
    return {"name": name, "number": number, "form": "pins", "pins": [[k, v] for k, v in mapping], "slots": [],
            "has_conn": conn is not None, "conn": {"name": conn[0], "number": conn[1]} if conn else dict(NOCONN)}


def leaves(node, path=()):
    """(path, leaf) in declared depth-first order -- used only to size request vectors and to
    render dir/xdr dictionaries (not an oracle: the model has its own Leaves)."""
    if node["kind"] == "group":
        out = []
        for s in node["subs"]:
            out += leaves(s, path + (s["name"],))
        return out
    return [(path, node)]


def find_res(table, name, number):
    for r in table["resources"]:
        if r["name"] == name and r["number"] == number:
            return r
    return None


def rq(table, name, number=0, dir="-", xdr=-1):
    """request vocabulary entry; dir / xdr: a scalar (applied to every leaf) or a per-leaf list."""
    r = find_res(table, name, number)
    n = len(leaves(r)) if r is not None else 1
    d = list(dir) if isinstance(dir, (list, tuple)) else [dir] * n
    x = list(xdr) if isinstance(xdr, (list, tuple)) else [xdr] * n
    assert len(d) == n and len(x) == n, (name, number, d, x)
    return {"name": name, "number": number, "dir": d, "xdr": x}


def make_table(name, resources, connectors, reqs):
    t = {"name": name, "resources": resources, "connectors": connectors, "reqs": []}
    for q in reqs:            # (name, number[, dir[, xdr]])
        t["reqs"].append(rq(t, *q))
    return t


A33 = [("IO_TYPE", "LVCMOS33")]


def fixed_tables():
    T = []
    # ---- plain pins, overlapping resources, overrides of dir / xdr --------------------------------
    T.append(make_table("plain", [
        res("led", 0, pins("A1", dir="o", attrs=A33)),
        res("led", 1, pins("A2", dir="o")),
        res("btn", 0, pins("B1", dir="i")),
        res("gpio", 0, pins("C1 C2 C3", dir="io")),
        res("share", 0, pins("A2 B1", dir="io")),
        res("oe", 0, pins("D1 D2", dir="oe")),
    ], [], [
        ("led", 0), ("led", 1), ("btn", 0), ("gpio", 0), ("share", 0), ("oe", 0),
        ("led", 0, "none"), ("btn", 0, "none"), ("share", 0, "none"), ("oe", 0, "none"),
        ("gpio", 0, "i"), ("gpio", 0, "oe", 1), ("gpio", 0, "io", 2), ("gpio", 0, "o", 3),
        ("led", 0, "i"), ("oe", 0, "o"), ("led", 7), ("nope", 0),
    ]))
    # ---- subsignals; the refusal happens midway (early subsignal free, later one owned) -----------
    T.append(make_table("subsig", [
        res("led", 0, pins("A1", dir="o")),
        res("bus", 0, sub("d", pins("B1 B2", dir="io")), sub("clk", pins("K1", dir="i", clock=40)),
            sub("cs", pins("A1", dir="o", invert=True))),
        res("btn", 0, pins("B1", dir="i")),
        res("spi", 0, sub("cs", pins("D1", dir="o", invert=True)),
            sub("dat", sub("copi", pins("D2", dir="o")), sub("cipo", pins("B2", dir="i"))), sub("clk", pins("D3", dir="o"))),
        res("pair", 0, pins("E1 A1", dir="io")),
        res("e", 1, pins("E1", dir="i")),
    ], [], [
        ("led", 0), ("bus", 0), ("btn", 0), ("spi", 0), ("pair", 0), ("e", 1),
        ("bus", 0, "none"), ("spi", 0, "none"), ("btn", 0, "none"), ("led", 0, "none"),
        ("bus", 0, ["i", "none", "-"]), ("bus", 0, ["o", "o", "none"]), ("spi", 0, ["none", "none", "-", "none"], [1, -1, -1, 2]),
        ("e", 0),
    ]))
    # ---- differential pairs ------------------------------------------------------------------------
    T.append(make_table("diffp", [
        res("lv", 0, diff("P1", "N1", dir="i", clock=10)),
        res("lv", 1, diff("P2 P3", "N2 N3", dir="o", invert=True)),
        res("se", 0, pins("N1", dir="i")),
        res("grp", 0, sub("a", diff("P4", "N4", dir="io")), sub("b", pins("P1", dir="i", invert=True))),
        res("dx", 0, pins("N4", dir="o")),
        res("cross", 0, diff("N3 P5", "P6 P7", dir="i")),
    ], [], [
        ("lv", 0), ("lv", 1), ("se", 0), ("grp", 0), ("dx", 0), ("cross", 0),
        ("lv", 0, "none"), ("lv", 1, "none"), ("grp", 0, "none"), ("dx", 0, "none"),
        ("grp", 0, ["o", "none"], [2, -1]), ("lv", 1, "i"), ("lv", 2),
    ]))
    # ---- connectors, chains (a connector defined relative to another one, declared before it) ------
    T.append(make_table("conn", [
        res("spi", 0, sub("cs", pins("1", dir="o", conn=("ext", 0))), sub("clk", pins("2", dir="o", conn=("ext", 0))),
            sub("d", pins("4 5", dir="io", conn=("ext", 0)))),
        res("raw", 0, pins("B2", dir="io")),
        res("uart", 0, sub("tx", pins("a", dir="o", conn=("hdr", 1))), sub("rx", pins("5", dir="i", conn=("pmod", 0)))),
        res("lvc", 0, diff("b", "c", dir="i", conn=("hdr", 1), invert=True)),
        res("far", 0, pins("x2 x1", dir="io", conn=("top", 0))),
        res("b5", 0, pins("B5", dir="i")),
    ], [
        conn_slots("ext", 0, "2 1 - 4 5", conn=("pmod", 0)),                 # ext_0:1 -> pmod_0:2 -> B2 ; pin 3 absent
        conn_slots("pmod", 0, "B1 B2 - B4 B5"),
        conn_pins("hdr", 1, [("a", "C1"), ("b", "C2"), ("c", "C3")]),
        conn_pins("top", 0, [("x1", "4"), ("x2", "5")], conn=("ext", 0)),    # top_0:x1 -> ext_0:4 -> pmod_0:4 -> B4
    ], [
        ("spi", 0), ("raw", 0), ("uart", 0), ("lvc", 0), ("far", 0), ("b5", 0),
        ("spi", 0, "none"), ("raw", 0, "none"), ("uart", 0, "none"), ("lvc", 0, "none"), ("far", 0, "i"),
        ("spi", 0, ["none", "-", "i"]), ("pmod", 0),
    ]))
    # ---- inversion and clocks; a clocked early subsignal in a request refused later -----------------
    T.append(make_table("invclk", [
        res("clk", 0, pins("K1", dir="i", clock=40)),
        res("clkd", 0, diff("K2", "K3", dir="i", clock=10, invert=True)),
        res("rstn", 0, pins("R1", dir="i", invert=True)),
        res("grp", 0, sub("ck", pins("K4", dir="i", clock=8)), sub("en", pins("R1 R2", dir="o", invert=True))),
        res("k4", 0, pins("K4", dir="i", clock=100)),
        res("clk", 1, pins("K1", dir="i", clock=83)),
    ], [], [
        ("clk", 0), ("clkd", 0), ("rstn", 0), ("grp", 0), ("k4", 0), ("clk", 1),
        ("clk", 0, "none"), ("clkd", 0, "none"), ("rstn", 0, "none"), ("grp", 0, "none"), ("k4", 0, "none"),
        ("clk", 0, "i", 1), ("clk", 2),
    ]))
    return T


def build_tables():
    """Tables for the vendor platforms (no bidirectional differential pairs: iCE40 cannot buffer them)."""
    T = []
    T.append(make_table("b_mixed", [
        res("clk", 0, pins("K1", dir="i", clock=40)),
        res("led", 0, pins("A1", dir="o", attrs=A33)),
        res("bus", 0, sub("d", pins("B1 B2", dir="io")), sub("ck", pins("K2", dir="i", clock=20)),
            sub("cs", pins("A1", dir="o", invert=True))),
        res("btn", 0, pins("B1", dir="i", invert=True)),
        res("lv", 0, diff("P1 P2", "N1 N2", dir="o")),
        res("lvi", 0, diff("P3", "N3", dir="i", clock=10, invert=True)),
    ], [], [
        ("clk", 0), ("led", 0), ("bus", 0), ("btn", 0), ("lv", 0), ("lvi", 0),
        ("clk", 0, "none"), ("led", 0, "none"), ("bus", 0, "none"), ("btn", 0, "none"), ("lv", 0, "none"),
        ("lvi", 0, "none"), ("bus", 0, ["o", "-", "none"]), ("nope", 0),
    ]))
    T.append(make_table("b_conn", [
        res("spi", 0, sub("cs", pins("1", dir="o", conn=("ext", 0), invert=True)), sub("clk", pins("2", dir="o", conn=("ext", 0))),
            sub("d", pins("4 5", dir="io", conn=("ext", 0)))),
        res("raw", 0, pins("B2 B9", dir="io")),
        res("uart", 0, sub("tx", pins("a", dir="o", conn=("hdr", 1))), sub("rx", pins("5", dir="i", conn=("pmod", 0)))),
        res("lvc", 0, diff("b", "c", dir="i", conn=("hdr", 1), clock=8)),
        res("far", 0, pins("x2 x1", dir="io", conn=("top", 0))),
    ], [
        conn_slots("ext", 0, "2 1 - 4 5", conn=("pmod", 0)),
        conn_slots("pmod", 0, "B1 B2 - B4 B5"),
        conn_pins("hdr", 1, [("a", "C1"), ("b", "C2"), ("c", "C3")]),
        conn_pins("top", 0, [("x1", "4"), ("x2", "5")], conn=("ext", 0)),
    ], [
        ("spi", 0), ("raw", 0), ("uart", 0), ("lvc", 0), ("far", 0),
        ("spi", 0, "none"), ("raw", 0, "none"), ("uart", 0, "none"), ("lvc", 0, "none"), ("far", 0, "o"),
    ]))
    return T


# ---- random tables (code -> spec) -------------------------------------------------------------------
def random_table(rng, name, n_res, vendor_safe=False):
    phys = ["P%d" % i for i in range(1, rng.randint(10, 26))]
    # connectors: physical -> level 1 -> level 2 -> level 3 ; truth[(conn, pin)] is used only to keep each
    # resource free of internal duplicates (generation constraint; TableOK re-checks it with the spec's Resolve)
    conns, truth, conn_refs = [], {}, []
    order = []
    for level in range(rng.randint(0, 3)):
        for k in range(rng.randint(1, 2)):
            cname, cnum = rng.choice(["pmod", "hdr", "ext", "m2"]), len(order)
            parents = [c for c in order if c[2] == level - 1]
            if level > 0 and not parents:
                continue
            parent = rng.choice(parents) if level > 0 else None
            npins = rng.randint(2, 6)
            if parent is None:
                targets = [rng.choice(phys) for _ in range(npins)]
                tphys = targets
            else:
                ppins = sorted(p for (c, p) in truth if c == (parent[0], parent[1]))
                targets = [rng.choice(ppins) for _ in range(npins)]
                tphys = [truth[(parent[0], parent[1]), t] for t in targets]
            pc = (parent[0], parent[1]) if parent else None
            if rng.random() < 0.5:
                slots, keys = [], []
                for t in targets:
                    if rng.random() < 0.15:
                        slots.append("-")
                    slots.append(t)
                    keys.append(str(len(slots)))
                c = conn_slots(cname, cnum, " ".join(slots), conn=pc)
            else:
                keys = [rng.choice("abcdxyz") + str(j) for j in range(npins)]
                c = conn_pins(cname, cnum, list(zip(keys, targets)), conn=pc)
            for kk, tp in zip(keys, tphys):
                truth[(cname, cnum), kk] = tp
            order.append((cname, cnum, level))
            conns.append(c)
    rng.shuffle(conns)                                  # declaration order must not matter
    conn_ids = [(c[0], c[1]) for c in order]

    def rand_leaf(used):
        width = rng.choice([1, 1, 1, 2, 2, 3, 4])
        isdiff = rng.random() < 0.25
        need = width * (2 if isdiff else 1)
        cid = rng.choice(conn_ids) if conn_ids and rng.random() < 0.4 else None
        if cid is None:
            cand = [(p, p) for p in phys if p not in used]
        else:
            seen, cand = set(), []
            for (c, p), tp in sorted(truth.items()):
                if c == cid and tp not in used and tp not in seen:
                    seen.add(tp)
                    cand.append((p, tp))
        if len(cand) < need:
            return None
        pick = rng.sample(cand, need)
        used.update(tp for _, tp in pick)
        d = rng.choice(["i", "o", "io", "oe"] if not (isdiff and vendor_safe) else ["i", "o"])
        clock = rng.choice([0, 0, 0, 8, 10, 20, 40, 83, 100]) if d in ("i", "io") else 0
        inv = rng.random() < 0.3
        names = " ".join(p for p, _ in pick[:width])
        attrs = A33 if rng.random() < 0.2 else None
        if isdiff:
            return diff(names, " ".join(p for p, _ in pick[width:]), dir=d, invert=inv, conn=cid, clock=clock, attrs=attrs)
        return pins(names, dir=d, invert=inv, conn=cid, clock=clock, attrs=attrs)

    def rand_node(used, depth):
        if depth < 2 and rng.random() < (0.45 if depth == 0 else 0.25):
            subs = []
            for k in range(rng.randint(1, 4)):
                ch = rand_node(used, depth + 1)
                if ch is not None:
                    subs.append(sub("s%d" % k, *ch) if isinstance(ch, list) else sub("s%d" % k, ch))
            return subs or None
        return rand_leaf(used)

    resources = []
    tries = 0
    while len(resources) < n_res and tries < 200:
        tries += 1
        used = set()
        node = rand_node(used, 0)
        if node is None:
            continue
        rname = rng.choice(["led", "bus", "io", "clk", "spi"])
        num = sum(1 for r in resources if r["name"] == rname)
        resources.append(res(rname, num, *node) if isinstance(node, list) else res(rname, num, node))
    return {"name": name, "resources": resources, "connectors": conns, "reqs": []}


def random_request(rng, table, vendor_safe=False):
    if rng.random() < 0.05:
        return rq(table, rng.choice(["led", "nope"]), 99)
    r = rng.choice(table["resources"])
    lv = leaves(r)
    style = rng.random()
    if style < 0.45:
        return rq(table, r["name"], r["number"])
    if style < 0.7:
        return rq(table, r["name"], r["number"], "none", [rng.choice([-1, -1, 0, 1, 2]) for _ in lv])
    d, x = [], []
    for _, l in lv:
        if rng.random() < 0.85:
            d.append(rng.choice(["none", "-", l["dir"]] + (["i", "o", "oe", "io"] if l["dir"] == "io" else [])))
        else:
            d.append(rng.choice(["i", "o", "oe", "io"]))
        eff = l["dir"] if d[-1] == "none" else d[-1]
        x.append(rng.choice([-1, -1, 0, 1, 2] + ([3] if eff != "-" and not vendor_safe else [])))
    return rq(table, r["name"], r["number"], d, x)


# ============================== rendering to amaranth (syntactic) ================================
def to_amaranth(table):
    from amaranth.build import Resource, Subsignal, Pins, PinsN, DiffPairs, DiffPairsN, Connector, Clock, Attrs
    from amaranth.hdl import Period

    def args_of(node):
        if node["kind"] == "group":
            return [Subsignal(s["name"], *args_of(s)) for s in node["subs"]]
        conn = (node["conn"]["name"], node["conn"]["number"]) if node["has_conn"] else None
        if node["kind"] == "pins":
            cls = PinsN if node["invert"] else Pins
            io = cls(" ".join(node["names"]), dir=node["dir"], conn=conn)
        else:
            cls = DiffPairsN if node["invert"] else DiffPairs
            io = cls(" ".join(node["names"]), " ".join(node["nnames"]), dir=node["dir"], conn=conn)
        out = [io]
        if node["clock"]:
            out.append(Clock(Period(ns=node["clock"])))
        if node["attrs"]:
            out.append(Attrs(**{k: v for k, v in node["attrs"]}))
        return out

    resources = [Resource(r["name"], r["number"], *args_of(r)) for r in table["resources"]]
    connectors = []
    for c in table["connectors"]:
        conn = (c["conn"]["name"], c["conn"]["number"]) if c["has_conn"] else None
        io = " ".join(c["slots"]) if c["form"] == "slots" else {k: v for k, v in c["pins"]}
        connectors.append(Connector(c["name"], c["number"], io, conn=conn))
    return resources, connectors


def request_kwargs(table, q):
    """the per-leaf vectors of the model request as the dir= / xdr= arguments of the API (nested dicts
    along the subsignal tree; entries without an override are omitted)."""
    r = find_res(table, q["name"], q["number"])
    kw = {}
    if r is None or r["kind"] != "group":
        if q["dir"][0] != "none":
            kw["dir"] = q["dir"][0]
        if q["xdr"][0] != -1:
            kw["xdr"] = q["xdr"][0]
        return kw
    if all(d == "-" for d in q["dir"]) and all(x == -1 for x in q["xdr"]):
        return {"dir": "-"}
    it = iter(zip(q["dir"], q["xdr"]))

    def walk(node):
        if node["kind"] != "group":
            d, x = next(it)
            return (None if d == "none" else d), (None if x == -1 else x)
        dd, xx = {}, {}
        for s in node["subs"]:
            d, x = walk(s)
            if d is not None and d != {}:
                dd[s["name"]] = d
            if x is not None and x != {}:
                xx[s["name"]] = x
        return dd, xx
    d, x = walk(r)
    if d:
        kw["dir"] = d
    if x:
        kw["xdr"] = x
    return kw


# ============================== driving and observing the real code ================================
def _minimal_platform(resources, connectors):
    from amaranth.build.plat import Platform

    def toolchain_prepare(self, fragment, name, **kwargs):
        raise NotImplementedError
    cls = type("MinimalPlatform", (Platform,), {"required_tools": [], "resources": resources, "connectors": connectors,
                                                "toolchain_prepare": toolchain_prepare})
    return cls()


class Recorder:
    """Issues requests through the public API and writes down what the returned objects show."""

    def __init__(self, table, rm):
        self.table, self.rm = table, rm
        self.steps = []
        self.ports = {}        # IOPort name -> (name, number, path, pol, IOPort)
        self.inside = False

    def _clock_ps(self, ioport):
        try:
            for port, freq in self.rm.iter_port_clock_constraints():
                if port is ioport:
                    return int(round(1e12 / freq))
        except Exception:  # noqa: BLE001 -- the public listing of clock constraints failed: no declared period can
            return -1      #                  be observed (never equal to what the specification expects)
        return 0

    def _flatten(self, v, path, out, q):
        from amaranth.lib import io
        from amaranth.build.res import PortGroup
        if isinstance(v, PortGroup):
            for k, m in vars(v).items():
                self._flatten(m, path + [k], out, q)
            return
        pin = None
        port = v
        if not isinstance(v, (io.SingleEndedPort, io.DifferentialPort)):
            pin = v
            port = None
            for p, prt, buf in self.rm.iter_pins():
                buf._MustUse__silence = True
                if p is v:
                    port = prt
            if port is None:
                raise MachineryError("returned object %r is neither a port nor a registered pin" % (v,))
        isdiff = isinstance(port, io.DifferentialPort)
        a = port.p if isdiff else port.io
        b = port.n if isdiff else None
        for ioport, pol in ((a, "p" if isdiff else "io"), (b, "n")):
            if ioport is not None:
                self.ports[ioport.name] = (q["name"], q["number"], list(path), pol, ioport)
        out.append({
            "path": list(path), "diff": isdiff, "width": len(port) if pin is None else pin.width,
            "p": [m.name for m in a.metadata], "n": [m.name for m in b.metadata] if isdiff else [],
            "invert": [bool(x) for x in port.invert], "direction": port.direction.value,
            "dir": "-" if pin is None else pin.dir, "xdr": 0 if pin is None else pin.xdr,
            "clock_ps": self._clock_ps(a), "_port": port, "_pin": pin})

    def request(self, q, reraise=False):
        """one request(...) call; returns the observation (and re-raises the refusal if asked to)"""
        from amaranth.build.res import ResourceError
        kw = request_kwargs(self.table, q)
        args = (q["name"],) if (q["number"] == 0 and q.get("nonum")) else (q["name"], q["number"])
        obs = {"class": "granted", "ports": []}
        exc = v = None
        self.inside = True
        try:
            with warnings.catch_warnings():
                warnings.simplefilter("ignore")
                v = self.rm.request(*args, **kw)
        except ResourceError as e:
            exc, obs = e, {"class": "ResourceError", "ports": [], "msg": str(e)}
        except Exception as e:  # noqa: BLE001 -- any other refusal
            exc, obs = e, {"class": "OtherError", "ports": [], "msg": "%s: %s" % (type(e).__name__, e)}
        else:
            self._flatten(v, [], obs["ports"], q)
        finally:
            self.inside = False
        for p, prt, buf in self.rm.iter_pins():
            buf._MustUse__silence = True
        self.steps.append({"type": "request", "req": {k: q[k] for k in ("name", "number", "dir", "xdr")},
                           "call": "request(%s)" % ", ".join([repr(a) for a in args] + ["%s=%r" % kv for kv in kw.items()]),
                           "obs": obs, "_value": v})
        if reraise and exc is not None:
            raise exc
        return obs


def strip(steps):
    """JSON for TLC: drop the private (underscore) and free-text fields."""
    out = []
    for s in steps:
        if s["type"] == "request":
            out.append({"type": "request", "req": s["req"],
                        "obs": {"class": s["obs"]["class"],
                                "ports": [{k: v for k, v in p.items() if not k.startswith("_")} for p in s["obs"]["ports"]]}})
        else:
            out.append({k: v for k, v in s.items() if k != "text"})
    return out


def _rm_one(table, amaranth_objs, reqs, use_platform):
    resources, connectors = amaranth_objs
    if use_platform:
        rm = _minimal_platform(resources, connectors)
    else:
        from amaranth.build.res import ResourceManager
        rm = ResourceManager(resources, connectors)
    rec = Recorder(table, rm)
    for q in reqs:
        rec.request(q)
    return strip(rec.steps), [s["call"] for s in rec.steps], [s["obs"].get("msg", "") for s in rec.steps]


def _rm_chunk(chunk):
    """(tables, [(table index, reqs, use_platform), ...]) -> recorded steps, each on a fresh manager.
    The amaranth Resource/Connector objects of a table are immutable descriptions and are shared."""
    tables, jobs = chunk
    objs = {}
    out = []
    for ti, reqs, use_platform in jobs:
        if ti not in objs:
            objs[ti] = to_amaranth(tables[ti])
        out.append(_rm_one(tables[ti], objs[ti], reqs, use_platform))
    return out


def _procs():
    """pool size: all cores on an idle machine, a few when the machine is already oversubscribed (forking 16
    workers into a saturated run queue is slower than running serially)"""
    try:
        load = os.getloadavg()[0]
    except OSError:
        load = 0.0
    n = os.cpu_count() or 4
    return n if load < 0.75 * n else 4


def run_histories(tables, jobs):
    """jobs: [(table index, reqs, use_platform)] -> results in order"""
    if not jobs:
        return []
    procs = _procs()
    size = max(1, (len(jobs) + 2 * procs - 1) // (2 * procs))
    parts = [(tables, jobs[k:k + size]) for k in range(0, len(jobs), size)]
    return [r for part in pmap(_rm_chunk, parts, procs=procs) for r in part]


# ---- vendor platforms -----------------------------------------------------------------------------
VENDORS = {
    "ice40":  ("SiliconBluePlatform", {"device": "iCE40HX8K", "package": "CT256"}, ".pcf", True),
    "ecp5":   ("LatticePlatform", {"device": "LFE5UM-45F", "package": "BG381", "speed": "8"}, ".lpf", True),
    "nexus":  ("LatticePlatform", {"device": "LIFCL-40-9BG400C", "package": "BG400", "speed": "9"}, ".pdc", True),
    "gowin":  ("GowinPlatform", {"part": "GW1N-LV1QN48C6/I5", "family": "GW1N-1"}, ".cst", False),
}

_LINE = {
    ".pcf": re.compile(r"^set_io (\S+?)(?:\[(\d+)\])? (\S+)$"),
    ".lpf": re.compile(r'^LOCATE COMP "([^"\[]+)(?:\[(\d+)\])?" SITE "([^"]+)";$'),
    ".pdc": re.compile(r"^ldc_set_location -site \{([^}]+)\} \[get_ports ([^\[\]]+)(?:\[(\d+)\])?\]$"),
    ".cst": re.compile(r'^IO_LOC "([^"\[]+)(?:\[(\d+)\])?" (\S+);$'),
}
_CLOCK = {
    ".pcf": (re.compile(r"^set_frequency (\S+) (\S+)$"), lambda v: 1e6 / float(v)),             # MHz
    ".lpf": (re.compile(r'^FREQUENCY PORT "([^"]+)" (\S+) HZ;$'), lambda v: 1e12 / float(v)),   # Hz
    ".pdc": (re.compile(r'^create_clock -name "[^"]+" -period (\S+) \[get_ports "([^"]+)"\]$'), lambda v: 1e3 * float(v)),  # ns
}
_IGNORE = re.compile(r"^(#|//|BLOCK |IOBUF PORT|ldc_set_port|IO_PORT|$)")


def parse_constraints(ext, text):
    lines, clocks, other = [], [], []
    for ln in text.split("\n"):
        ln = ln.strip()
        m = _LINE[ext].match(ln)
        if m:
            if ext == ".pdc":
                pin, port, bit = m.group(1), m.group(2), m.group(3)
            else:
                port, bit, pin = m.group(1), m.group(2), m.group(3)
            lines.append((port, int(bit) if bit is not None else 0, pin))
            continue
        if ext in _CLOCK:
            m = _CLOCK[ext][0].match(ln)
            if m:
                port, val = (m.group(2), m.group(1)) if ext == ".pdc" else (m.group(1), m.group(2))
                clocks.append((port, int(round(_CLOCK[ext][1](val)))))
                continue
        if not _IGNORE.match(ln):
            other.append(ln)
    return lines, clocks, other


def parse_top_ports(il, name="top"):
    ports = []
    inside = False
    for ln in il.split("\n"):
        if ln.startswith("module "):
            inside = ln.strip() == "module \\" + name
            continue
        if inside:
            m = re.match(r"^\s*wire (?:width (\d+) )?(?:input|output|inout) \d+\s+\\(\S+)$", ln)
            if m:
                ports.append((m.group(2), int(m.group(1) or 1)))
    return ports


def _build_job(job):
    """(vendor, table, reqs, seed, use_sync) -> steps (requests issued inside elaborate(), then the build step).
    use_sync: the design has a `sync` domain and the platform names resource clk#0 as its default clock, so the
    platform itself requests it while preparing the build (recorded like any other request)."""
    vendor, table, reqs, seed, use_sync = job
    import amaranth.vendor as av
    from amaranth.hdl import Elaboratable, Module, Signal
    from amaranth.lib import io
    clsname, attrs, ext, has_clocks = VENDORS[vendor]
    resources, connectors = to_amaranth(table)
    base = getattr(av, clsname)
    holder = {}

    def request(self, name, number=0, *, dir=None, xdr=None):
        rec = holder["rec"]
        if rec.inside:
            return base.request(self, name, number, dir=dir, xdr=xdr)
        if dir != "-" or xdr is not None:
            raise MachineryError("unexpected platform-internal request(%r, %r, dir=%r, xdr=%r)" % (name, number, dir, xdr))
        rec.request(rq(table, name, number, "-"), reraise=True)
        return rec.steps[-1]["_value"]
    extra = {"default_clk": "clk"} if use_sync else {}
    plat_cls = type("P_" + vendor, (base,), dict(attrs, resources=resources, connectors=connectors, request=request, **extra))
    platform = plat_cls()
    rec = holder["rec"] = Recorder(table, platform)
    rng = random.Random(seed)

    class Top(Elaboratable):
        def elaborate(self, plat):
            m = Module()
            for k, q in enumerate(reqs):
                obs = rec.request(q)
                for j, p in enumerate(obs["ports"]):
                    if p["_pin"] is not None:
                        continue            # the platform adds the buffer of a Pin itself
                    port = p["_port"]
                    if port.direction is io.Direction.Input:
                        d = "i"
                    elif port.direction is io.Direction.Output:
                        d = "o"
                    else:
                        d = rng.choice(["i", "o"] if p["diff"] else ["i", "o", "io"])
                    m.submodules["b%d_%d" % (k, j)] = buf = io.Buffer(d, port)
                    if d != "i":
                        m.d.comb += buf.o.eq(k & 1)
            if use_sync:
                ctr = Signal(4)
                m.d.sync += ctr.eq(ctr + 1)
            return m

    with warnings.catch_warnings():
        warnings.simplefilter("ignore")
        plan = platform.build(Top(), do_build=False)
    files = {k: (v if isinstance(v, str) else v.decode()) for k, v in plan.files.items()}
    cfile = [k for k in files if k.endswith(ext)]
    if len(cfile) != 1:
        raise MachineryError("%s: expected one %s file, got %r" % (vendor, ext, sorted(files)))
    lines, clocks, other = parse_constraints(ext, files[cfile[0]])
    if other:
        raise MachineryError("%s: unparsed constraint lines %r" % (vendor, other[:3]))

    def ident(raw):
        if raw in rec.ports:
            nm, num, path, pol, _ = rec.ports[raw]
            return {"known": True, "name": nm, "number": num, "path": path, "pol": pol, "raw": raw}
        return {"known": False, "name": "", "number": 0, "path": [], "pol": "", "raw": raw}
    step = {"type": "build", "has_clocks": has_clocks, "text": files[cfile[0]],
            "top": [dict(ident(nm), width=w) for nm, w in parse_top_ports(files["top.il"])],
            "lines": [dict(ident(nm), bit=b, pin=pin) for nm, b, pin in lines],
            "clocks": [dict(ident(nm), period_ps=ps) for nm, ps in clocks]}
    rec.steps.append(step)
    return (strip(rec.steps), [s.get("call", "build") for s in rec.steps], files[cfile[0]],
            [s["obs"].get("msg", "") if s["type"] == "request" else "" for s in rec.steps])


# ============================== comparing with the dot labels (literal) ============================
def expected_ports(out):
    """the ports of an `out` state label, as plain Python data"""
    res_ = []
    for p in out["ports"]:
        res_.append({"path": list(p["path"]), "diff": p["diff"], "p": list(p["p"]), "n": list(p["n"]),
                     "invert": p["invert"], "direction": p["direction"], "dir": p["dir"], "xdr": p["xdr"],
                     "clock": p["clock"]})
    return res_


def observed_ports(obs):
    res_ = []
    for p in obs["ports"]:
        inv = p["invert"]
        res_.append({"path": p["path"], "diff": p["diff"], "p": p["p"] if p["width"] == len(p["p"]) else ("width", p["width"]),
                     "n": p["n"], "invert": inv[0] if inv and inv == [inv[0]] * len(p["p"]) else inv,
                     "direction": p["direction"], "dir": p["dir"], "xdr": p["xdr"],
                     "clock": p["clock_ps"] // 1000 if p["clock_ps"] % 1000 == 0 else p["clock_ps"] / 1000})
    return res_


_NODE = re.compile(r'^(-?\d+) \[label="((?:[^"\\]|\\.)*)"')
_EDGE = re.compile(r'^(-?\d+) -> (-?\d+) \[label="((?:[^"\\]|\\.)*)"')
_UNESC = re.compile(r"\\(.)")


class _Graph(tours.Graph):
    def state(self, nid):
        if nid not in self.nodes:
            txt = _UNESC.sub(lambda m: "\n" if m.group(1) == "n" else m.group(1), self._raw[nid])
            self.nodes[nid] = tlaval.parse_conj(txt)
        return self.nodes[nid]


def load_dot(path):
    """tours.load_dot for state labels that contain strings (its label pattern stops at the first
    '",' inside a label; reported to the owner of tours.py)."""
    g = _Graph()
    with open(path) as f:
        for line in f:
            m = _EDGE.match(line)
            if m:
                g.out.setdefault(int(m.group(1)), []).append((m.group(3), int(m.group(2))))
                continue
            m = _NODE.match(line)
            if m:
                nid = int(m.group(1))
                g._raw[nid] = m.group(2)
                g.out.setdefault(nid, [])
                if "style = filled" in line[m.end():]:
                    g.init.append(nid)
    return g


def state_request(table, lab, out):
    """the request of an edge: taken from the successor state's out.req (TLC's values), cross-checked with
    the vocabulary entry named by the action label Request(k)"""
    name, args = tours.parse_action(lab)
    if name != "Request" or len(args) != 1:
        raise MachineryError("unexpected action label %r" % lab)
    r = out["req"]
    q = {"name": r[0], "number": r[1], "dir": list(r[2]), "xdr": list(r[3])}
    if q != table["reqs"][args[0] - 1]:
        raise MachineryError("label %r does not match out.req %r" % (lab, r))
    return q


def literal_mismatch(out, obs):
    """'' if the observation equals the model's labelled successor state, else a short description"""
    if out["kind"] == "grant":
        if obs["class"] != "granted":
            return "model: granted, code: %s (%s)" % (obs["class"], obs.get("msg", ""))
        e, o = expected_ports(out), observed_ports(obs)
        if e != o:
            return "model ports %r, code ports %r" % (e, o)
        return ""
    if obs["class"] == "granted":
        return "model: refused %s, code: granted" % sorted(out["why"])
    classes = {"ResourceError" if k in ("unknown", "already_requested", "pin_conflict") else "OtherError" for k in out["why"]}
    if obs["class"] not in classes:
        return "model: refused %s, code raised %s (%s)" % (sorted(out["why"]), obs["class"], obs.get("msg", ""))
    return ""


# ============================== the check ==========================================================
CFG = """SPECIFICATION Spec
CHECK_DEADLOCK FALSE
CONSTANTS TableSource = "{tables}"
 MaxReqs = 20
 MaxLen = {maxlen}
 Mutant = "{mutant}"
"""
CFG_INV = """INVARIANT OneToOne
INVARIANT OwnerExact
INVARIANT ConflictMeansOwned
INVARIANT ConstraintsOneToOne
PROPERTY AtMostOnce
PROPERTY RefusedLeavesStateUnchanged
"""
CFG_MUT = """PROPERTY RefusedLeavesStateUnchanged
"""


def _require_request(ctx, r, stage):
    """vacuity guard (-coverage 1): the Request action must have fired; TLC prints parametrised actions as
    '<Request line .. of module ResMgr (..)>: distinct:total', which harness.tlc's pattern does not cover."""
    tot = sum(int(m.group(2)) for m in re.finditer(r"<Request line [^>]*>: (\d+):(\d+)", r.out))
    ctx.cov["stages"][stage]["actions"] = {"Request": tot}
    if tot == 0:
        raise MachineryError("vacuous model run %s: action Request never taken" % stage)


def _plain(v):
    if isinstance(v, (frozenset, set)):
        return sorted((_plain(x) for x in v), key=repr)
    if isinstance(v, tuple):
        return [_plain(x) for x in v]
    if isinstance(v, dict):
        return {str(k): _plain(x) for k, x in v.items()}
    return v


class Findings:
    """REJ verdicts grouped by what failed (table, vendor, clause, failing request, the earlier refused requests
    involved); one violation per group, keyed by its shortest history, the others counted."""

    def __init__(self):
        self.groups = {}

    def add(self, verdict, meta, steps):
        step, clause = verdict[1], verdict[2]
        info = verdict[3] if len(verdict) > 3 else None
        if clause.startswith("harness_"):
            raise MachineryError("trace rejected for a harness reason: %s at step %d of %r" % (clause, step, meta["calls"]))
        after = sorted(_plain(info["after"])) if isinstance(info, dict) and info.get("after") else []
        s = steps[step - 1]
        req = "%s#%d" % (s["req"]["name"], s["req"]["number"]) if s["type"] == "request" else "build"
        kinds = tuple(sorted({a[2] for a in after}))
        refused = tuple(sorted({"%s#%d" % (a[0], a[1]) for a in after}))
        if meta["driver"] == "tour":      # fixed tables: one finding per (table, clause, failing request)
            gk = (meta["table"], "", clause, req)
        else:                             # random tables / sampled build histories: one finding per clause (and vendor)
            gk = (meta["driver"], meta.get("vendor", ""), clause, "")
        hist = ["%s#%d" % (x["req"]["name"], x["req"]["number"]) if x["type"] == "request" else "build" for x in steps[:step]]
        cur = self.groups.get(gk)
        cand = (len(hist), hist, verdict, meta, steps, refused, kinds)
        if cur is None:
            self.groups[gk] = [cand, 1]
        else:
            cur[1] += 1
            if cand[:2] < cur[0][:2]:
                cur[0] = cand

    def report(self, ctx):
        for gk, ((_, hist, verdict, meta, steps, refused, kinds), count) in sorted(self.groups.items()):
            _, vendor, clause, req = gk
            table = meta["table"]
            step, info = verdict[1], (verdict[3] if len(verdict) > 3 else None)
            key = {"table": table, "driver": meta["driver"], "clause": clause, "history": hist, "step": step}
            if vendor:
                key["vendor"] = vendor
            if req:
                key["request"] = req
            if refused:
                key["refused"] = list(refused)
            if kinds:
                key["after_refusal"] = list(kinds)
            s = steps[step - 1]
            if s["type"] == "request":
                seen = "observed %s %s" % (s["obs"]["class"], json.dumps(s["obs"]["ports"]) if s["obs"]["ports"]
                                           else meta["msgs"][step - 1])
                exp = "the specification expects %s" % (tlaval.to_tla(_plain(info["expected"]))
                                                        if isinstance(info, dict) and "expected" in info else "?")
            else:
                seen = "location constraints %s, clock constraints %s, ports of the top module %s" % (
                    [(l["raw"], l["bit"], l["pin"]) for l in s["lines"]], [(c["raw"], c["period_ps"]) for c in s["clocks"]],
                    [(t["raw"], t["width"]) for t in s["top"]])
                exp = "Constraints(state) = %s" % (tlaval.to_tla(_plain(info["constraints"]))
                                                   if isinstance(info, dict) and "constraints" in info else "?")
            ctx.violation(key, "table %s%s, history [%s]: clause %s broken at step %d%s (%d recorded execution(s) fail this way); "
                          "%s; %s" % (table, " on " + vendor if vendor else "", " ; ".join(meta["calls"][:step]), clause, step,
                                      "; pins involved were named by earlier refused request(s) %s (%s)" % (
                                          ", ".join(refused), ", ".join(kinds)) if kinds else "", count, seen, exp),
                          replay={"meta": {k: v for k, v in meta.items() if not k.startswith("_") and k != "text"},
                                  "table": meta["_table"], "reqs": meta["_reqs"], "step": step, "clause": clause})


def _validate(ctx, tables, traces, stage, count_states=True, batch_size=6000, show=()):
    """Batch validation by ResMgrTrace (harness.tracecheck.validate, extended: the tables travel with the
    batch, and the REJ tuples carry structured information that TLC pretty-prints over several lines).
    traces: list of (table, steps). Returns verdicts ("ACC", n) / ("REJ", step, clause, info)."""
    verdicts = [None] * len(traces)
    stage_name = "%s/validate" % stage
    for bi, off in enumerate(range(0, len(traces), batch_size)):
        idx, tabs, out = {}, [], []
        for t, tr in traces[off:off + batch_size]:
            if id(t) not in idx:
                tabs.append({kk: vv for kk, vv in t.items() if kk != "reqs"})
                idx[id(t)] = len(tabs)
            out.append({"table": idx[id(t)], "show": (off + len(out)) in show, "steps": tr})
        path = os.path.join(ctx.tmp, "ResMgrTrace_%s_%d.json" % (re.sub(r"\W", "_", stage), off))
        with open(path, "w") as f:
            json.dump({"tables": tabs, "traces": out}, f)
        r = ctx.tlc("ResMgrTrace", stage=stage_name, cfg_text="SPECIFICATION Spec\nCHECK_DEADLOCK FALSE\n"
                    "INVARIANT OneToOne\nINVARIANT OwnerExact\n", env={"TRACE_FILE": path}, workers=8, count=False)
        st = ctx.cov["stages"][stage_name]
        st["batches"] = bi + 1
        st["trace_states"] = st.get("trace_states", 0) + r.distinct
        if count_states:
            ctx.cov["trace_states_checked"] = ctx.cov.get("trace_states_checked", 0) + r.distinct
        for txt in r.printed():
            if re.match(r'^<<\s*"CONSTRAINTS"', txt):      # Constraints(state) as computed by TLC, for the evidence
                st.setdefault("constraints_printed_by_tlc", []).append(re.sub(r"\s+", " ", txt))
            if not re.match(r'^<<\s*"(ACC|REJ)"', txt):
                continue
            v = tlaval.parse(txt)
            k = off + v[1] - 1
            if v[0] == "ACC":
                verdicts[k] = ("ACC",) + tuple(v[2:])
            elif verdicts[k] is None:
                verdicts[k] = ("REJ",) + tuple(v[2:])
        os.unlink(path)
    missing = [k for k, v in enumerate(verdicts) if v is None]
    if missing:
        raise MachineryError("ResMgrTrace: no verdict for %d traces (first: %d) in stage %s" % (len(missing), missing[0], stage))
    ctx.cov["traces_validated_against_impl"] += len(traces)
    return verdicts


def _walks_job(job):
    out, init, max_len = job
    g = tours.Graph()
    g.out = out
    g.init = [init]
    return tours.covering_walks(g, max_len=max_len)


def covering_walks(g, max_len):
    """tours.covering_walks, one process per initial state (the tables' subgraphs are disjoint)"""
    jobs = []
    for init in g.init:
        seen, todo = {init}, [init]
        while todo:
            u = todo.pop()
            for _, v in g.out[u]:
                if v not in seen:
                    seen.add(v)
                    todo.append(v)
        jobs.append(({u: g.out[u] for u in seen}, init, max_len))
    return [w for ws in pmap(_walks_job, jobs, procs=min(len(jobs), _procs())) for w in ws]


def run(ctx):
    th = ctx.thorough
    maxlen = 5 if th else 4
    fixed = fixed_tables()
    btabs = build_tables()
    mtabs = fixed + btabs
    findings = Findings()
    phases = ctx.cov["stages"].setdefault("phases_wall_s", {})
    clock = [time.time()]

    def mark(name):
        phases[name] = round(time.time() - clock[0], 1)
        clock[0] = time.time()

    def table_file(name, tabs):
        p = os.path.join(ctx.tmp, name)
        with open(p, "w") as f:
            json.dump({"tables": tabs}, f)
        return p

    # ---------------- mc: invariants over all histories; the mutant must fail; the graph for the tours ----------
    tf_all = table_file("tables_all.json", mtabs)
    dot = os.path.join(ctx.tmp, "g_rm")
    gstage = "tours/graph"
    jobs = [("mc/unbounded", CFG.format(tables="json", maxlen=0, mutant="") + CFG_INV, None, ("-coverage", "1")),
            ("mc/demo-written-out", CFG.format(tables="demo", maxlen=0, mutant="") + CFG_INV, None, ("-coverage", "1")),
            ("mc/mutant-leak", CFG.format(tables="demo", maxlen=0, mutant="leak_partial") + CFG_MUT,
             "RefusedLeavesStateUnchanged", ()),
            (gstage, CFG.format(tables="json", maxlen=maxlen, mutant="") + CFG_INV, None,
             ("-coverage", "1", "-dump", "dot,actionlabels", dot))]

    def one(j):
        stage, cfg, expect, args = j
        return ctx.tlc("ResMgr", stage=stage, cfg_text=cfg, workers=4, expect_violation=expect, env={"TABLE_FILE": tf_all},
                       count=expect is None, args=args)
    with ThreadPoolExecutor(4) as ex:
        results = list(ex.map(one, jobs))
    for j, r in zip(jobs, results):
        if j[2] is None:
            _require_request(ctx, r, j[0])

    mark("tlc_model_checking_and_graph")
    # ---------------- tours: every edge of the bounded graph on the real manager ---------------------------------
    g = load_dot(dot + ".dot")
    os.unlink(dot + ".dot")
    walks = covering_walks(g, maxlen)
    mark("load_graph_and_walks")
    ctx.cov["stages"][gstage].update({"graph_nodes": len(g.out), "graph_edges": g.n_edges, "walks": len(walks),
                                      "walk_steps": sum(len(w) for _, w in walks)})
    tour_jobs = []
    for wi, (init, w) in enumerate(walks):
        ti = g.state(init)["tab"] - 1
        reqs = [state_request(mtabs[ti], lab, g.state(dst)["out"]) for lab, dst in w]
        if wi % 5 == 0:
            for q in reqs:
                q["nonum"] = True          # request(name) with the default number where it is 0
        tour_jobs.append((ti, reqs, wi % 2 == 1))
    traces, metas = [], []
    n_grants = n_refusals = n_literal = 0
    for job, (init, w), (steps, calls, msgs) in zip(tour_jobs, walks, run_histories(mtabs, tour_jobs)):
        mism = None
        for k, ((lab, dst), s) in enumerate(zip(w, steps)):
            out = g.state(dst)["out"]
            n_grants += out["kind"] == "grant"
            n_refusals += out["kind"] == "refuse"
            d = literal_mismatch(out, dict(s["obs"], msg=msgs[k]))
            if d and mism is None:
                mism = (k + 1, d)
        n_literal += mism is not None
        table = mtabs[job[0]]
        traces.append((table, steps))
        metas.append({"table": table["name"], "driver": "tour", "api": "Platform" if job[2] else "ResourceManager",
                      "calls": calls, "msgs": msgs, "_table": table, "_reqs": job[1], "literal": mism})
        ctx.case(("tour", table["name"], tuple(calls)), nontrivial=len(calls) > 1)
    if n_grants == 0 or n_refusals == 0:
        raise MachineryError("vacuous tours: %d grants, %d refusals" % (n_grants, n_refusals))
    ctx.cov["stages"][gstage].update({"edges_granted": n_grants, "edges_refused": n_refusals,
                                      "walks_differing_from_state_labels": n_literal})
    mark("replay_tours")
    # verdicts: every walk that differs from the state labels, and a sample of the others, go through ResMgrTrace
    sel = [k for k, m in enumerate(metas) if m["literal"] is not None or k % (4 if th else 10) == 0]

    # ---------------- random: bigger tables, longer histories (code -> spec) -------------------------------------
    n_tables, n_hist, hist_len = (150, 40, 14) if th else (30, 20, 10)
    rtabs, rjobs = [], []
    for ti in range(n_tables):
        rng = random.Random(ctx.rng.getrandbits(48))
        table = random_table(rng, "rand%d" % ti, rng.randint(4, 10))
        if len(table["resources"]) < 2:
            continue
        rtabs.append(table)
        for hi in range(n_hist):
            reqs = [random_request(rng, table) for _ in range(rng.randint(3, hist_len))]
            rjobs.append((len(rtabs) - 1, reqs, hi % 2 == 1))
    n_tour = len(sel)
    sel_traces = [traces[k] for k in sel]
    sel_metas = [metas[k] for k in sel]
    for job, (steps, calls, msgs) in zip(rjobs, run_histories(rtabs, rjobs)):
        table = rtabs[job[0]]
        sel_traces.append((table, steps))
        sel_metas.append({"table": table["name"], "driver": "random", "api": "Platform" if job[2] else "ResourceManager",
                          "calls": calls, "msgs": msgs, "_table": table, "_reqs": job[1], "literal": None})
        kinds = {s["obs"]["class"] for s in steps}
        ctx.case(("rand", table["name"], tuple(calls)), nontrivial="granted" in kinds and len(kinds) > 1)

    mark("random_histories")
    verdicts = _validate(ctx, None, sel_traces, "requests")
    mark("tlc_validate_requests")
    disagree = []
    for v, m, (table, steps) in zip(verdicts, sel_metas, sel_traces):
        if v[0] == "REJ":
            findings.add(v, m, steps)
        lit = m["literal"]
        if m["driver"] == "tour" and ((lit is None) != (v[0] == "ACC") or (lit is not None and v[1] != lit[0])):
            disagree.append((m["table"], m["calls"], lit, v[:3]))
    if disagree:
        raise MachineryError("ResMgr state labels and ResMgrTrace disagree about %d tour(s), first: %r" % (
            len(disagree), disagree[0]))
    ctx.cov["stages"]["requests/validate"].update({"tour_walks_validated": n_tour, "random_histories": len(rjobs),
                                                   "random_tables": len(rtabs)})
    ctx.sample({"table": metas[0]["table"], "api": metas[0]["api"], "calls": metas[0]["calls"], "steps": traces[0][1][:2]})

    # ---------------- build: vendor platforms, constraint files ---------------------------------------------------
    per_vendor = 400 if th else 36
    bt_rand = [random_table(random.Random(ctx.rng.getrandbits(48)), "brand%d" % i, 6, vendor_safe=True)
               for i in range(12 if th else 3)]
    bt_rand = [t for t in bt_rand if len(t["resources"]) >= 2]
    bm = btabs[0]
    seeded = [(bm, [rq(bm, "led", 0), rq(bm, "bus", 0, "none"), rq(bm, "btn", 0), rq(bm, "lvi", 0)], False),
              (bm, [rq(bm, "led", 0, "none"), rq(bm, "bus", 0), rq(bm, "btn", 0, "none"), rq(bm, "lv", 0)], False),
              (bm, [rq(bm, "lv", 0), rq(bm, "bus", 0, ["o", "-", "none"]), rq(bm, "lvi", 0, "none")], True),
              (btabs[1], [rq(btabs[1], "raw", 0), rq(btabs[1], "spi", 0, "none"), rq(btabs[1], "uart", 0),
                          rq(btabs[1], "far", 0, "o"), rq(btabs[1], "lvc", 0)], False)]
    bjobs = []
    for vendor in VENDORS:
        for table, reqs, use_sync in seeded:
            bjobs.append((vendor, table, reqs, 1, use_sync))
        for k in range(per_vendor):
            rng = random.Random(ctx.rng.getrandbits(48))
            table = rng.choice(btabs + bt_rand)
            if table["reqs"]:
                reqs = [dict(rng.choice(table["reqs"])) for _ in range(rng.randint(2, 7))]
            else:
                reqs = [random_request(rng, table, vendor_safe=True) for _ in range(rng.randint(2, 8))]
            use_sync = table is bm and rng.random() < 0.4 and not any(q["name"] == "clk" for q in reqs)
            bjobs.append((vendor, table, reqs, rng.getrandbits(32), use_sync))
    btraces, bmetas = [], []
    for job, (steps, calls, text, msgs) in zip(bjobs, pmap(_build_job, bjobs, procs=_procs(), chunksize=8)):
        btraces.append((job[1], steps))
        bmetas.append({"table": job[1]["name"], "vendor": job[0], "driver": "build", "calls": calls, "seed": job[3],
                       "use_sync": job[4], "msgs": msgs, "_table": job[1], "_reqs": job[2], "text": text})
        ctx.case(("build", job[0], job[1]["name"], tuple(calls), job[4]), nontrivial=len(steps[-1]["lines"]) > 1)
    mark("vendor_builds")
    bverdicts = _validate(ctx, None, btraces, "build", show=(0, 3))
    mark("tlc_validate_builds")
    n_lines = n_clk = 0
    for v, m, (table, steps) in zip(bverdicts, bmetas, btraces):
        n_lines += len(steps[-1]["lines"])
        n_clk += len(steps[-1]["clocks"])
        if v[0] == "REJ":
            findings.add(v, m, steps)
    ctx.cov["stages"]["build/validate"].update({"builds": len(bjobs), "location_constraints_checked": n_lines,
                                                "clock_constraints_checked": n_clk,
                                                "builds_with_platform_requested_default_clock": sum(1 for j in bjobs if j[4])})
    if n_lines == 0 or n_clk == 0:
        raise MachineryError("vacuous build stage: %d location / %d clock constraints" % (n_lines, n_clk))
    ok = next((k for k, v in enumerate(bverdicts) if v[0] == "ACC" and btraces[k][1][-1]["clocks"]), None)
    if ok is not None:
        ctx.sample({"vendor": bmetas[ok]["vendor"], "table": bmetas[ok]["table"], "calls": bmetas[ok]["calls"],
                    "constraint_file": bmetas[ok]["text"].split("\n")})
    findings.report(ctx)

    # ---------------- binding demonstration: corrupted recordings must be rejected -------------------------------
    demo = []
    good = next(((t, s) for (t, s), v in zip(sel_traces, verdicts)
                 if v[0] == "ACC" and any(len(p["p"]) > 1 for st in s for p in st["obs"]["ports"])), None)
    if good is not None:
        t, s = good
        for mut in ("pin_order", "invert", "granted"):
            s2 = json.loads(json.dumps(s))
            for st in s2:
                ps = [p for p in st["obs"]["ports"] if len(p["p"]) > 1]
                if ps and mut == "pin_order":
                    ps[0]["p"] = ps[0]["p"][::-1]
                    break
                if ps and mut == "invert":
                    ps[0]["invert"][0] = not ps[0]["invert"][0]
                    break
                if ps and mut == "granted":
                    st["obs"] = {"class": "ResourceError", "ports": []}
                    break
            demo.append((t, s2))
    goodb = next(((t, s) for (t, s), v in zip(btraces, bverdicts) if v[0] == "ACC" and len(s[-1]["lines"]) > 1), None)
    if goodb is not None:
        t, s = goodb
        s2 = json.loads(json.dumps(s))
        s2[-1]["lines"][0]["pin"], s2[-1]["lines"][1]["pin"] = s2[-1]["lines"][1]["pin"], s2[-1]["lines"][0]["pin"]
        demo.append((t, s2))
        s3 = json.loads(json.dumps(s))
        s3[-1]["lines"].append(dict(s3[-1]["lines"][0]))
        demo.append((t, s3))
    if (good is None or goodb is None) and not ctx.violations:
        raise MachineryError("binding demo: no accepted trace to corrupt")
    if demo:     # (when the implementation itself is being rejected there may be no accepted trace to corrupt)
        vs = _validate(ctx, None, demo, "binding-demo", count_states=False)
        ctx.cov["traces_validated_against_impl"] -= len(demo)
        if any(v[0] != "REJ" for v in vs):
            raise MachineryError("binding demo: corrupted traces were accepted: %r" % (vs,))
        mark("binding_demo")
        ctx.cov["stages"]["binding-demo/validate"]["corrupted_rejected"] = [str(v[2]) for v in vs]

    ctx.cov["exhaustive"] = False
    ctx.cov["rule"] = ("cases = executions of the real ResourceManager/Platform: tour walks covering every edge of the ResMgr "
                       "graph (histories <= %d over %d fixed tables), seeded random histories on random tables, and "
                       "Platform.build(do_build=False) runs on 4 vendor templates; non-trivial = more than one call (tours), "
                       "both grants and refusals (random), more than one constraint line (build)" % (maxlen, len(mtabs)))
    ctx.assume("tables name each physical pin at most once per resource and reference only existing connector pins "
               "(TableOK); other tables are not specified")
    ctx.assume("which of several applicable refusal reasons is reported is not specified: ResourceError is required iff "
               "unknown / already requested / shared pin applies and no direction or xdr error does")
    ctx.assume("xdr > 2 is exercised only with a direction other than '-' (refused); negative xdr is not exercised")
    ctx.assume("every tour walk is compared literally with TLC's state labels; the walks that differ and a sample of the "
               "others are also validated by ResMgrTrace (the two must agree, else machinery failure)")
    ctx.assume("location constraints are required for exactly the ports of the top module in the emitted RTLIL (the n side "
               "of a differential pair is a design port only on some vendors); clock constraints are not part of the "
               "Gowin .cst template and are not checked there")
    ctx.assume("iCE40 iCECube2, Lattice Diamond/Radiant and the Gowin vendor toolchain templates need Yosys to emit "
               "Verilog and cannot be rendered offline here: skipped")


def replay(ctx, rep):
    r = rep["replay"]
    table, reqs, meta = r["table"], r["reqs"], r["meta"]
    if meta.get("vendor"):
        steps, calls, text, msgs = _build_job((meta["vendor"], table, reqs, meta.get("seed", 0), meta.get("use_sync", False)))
        print(text)
    else:
        steps, calls, msgs = _rm_one(table, to_amaranth(table), reqs, meta.get("api") == "Platform")
        for c, m in zip(calls, msgs):
            print("  %s   %s" % (c, m))
    vs = _validate(ctx, None, [(table, steps)], "replay")
    print("replay verdict:", vs[0][:3])
    if vs[0][0] == "REJ":
        print("VIOLATION property=C19 replay=(same)")
        return 1
    return 0
