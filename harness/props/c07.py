"""C07 — every emitted RTLIL document is structurally well-formed.

spec:    RtlilWF (well-formedness clauses over a parsed document: UniqueNames, RefsExist, SlicesInBounds, WidthsAgree,
         PortIdsDense, SubmoduleCellsMatch, ForeignInstanceFaithful, ExactlyOneDriver, NoEmptyModules; the internal
         cell library as TLA+ data), HierGen (builder state machine: every state = one small design description).
reader:  harness/rtlil_parse.py — strict grammar of the RTLIL text format; a text it refuses is a violation by itself.
stages:  hiergen/*   TLC enumerates design descriptions (hierarchy shapes x clash-prone names x widths incl. 0 x where a
                     signal is driven / read / exported x memories, instances, I/O buffers, empty submodules ...);
                     each is rendered with real amaranth Modules, converted with back.rtlil.convert, parsed, and the
                     document judged by TLC against RtlilWF (code -> spec).
         random      seeded bigger designs (deeper trees, partial drivers, If/Switch trees, arithmetic, memories).
         corner      a few hand-picked legal designs (one signal twice in the ports list, swapped port names, a signal
                     named like a synthesized port, zero-width slices/registers in a submodule, partially driven port).
         binding     doctored documents and texts must be rejected with the expected clause; HierGen mutant.
Verdicts: a design that converts must give a text the reader accepts and RtlilWF accepts; a design of the generator
(legal by construction) on which convert raises is a violation too ("whatever design is converted").
Violation keys: {"clause": "convert_raises", "error": <exception type>, "where": "<file>:<function>" (innermost amaranth
frame), "source", "names": [signal names in order], "design"} | {"clause": "Parses", "source", "error"} |
{"clause": <RtlilWF clause>, "detail": <witness code>, "module", "source", "design"}; per class the (up to 4 / 3) smallest
designs are reported, the number of designs in the class is in coverage.convert_raises / coverage.rejected."""
import copy
import json
import os
import random
import re
import sys
import time
import traceback
import warnings

from ..common import pmap, MachineryError
from .. import expr_replay, tlaval
from .. import rtlil_parse as rp

LEVEL = "model_checking"


def _t(ctx, what, t0):
    """per-stage wall time into the evidence (and to stderr when VERIF_DEBUG is set)"""
    dt = round(time.time() - t0, 1)
    ctx.cov.setdefault("wall_by_step", {})[what] = dt
    if os.environ.get("VERIF_DEBUG"):
        print("[c07] %-40s %6.1fs" % (what, dt), file=sys.stderr, flush=True)
    return time.time()

# ------------------------------------------------------------------------------------------------------------------
# HierGen configurations (TLA+ constant definitions; see spec/HierGen.tla)
# ------------------------------------------------------------------------------------------------------------------
CLASH = '{"a", "a$1", "a$2", "a$3", "b", ""}'
CLASH_Q = '{"a", "a$1", "a$3", "b", ""}'
ALLK = '{"none", "alias", "not", "sync"}'
EXTRA_KINDS = '{"mem", "memsync", "inst", "iobi", "iobo", "iobt", "iobio", "empty", "empty2", "print", "formal"}'

BASE = dict(Shapes='{"top"}', SubNameSeqs='{<<"child", "a">>}', SinkOps="{TRUE}", Names='{"a"}', Widths="{1}", MaxSigs=0,
            Kinds='{"none"}', RdMode='"top"', PortModes='{"no"}', ExtraKinds="{}", ExtraNames='{""}', MaxExtras=0,
            PrivatePortsAllowed="FALSE")


def _configs(thorough):
    c = []
    # names: many same-module signals with clash-prone names, as inputs/ports, read in top
    c.append(("names3", dict(Names=CLASH if thorough else CLASH_Q, MaxSigs=3, PortModes='{"no", "auto"}', RdMode='"top"' if thorough else '"top1"')))
    c.append(("names4_noports", dict(Names='{"a", "a$3", "a$4", ""}', MaxSigs=4, PortModes='{"no"}', RdMode='"top1"')))
    # routing: one signal, every (driver module, kind) x (set of reading modules) x port mode, all shapes
    c.append(("route1", dict(Shapes='{"top", "child", "sibs", "chain"}',
                             SubNameSeqs='{<<"child", "a">>, <<"a", "">>}' if thorough else '{<<"child", "a">>}',
                             SinkOps="{TRUE, FALSE}" if thorough else "{TRUE}",
                             Names='{"a", "child", ""}' if thorough else '{"a", ""}', Widths="{0, 2}", MaxSigs=1, Kinds=ALLK,
                             RdMode='"any"',
                             PortModes='{"no", "auto", "named"}' if thorough else '{"no", "auto"}')))
    # extras: memory / instance / buffers / empty submodules anywhere in the tree, names clashing with signals
    c.append(("extras1", dict(Shapes='{"top", "child", "chain"}', SubNameSeqs='{<<"child", "a">>}', Names='{"a"}', Widths="{2}",
                              MaxSigs=1, Kinds='{"none", "sync"}' if thorough else '{"none"}',
                              RdMode='"one"' if thorough else '"top1"', PortModes='{"auto"}',
                              ExtraKinds=EXTRA_KINDS, ExtraNames='{"", "a", "x"}', MaxExtras=1)))
    if thorough:
        c.append(("names4", dict(Names=CLASH, MaxSigs=4, PortModes='{"no", "auto"}', RdMode='"top1"')))
        c.append(("names3_child", dict(Shapes='{"child"}', SubNameSeqs='{<<"a", "">>, <<"a$2", "">>}', Names='{"a", "a$2", "a$3", ""}',
                                       MaxSigs=3, Kinds='{"none"}', PortModes='{"no", "auto"}', RdMode='"one"')))
        c.append(("route2", dict(Shapes='{"sibs", "chain"}', SubNameSeqs='{<<"child", "a">>}', SinkOps="{TRUE}",
                                 Names='{"a"}', Widths="{1}", MaxSigs=2, Kinds='{"none", "not", "sync"}', RdMode='"any"',
                                 PortModes='{"no", "auto"}')))
        c.append(("extras2", dict(Shapes='{"child", "sibs"}', SubNameSeqs='{<<"child", "a">>}', Names='{"a"}', Widths="{2}",
                                  MaxSigs=0, ExtraKinds=EXTRA_KINDS, ExtraNames='{"", "a"}', MaxExtras=2)))
    else:
        c.append(("route2", dict(Shapes='{"chain"}', SubNameSeqs='{<<"child", "a">>}', Names='{"a"}', Widths="{1}", MaxSigs=2,
                                 Kinds='{"none", "not", "sync"}', RdMode='"one"', PortModes='{"no"}')))
    return [(n, dict(BASE, **d)) for n, d in c]


def _mc_module(consts, name="MC_HierGen"):
    lines = ["---- MODULE %s ----" % name, "EXTENDS HierGen"]
    cfg = ["SPECIFICATION Spec", "CHECK_DEADLOCK FALSE", "INVARIANT Legit", "CONSTANTS"]
    for k, v in consts.items():
        lines.append("C_%s == %s" % (k, v))
        cfg.append(" %s <- C_%s" % (k, k))
    lines.append("====")
    return "\n".join(lines) + "\n", "\n".join(cfg) + "\n"


# ------------------------------------------------------------------------------------------------------------------
# rendering a HierGen description with real amaranth objects (purely syntactic)
# ------------------------------------------------------------------------------------------------------------------
PARENTS = {"top": [0], "child": [0, 1], "sibs": [0, 1, 1], "chain": [0, 1, 2]}
PORT_NAMES = ["b", "a", "a$1", "p4", "p5", "p6"]


def wide_int(v):
    """TLC integers are 32 bits wide: larger integers travel as their binary digits (LSB first; minimal width: without a
    sign digit when non-negative, minimal two's complement when negative)."""
    if -(1 << 31) < v < (1 << 31):        # (TLC cannot negate -2**31)
        return ["int", v, [], ""]
    w = ((-v - 1).bit_length() + 1) if v < 0 else v.bit_length()
    u = v & ((1 << w) - 1)
    return ["wint", 0, ["1" if (u >> i) & 1 else "0" for i in range(w)], "neg" if v < 0 else ""]


def _wfc(v):
    """Python value given to Instance(p_/a_) -> constant in the form RtlilWF compares (rtlil_parse.wf_const layout)."""
    from amaranth.hdl import Const
    if isinstance(v, bool):
        return ["int", int(v), [], ""]
    if isinstance(v, int):
        return wide_int(v)
    if isinstance(v, str):
        return ["str", 0, [], v]
    if isinstance(v, float):
        return ["real", 0, [], repr(v)]
    if isinstance(v, Const):
        w = len(v)
        u = v.value & ((1 << w) - 1)
        return ["bits", w, ["1" if (u >> i) & 1 else "0" for i in range(w)], "signed" if v.shape().signed else ""]
    raise TypeError(v)


def _add_sub(parent, name, child):
    if name == "":
        parent.submodules += child
    else:
        parent.submodules[name] = child


def build_hier(d):
    """description -> (top Module, ports list, expected foreign instances)."""
    from amaranth.hdl import Module, Signal, Cat, Const, Instance, IOPort, IOBufferInstance, Print, Assert, Format, signed
    from amaranth.hdl._ast import AnyConst, AnySeq, Initial
    from amaranth.lib.memory import Memory
    par = PARENTS[d["shape"]]
    n_mods = len(par)
    mods = [Module() for _ in par]
    sd = d["sigs"]
    sigs = [Signal(s["w"], name=s["n"]) for s in sd]
    ports = []
    foreign = []
    for i in range(1, n_mods):
        _add_sub(mods[par[i] - 1], d["subn"][i - 1], mods[i])
    for i, s in enumerate(sd):
        if s["drv"]:
            k = s["drv"]
            srcs = [sigs[j] for j in range(i) if k in sd[j]["rd"]]
            x = Cat(*srcs) if srcs else Const(1, 1)
            if s["kind"] == "alias":
                mods[k - 1].d.comb += sigs[i].eq(x)
            elif s["kind"] == "not":
                mods[k - 1].d.comb += sigs[i].eq(~x)
            else:
                mods[k - 1].d.sync += sigs[i].eq(x)
        if s["port"] == "auto":
            ports.append(sigs[i])
        elif s["port"] == "named":
            ports.append((PORT_NAMES[i], sigs[i], None))
    for k in range(1, n_mods + 1):
        reads = [sigs[j] for j in range(len(sd)) if k in sd[j]["rd"]]
        if reads:
            sink = Signal(sum(len(r) for r in reads) + 1, name="sink%d" % k)
            mods[k - 1].d.comb += sink.eq(Cat(*reads) + 1 if d["sinkop"] else Cat(*reads))
    if d["extras"]:
        pi = Signal(2, name="pi")
        ports.append(pi)
    for idx, e in enumerate(d["extras"]):
        m = mods[e["at"] - 1]
        kind, nm = e["k"], e["nm"]
        padname = "pad%d" % idx if nm == "" else nm
        if kind in ("mem", "memsync"):
            mem = Memory(shape=2, depth=3, init=[1, 2])
            _add_sub(m, nm, mem)
            rport = mem.read_port(domain="comb" if kind == "mem" else "sync")
            wport = mem.write_port()
            xm = Signal(2, name="xm%d" % idx)
            m.d.comb += [rport.addr.eq(pi), wport.addr.eq(pi), wport.data.eq(~pi), wport.en.eq(pi[0]), xm.eq(rport.data)]
            ports.append(xm)
        elif kind == "inst":
            pad = IOPort(2, name=padname)
            xo = Signal(2, name="xo%d" % idx)
            zw = Signal(0, name="zw")
            params = {"X": 3, "S": 's"t\\r\n', "N": -5, "F": 1.5, "C": Const(5, 4), "D": Const(-2, signed(3)),
                      "E": Const(0, 0), "B": True}
            attrs = {"keep": 1, "txt": "hello world", "neg": -1}
            kw = {"p_" + k: v for k, v in params.items()}
            kw.update({"a_" + k: v for k, v in attrs.items()})
            conn = [["\\A", "i", 2, [["W", "\\pi", 0, 0]] if e["at"] == 1 else []],
                    ["\\Z", "i", 0, []],
                    ["\\ZO", "o", 0, []],
                    ["\\K", "i", 2, [["c", ["0", "1"], 0, 1]]],
                    ["\\B", "o", 2, [["W", "\\xo%d" % idx, 0, 0]] if e["at"] == 1 else []],
                    ["\\C", "io", 2, [["W", "\\" + padname, 0, 0]] if e["at"] == 1 and not _name_taken(d, padname) else []]]
            # a zero-width output declared BEFORE a wider one (it occupies no bits of the cell's output)
            kw.update(i_A=pi, i_Z=zw, i_K=Const(2, 2), o_ZO=Signal(0, name="zwo"), o_B=xo, io_C=pad)
            if sigs:
                kw["i_D"] = sigs[0]
                conn.append(["\\D", "i", len(sigs[0]), []])
            ty = "foo%d" % idx
            _add_sub(m, nm, Instance(ty, **kw))
            ports.append(xo)
            foreign.append(["\\" + ty, [["\\" + k, _wfc(v)] for k, v in params.items()],
                            [["\\" + k, _wfc(v)] for k, v in attrs.items()], conn])
        elif kind in ("iobi", "iobo", "iobt", "iobio"):
            pad = IOPort(2, name=padname)
            xi = Signal(2, name="xi%d" % idx)
            kw = {}
            if kind in ("iobi", "iobio"):
                kw["i"] = xi
                ports.append(xi)
            if kind in ("iobo", "iobt", "iobio"):
                kw["o"] = pi
            if kind in ("iobt", "iobio"):
                kw["oe"] = pi[0]
            m.submodules += IOBufferInstance(pad, **kw)
        elif kind == "empty":
            _add_sub(m, nm, Module())
        elif kind == "empty2":
            outer = Module()
            outer.submodules.inner = Module()
            _add_sub(m, nm, outer)
        elif kind == "print":
            m.d.comb += Print(Format("v={:03d} {{}} \"q\"\\", pi), pi[0])
            m.d.sync += Assert(pi[0] | pi[1], "both low")
        elif kind == "formal":
            xf = Signal(2, name="xf%d" % idx)
            m.d.comb += xf.eq((AnyConst(2) ^ AnySeq(2)) & Cat(Initial(), pi[1]))
            ports.append(xf)
        else:
            raise ValueError(kind)
    return mods[0], ports, foreign


def _name_taken(d, name):
    """True when another object of the design may claim `name` in the top module (then the harness does not predict
    the wire name a top-level I/O port ends up with)."""
    if any(s["n"] == name for s in d["sigs"]):
        return True
    if name in d["subn"]:
        return True
    return sum(1 for e in d["extras"] if e["nm"] == name) > 1 or name in ("pi",)


def _norm_desc(st):
    """TLC state -> JSON-able description."""
    return {"shape": st["shape"], "subn": list(st["subn"]), "sinkop": bool(st["sinkop"]),
            "sigs": [{"n": s["n"], "w": s["w"], "drv": s["drv"], "kind": s["kind"], "rd": sorted(s["rd"]), "port": s["port"]}
                     for s in st["sigs"]],
            "extras": [{"k": e["k"], "at": e["at"], "nm": e["nm"]} for e in st["extras"]]}


# ------------------------------------------------------------------------------------------------------------------
# seeded random bigger designs
# ------------------------------------------------------------------------------------------------------------------
RNAMES = ["a", "a", "a$1", "a$2", "a$3", "a$5", "b", "b", "", "top", "child", "clk", "rst", "s", "port$2$0", "o"]


def build_random(seed, size):
    """Deterministic random design: module tree of up to `size` modules, signals with partial drivers in several
    modules/domains, If/Switch trees, arithmetic, part-selects, a memory, an instance.  Legal by construction."""
    from amaranth.hdl import Module, Signal, Cat, Const, Mux, Instance, IOPort, signed, unsigned, ClockDomain
    from amaranth.lib.memory import Memory
    rng = random.Random(seed)
    n_mods = rng.randint(1, size)
    par = [0] + [rng.randint(1, i) for i in range(1, n_mods)]
    mods = [Module() for _ in par]
    taken = [set() for _ in par]
    for i in range(1, n_mods):
        nm = rng.choice(["", "", "child", "a", "b", "sub%d" % i, "a$2"])
        p = mods[par[i] - 1]
        if nm and nm in taken[par[i] - 1]:
            nm = ""
        taken[par[i] - 1].add(nm)
        _add_sub(p, nm, mods[i])
    n_sigs = rng.randint(1, 3 * size)
    sigs = []
    for i in range(n_sigs):
        w = rng.choice([0, 1, 1, 2, 3, 4, 8])
        sh = signed(w) if w and rng.random() < 0.3 else unsigned(w)
        sigs.append(Signal(sh, name=rng.choice(RNAMES), init=rng.randrange(1 << w) if w and not sh.signed else 0))
    ports = []
    foreign = []
    domains = ["comb", "sync"] + (["fast"] if rng.random() < 0.3 else [])
    if "fast" in domains:
        mods[0].domains.fast = ClockDomain("fast", async_reset=rng.random() < 0.5, clk_edge=rng.choice(["pos", "neg"]))

    def operand(i):
        """expression over signals with index < i (no combinational loops) and constants"""
        pool = sigs[:i]
        if not pool or rng.random() < 0.15:
            return Const(rng.randrange(16), rng.choice([1, 3, 4]))
        a = rng.choice(pool)
        r = rng.random()
        if r < 0.35 or len(a) == 0 and r < 0.6:
            return a
        b = rng.choice(pool)
        op = rng.choice(["+", "-", "*", "//", "%", "&", "|", "^", "==", "<", ">=", "<<", ">>", "~", "neg", "mux", "bit", "word", "cat",
                         "any", "slice", "bool", "as_s"])
        if op == "+":
            return a + b
        if op == "-":
            return a - b
        if op == "*":
            return a * b
        if op == "//":
            return a // b
        if op == "%":
            return a % b
        if op == "&":
            return a & b
        if op == "|":
            return a | b
        if op == "^":
            return a ^ b
        if op == "==":
            return a == b
        if op == "<":
            return a < b
        if op == ">=":
            return a >= b
        if op == "<<":
            return a << b.as_unsigned()[:3]
        if op == ">>":
            return a >> b.as_unsigned()[:3]
        if op == "~":
            return ~a
        if op == "neg":
            return -a
        if op == "mux":
            return Mux(b.any() if len(b) else Const(1), a, rng.choice(pool))
        if op == "bit":
            return a.bit_select(b.as_unsigned(), rng.choice([0, 1, 2]))
        if op == "word":
            return a.word_select(b.as_unsigned()[:2], rng.choice([1, 2, 3]))
        if op == "cat":
            return Cat(a, Const(1, 1), b)
        if op == "any":
            return a.any() ^ b.all() ^ a.xor()
        if op == "slice":
            return a[len(a) // 2:] if len(a) else a
        if op == "bool":
            return a.bool()
        return a.as_signed() + b if len(a) else b

    for i, s in enumerate(sigs):
        r = rng.random()
        w = len(s)
        if r < 0.2:
            pieces = []                         # undriven: an input port, or a constant-initialised net
        elif r < 0.75 or w < 2:
            pieces = [(0, w)]
        else:
            cut = rng.randint(1, w - 1)
            pieces = [(0, cut)] + ([(cut, w)] if rng.random() < 0.7 else [])
        for lo, hi in pieces:
            k = rng.randrange(n_mods)
            dom = rng.choice(domains)
            m = mods[k]
            tgt = s if (lo, hi) == (0, w) and rng.random() < 0.7 else s[lo:hi]
            shape = rng.random()
            if shape < 0.4:
                m.d[dom] += tgt.eq(operand(i))
            elif shape < 0.7:
                c = operand(i)
                with m.If(c.any() if len(c) else Const(0)):
                    m.d[dom] += tgt.eq(operand(i))
                with m.Elif(operand(i) == 1):
                    m.d[dom] += tgt.eq(operand(i))
                    with m.If(operand(i).bool()):
                        m.d[dom] += tgt.eq(operand(i))
                if rng.random() < 0.5:
                    with m.Else():
                        m.d[dom] += tgt.eq(operand(i))
            else:
                sel = operand(i)
                with m.Switch(sel):
                    if len(sel) >= 1:
                        with m.Case(0):
                            m.d[dom] += tgt.eq(operand(i))
                        with m.Case("1" + "-" * (len(sel) - 1)):
                            m.d[dom] += tgt.eq(operand(i))
                    if rng.random() < 0.6:
                        with m.Default():
                            m.d[dom] += tgt.eq(operand(i))
                            m.d[dom] += tgt.eq(operand(i))
        if s.name != "" and rng.random() < 0.35:
            ports.append(s)
        elif rng.random() < 0.1:
            ports.append(("named%d" % i, s, None))
    # every signal is read somewhere
    for k in range(n_mods):
        reads = [s for s in sigs if rng.random() < 0.3]
        if reads:
            sink = Signal(8, name=rng.choice(["sink", "a", "o"]))
            mods[k].d.comb += sink.eq(sum(reads[1:], reads[0]) if rng.random() < 0.5 else Cat(*reads))
            if rng.random() < 0.5:
                ports.append(sink)
    if rng.random() < 0.4:
        k = rng.randrange(n_mods)
        mem = Memory(shape=rng.choice([1, 4, signed(3)]), depth=rng.choice([1, 2, 5]), init=[])
        nm = rng.choice(["mem", "a", ""])
        _add_sub(mods[k], "" if nm in taken[k] else nm, mem)
        taken[k].add(nm)
        rd = mem.read_port(domain=rng.choice(["comb", "sync"]))
        wr = mem.write_port()
        a = rng.choice(sigs)
        out = Signal(len(rd.data), name=rng.choice(["q", "a"]))
        mods[k].d.comb += [rd.addr.eq(a), wr.addr.eq(a), wr.data.eq(a), wr.en.eq(a.any() if len(a) else 1), out.eq(rd.data)]
        ports.append(out)
    if rng.random() < 0.4:
        k = rng.randrange(n_mods)
        a = rng.choice(sigs)
        q = Signal(3, name=rng.choice(["q", "a", "iq"]))
        params = {"W": len(a), "NAME": rng.choice(["x", "a b", "\\esc\"aped\""]),
                  "V": rng.choice([-1, 0, 7, -2 ** 20, 2 ** 31 - 1, -2 ** 31, 2 ** 31, -2 ** 31 - 1, -5000000000, 2 ** 40 + 3, -2 ** 32]),
                  "R": rng.choice([0.5, -2.25, 1e10])}
        kw = {"p_" + n: v for n, v in params.items()}
        big = rng.choice([3, -2 ** 31 - 1, 2 ** 33 + 1, -7000000000, -2 ** 31])
        kw["a_big"] = big
        given_src = rng.choice([None, None, "rtl/vendor/cell.v:42.3-57.6"])      # an attribute the back end also writes itself
        if given_src is not None:
            kw["a_src"] = given_src
        if rng.random() < 0.5:
            kw["o_E"] = Signal(0, name="e0")          # zero-width output ahead of Q
        kw.update(a_black_box=1, i_I=a, i_J=Cat(a, Const(1, 1)), o_Q=q, io_P=IOPort(1, name=rng.choice(["pin", "a"])))
        nm = rng.choice(["u", "a", ""])
        _add_sub(mods[k], "" if nm in taken[k] else nm, Instance("ext_cell", **kw))
        ports.append(q)
        foreign.append(["\\ext_cell", [["\\" + n, _wfc(v)] for n, v in params.items()], [["\\big", _wfc(big)], ["\\black_box", _wfc(1)]] + ([["\\src", _wfc(given_src)]] if given_src is not None else []),
                        [["\\I", "i", len(a), []], ["\\J", "i", len(a) + 1, []], ["\\Q", "o", 3, []], ["\\P", "io", 1, []]]
                        + ([["\\E", "o", 0, []]] if "o_E" in kw else [])])
    if rng.random() < 0.5:
        # a pin group: one multi-bit IOPort whose bits are buffered one by one or in slices, with
        # different directions, by IO buffers placed in one or several modules of the tree
        from amaranth.hdl import IOBufferInstance
        w = rng.randint(2, 4)
        grp = IOPort(w, name=rng.choice(["spi", "pins", "a"]))
        lo = 0
        while lo < w:
            n = rng.randint(1, min(2, w - lo))
            if True:    # every bit is buffered: an unbuffered bit of an output group has, by design, no driver at all
                k = rng.randrange(n_mods) if rng.random() < 0.3 else n_mods - 1
                d = rng.choice(["i", "o", "io", "t"])
                kw = {}
                if d in ("i", "io"):
                    kw["i"] = pin_i = Signal(n, name=rng.choice(["pin_i", "a"]))
                    ports.append(pin_i)
                if d in ("o", "io", "t"):
                    kw["o"] = pin_o = Signal(n, name=rng.choice(["pin_o", "a"]))
                    ports.append(pin_o)
                if d in ("io", "t"):
                    kw["oe"] = pin_oe = Signal(1, name="pin_oe")
                    ports.append(pin_oe)
                mods[k].submodules += IOBufferInstance(grp[lo:lo + n], **kw)
            lo += n
    return mods[0], ports, foreign


# ------------------------------------------------------------------------------------------------------------------
# hand-picked corner designs (directed; each is legal amaranth)
# ------------------------------------------------------------------------------------------------------------------
def _corner_same_signal_twice_in_ports():
    from amaranth.hdl import Module, Signal
    m = Module()
    a, o = Signal(2, name="a"), Signal(2, name="o")
    m.d.comb += o.eq(~a)
    return m, [a, a, o], []


def _corner_one_signal_two_port_names():
    from amaranth.hdl import Module, Signal
    m = Module()
    a, o = Signal(2, name="a"), Signal(2, name="o")
    m.d.comb += o.eq(~a)
    return m, [("x", a, None), ("y", a, None), o], []


def _corner_port_names_swapped():
    from amaranth.hdl import Module, Signal
    m = Module()
    m.submodules.c = c = Module()
    a, o = Signal(2, name="a"), Signal(2, name="o")
    c.d.comb += o.eq(~a)
    return m, {"o": (a, None), "a": (o, None)}, []


def _corner_signal_named_like_synthesized_port():
    """the child reads s[0:2] + u; the sum reaches the parent through a port amaranth names port$2$0 -- and the user
    signal u carries that very name"""
    from amaranth.hdl import Module, Signal
    m = Module()
    m.submodules.c = c = Module()
    a, s, u, o = Signal(2, name="a"), Signal(3, name="s"), Signal(1, name="port$2$0"), Signal(4, name="o")
    m.d.comb += s.eq(a + 1)
    c.d.comb += o.eq(s[0:2] + u)
    return m, [a, u, o], []


def _corner_zero_width_slice_assigned_under_if():
    from amaranth.hdl import Module, Signal
    m = Module()
    m.submodules.child = c = Module()
    s, a = Signal(2, name="s"), Signal(1, name="a")
    with c.If(a):
        c.d.comb += s[0:0].eq(1)
    return m, [a], []


def _corner_zero_width_register_in_child():
    from amaranth.hdl import Module, Signal
    m = Module()
    m.submodules.child = c = Module()
    z = Signal(0, name="z")
    c.d.sync += z.eq(1)
    return m, [], []


def _corner_instance_drives_part_of_port():
    from amaranth.hdl import Module, Signal, Instance
    m = Module()
    m.submodules.child = c = Module()
    o, i = Signal(4, name="o"), Signal(2, name="i")
    c.submodules.u = Instance("blk", i_I=i, o_O=o[1:3])
    f = [["\\blk", [], [], [["\\I", "i", 2, []], ["\\O", "o", 2, []]]]]
    return m, [i, o], f


def _corner_everything_private():
    from amaranth.hdl import Module, Signal
    m = Module()
    m.submodules += (c := Module())
    a, b, o = Signal(2, name=""), Signal(2, name=""), Signal(3, name="")
    c.d.sync += b.eq(a + 1)
    m.d.comb += o.eq(b - a)
    return m, [("p", a, None), ("q", o, None)], []


CORNERS = {f.__name__[len("_corner_"):]: f for f in (
    _corner_same_signal_twice_in_ports, _corner_one_signal_two_port_names, _corner_port_names_swapped,
    _corner_signal_named_like_synthesized_port, _corner_zero_width_slice_assigned_under_if,
    _corner_zero_width_register_in_child, _corner_instance_drives_part_of_port, _corner_everything_private)}


# ------------------------------------------------------------------------------------------------------------------
# design -> document
# ------------------------------------------------------------------------------------------------------------------
def _frame(tb):
    """innermost amaranth frame of a traceback: 'file.py:function'"""
    best = None
    for fs in traceback.extract_tb(tb):
        if "/amaranth/" in fs.filename:
            best = "%s:%s" % (fs.filename.split("/amaranth/")[-1], fs.name)
    return best or "?"


def convert_and_parse(top, ports, foreign, emit_src=True, origin=None):
    """-> ("doc", wf document) | ("convert_raises", error type, where, message) | ("parse_error", message, text)"""
    from amaranth.back import rtlil
    try:
        with warnings.catch_warnings():
            warnings.simplefilter("ignore")
            text = rtlil.convert(top, ports=ports, emit_src=emit_src)
    except Exception as e:
        return ("convert_raises", type(e).__name__, _frame(e.__traceback__), str(e)[:300])
    try:
        doc = rp.parse(text)
    except rp.RtlilSyntaxError as e:
        return ("parse_error", str(e), text)
    return ("doc", rp.wf_document(doc, foreign, origin=origin), len(text))


def _pack(res):
    """documents travel as JSON text from the workers to the batch files"""
    if res[0] == "doc":
        return ("doc", json.dumps(res[1], separators=(",", ":")))
    return res


def _worker(job):
    """("hier", config, dump path, lo, hi) | ("random", [(seed, size)...]) | ("corner", [name...])
    -> [(source, description, result)...]"""
    out = []
    if job[0] == "hier":
        _k, cfgname, path, lo, hi = job
        for st in expr_replay.iter_states_range(path, lo, hi):
            d = _norm_desc(st)
            fp = json.dumps(d, sort_keys=True)
            try:
                top, ports, foreign = build_hier(d)
            except Exception:
                raise MachineryError("HierGen description could not be rendered (generator error, not amaranth's):\n%s\n%s"
                                     % (fp, traceback.format_exc()))
            d["emit_src"] = (len(fp) & 1) == 0
            res = convert_and_parse(top, ports, foreign, emit_src=d["emit_src"])
            out.append(("hiergen/" + cfgname, d, _pack(res)))
    elif job[0] == "corner":
        for name in job[1]:
            top, ports, foreign = CORNERS[name]()
            out.append(("corner", {"corner": name, "emit_src": True}, _pack(convert_and_parse(top, ports, foreign))))
    else:
        for seed, size in job[1]:
            top, ports, foreign = build_random(seed, size)
            d = {"seed": seed, "size": size, "emit_src": bool(seed & 1)}
            out.append(("random", d, _pack(convert_and_parse(top, ports, foreign, emit_src=d["emit_src"]))))
    return out


# ------------------------------------------------------------------------------------------------------------------
# validation of documents by TLC (RtlilWF)
# ------------------------------------------------------------------------------------------------------------------
_CFG = "SPECIFICATION Spec\nCHECK_DEADLOCK FALSE\nINVARIANT TypeOK\n"


def _parse_printed(txt):
    """tlaval.parse with backslashes kept intact (RTLIL identifiers start with one; tlaval unescapes "\\t" twice)."""
    def back(v):
        if isinstance(v, str):
            return type(v)(v.replace("\x01", "\\")) if "\x01" in v else v
        if isinstance(v, tuple):
            return tuple(back(x) for x in v)
        if isinstance(v, list):
            return [back(x) for x in v]
        if isinstance(v, frozenset):
            return frozenset(back(x) for x in v)
        if isinstance(v, dict):
            return {back(k): back(x) for k, x in v.items()}
        return v
    return back(tlaval.parse(txt.replace("\\\\", "\x01")))


def validate_documents(ctx, docs, stage, batch_bytes=1_500_000, batch_docs=800, workers=4, parallel=4, count=True):
    """docs: list of rtlil_parse.wf_document results (dicts, or their JSON text).  Returns verdicts aligned with docs:
    ("ACC", n_modules, n_bits, n_cells) or ("REJ", module, clause, detail).  Batches are judged by concurrent TLC runs.
    Reusable (C04)."""
    from concurrent.futures import ThreadPoolExecutor
    texts = [d if isinstance(d, str) else json.dumps(d, separators=(",", ":")) for d in docs]
    batches, cur, size = [], [], 0
    for i, t in enumerate(texts):
        if cur and (size + len(t) > batch_bytes or len(cur) >= batch_docs):
            batches.append(cur)
            cur, size = [], 0
        cur.append(i)
        size += len(t)
    if cur:
        batches.append(cur)
    verdicts = [None] * len(docs)
    st_name = "%s/validate" % stage
    tag = re.sub(r"\W", "_", stage)

    def one(bi):
        idx = batches[bi]
        path = os.path.join(ctx.tmp, "rtlilwf_%s_%d.json" % (tag, bi))
        with open(path, "w") as f:
            f.write('{"traces":[')
            f.write(",".join(texts[i] for i in idx))
            f.write("]}")
        r = ctx.tlc("RtlilWF", stage=st_name, cfg_text=_CFG, env={"TRACE_FILE": path}, workers=workers, count=False,
                    timeout=3600)
        os.unlink(path)
        got = {}
        for txt in r.printed():
            head = re.sub(r"\s+", "", txt[:12])
            if not (head.startswith('<<"ACC"') or head.startswith('<<"REJ"')):
                continue
            v = _parse_printed(txt)
            i = idx[v[1] - 1]
            if v[0] == "ACC":
                got[i] = ("ACC",) + tuple(v[2:])
            elif i not in got:
                got[i] = ("REJ",) + tuple(v[2:])
        return r.distinct, r.wall, got

    with ThreadPoolExecutor(max(1, parallel)) as ex:
        results = list(ex.map(one, range(len(batches))))
    states = 0
    for distinct, _wall, got in results:
        states += distinct
        for i, v in got.items():
            verdicts[i] = v
    st = ctx.cov["stages"].setdefault(st_name, {})
    st.update({"batches": len(batches), "documents": len(docs), "trace_states": states,
               "tlc_wall_s": round(sum(w for _d, w, _g in results), 1)})
    st.pop("tlc_states", None)
    st.pop("tlc_generated", None)
    if count:
        ctx.cov["trace_states_checked"] = ctx.cov.get("trace_states_checked", 0) + states
        ctx.cov["traces_validated_against_impl"] += len(docs)
    missing = [i for i, v in enumerate(verdicts) if v is None]
    if missing:
        raise MachineryError("RtlilWF: no verdict for %d documents (first: %d) in stage %s" % (len(missing), missing[0], stage))
    return verdicts


def _detail_code(detail):
    if isinstance(detail, (tuple, list)) and detail and isinstance(detail[0], str):
        return detail[0]
    return str(detail)[:60]


def _judge(ctx, entries, stage):
    """entries: [(source, description, result)].  Reports violations; returns (document texts, owners, verdicts)."""
    docs, owners = [], []
    raises = {}
    for source, d, res in entries:
        if res[0] == "doc":
            docs.append(res[1])
            owners.append((source, d))
        elif res[0] == "convert_raises":
            raises.setdefault((res[1], res[2]), []).append((source, d, res))
        else:
            key = {"clause": "Parses", "source": source, "error": res[1][:160]}
            ctx.violation(key, "the RTLIL reader refuses the text emitted for %s: %s" % (json.dumps(d), res[1]),
                          replay={"source": source, "design": d, "text": res[2]})
    for (err, where), lst in sorted(raises.items()):
        lst.sort(key=lambda x: (0 if "sigs" in x[1] else 1, len(x[1].get("sigs", ())) + len(x[1].get("extras", ())),
                                len(json.dumps(x[1]))))
        by_src = {}
        for source, _d, _r in lst:
            by_src[source] = by_src.get(source, 0) + 1
        ctx.cov.setdefault("convert_raises", {})["%s@%s" % (err, where)] = by_src
        for source, d, res in lst[:4]:
            key = {"clause": "convert_raises", "error": err, "where": where, "source": source}
            if "sigs" in d:
                key["names"] = [s["n"] for s in d["sigs"]]
            key["design"] = _short(d)
            ctx.violation(key, "rtlil.convert raises %s (%s) in %s on a legal design (%d such designs in this run: %s; smallest "
                               "shown): %s" % (err, res[3], where, len(lst), by_src, json.dumps(d)),
                          replay={"source": source, "design": d})
    verdicts = validate_documents(ctx, docs, stage, batch_docs=800 if len(docs) < 20000 else 3000,
                                  batch_bytes=1_500_000 if len(docs) < 20000 else 4_000_000)
    rejected = {}
    for (source, d), v in zip(owners, verdicts):
        nontrivial = v[0] == "REJ" or v[2] > 0
        ctx.case((source, json.dumps(d, sort_keys=True)), nontrivial=nontrivial)
        if v[0] == "REJ":
            rejected.setdefault((v[2], _detail_code(v[3])), []).append((source, d, v))
    for (clause, code), lst in sorted(rejected.items()):
        lst.sort(key=lambda x: (0 if "sigs" in x[1] else 1, len(x[1].get("sigs", ())) + len(x[1].get("extras", ())),
                                len(json.dumps(x[1]))))
        by_src = {}
        for source, _d, _v in lst:
            by_src[source] = by_src.get(source, 0) + 1
        ctx.cov.setdefault("rejected", {})["%s/%s" % (clause, code)] = by_src
        for source, d, v in lst[:3]:
            key = {"clause": clause, "detail": code, "module": v[1], "source": source, "design": _short(d)}
            ctx.violation(key, "RtlilWF rejects the document emitted for %s: module %s breaks %s: %s  (%d such documents in this "
                               "run: %s; smallest shown)" % (json.dumps(d), v[1], clause, tlaval_text(v[3]), len(lst), by_src),
                          replay={"source": source, "design": d})
    return docs, owners, verdicts


def tlaval_text(v):
    s = repr(v)
    return s if len(s) < 600 else s[:600] + "..."


def _short(d):
    if "sigs" not in d:
        return d
    return {"shape": d["shape"], "subn": d["subn"], "sigs": [[s["n"], s["w"], s["drv"], s["kind"], s["rd"], s["port"]] for s in d["sigs"]],
            "extras": [[e["k"], e["at"], e["nm"]] for e in d["extras"]], "sinkop": d["sinkop"]}


# ------------------------------------------------------------------------------------------------------------------
BAD_TEXTS = [
    ("missing end", "module \\m\n  wire width 1 \\a\n"),
    ("unknown keyword", "module \\m\n  wires width 1 \\a\nend\n"),
    ("slice glued to id", "module \\m\n  wire width 2 \\a\n  wire width 2 \\b\n  connect \\a\\b\nend\n"),
    ("bad digit", "module \\m\n  wire width 2 \\a\n  connect \\a 2'12\nend\n"),
    ("wire option twice", "module \\m\n  wire width 2 width 3 \\a\nend\n"),
    ("negative width", "module \\m\n  wire width -2 \\a\nend\n"),
    ("statement outside module", "wire width 1 \\a\n"),
    ("trailing garbage", "module \\m\n  wire width 1 \\a extra\nend\n"),
    ("unterminated string", "attribute \\x \"abc\nmodule \\m\nend\n"),
    ("case outside switch", "module \\m\n  wire width 1 \\a\n  process $p\n    case 1'1\n  end\nend\n"),
    ("parameter in process", "module \\m\n  process $p\n    parameter \\X 1\n  end\nend\n"),
    ("unclosed brace", "module \\m\n  wire width 1 \\a\n  connect \\a { 1'0\nend\n"),
    ("no final newline", "module \\m\nend"),
]
GOOD_TEXT = ("autoidx 7\n# comment\nattribute \\top 1\nmodule \\m\n  parameter \\P 3\n  attribute \\init 2's01\n  wire width 2 upto offset 3 signed input 1 \\a\n"
             "  wire output 2 \\y\n  memory width 2 size 4 offset 1 \\mem\n  cell $not $1\n    parameter \\A_SIGNED 0\n    parameter \\A_WIDTH 1\n"
             "    parameter \\Y_WIDTH 1\n    connect \\A \\a [0]\n    connect \\Y \\y\n  end\n  process $p\n    assign \\y 1'0\n    attribute \\full_case 1\n"
             "    switch { \\a [1] \\a [0] }\n      attribute \\x 1\n      case 2'1-, 2'01\n        switch {}\n          case\n        end\n      case\n"
             "    end\n    sync posedge \\a [0]\n      update \\y 1'1\n    sync always\n  end\n  connect \\y \"A\" [0]\nend\n")


def _selftest_reader():
    for name, text in BAD_TEXTS:
        try:
            rp.parse(text)
        except rp.RtlilSyntaxError:
            continue
        raise MachineryError("RTLIL reader accepts a malformed text (%s)" % name)
    doc = rp.parse(GOOD_TEXT)
    m = doc["modules"][0]
    ok = (doc["autoidx"] == 7 and m["wires"][0]["port"] == {"dir": "input", "id": 1} and m["wires"][0]["offset"] == 3
          and m["processes"][0]["body"][1]["cases"][0]["patterns"][0]["chunks"][0]["bits"] == "-1"
          and m["connects"][0]["rhs"]["chunks"][0]["bits"] == "1" and len(m["processes"][0]["syncs"]) == 2)
    if not ok:
        raise MachineryError("RTLIL reader misreads the reference text")
    return len(BAD_TEXTS)


DEMO_TEXT = """attribute \\top 1
module \\top
  wire width 2 input 0 \\a
  wire width 1 input 1 \\clk
  wire width 2 output 2 \\o
  wire width 2 \\n
  wire width 3 $1
  cell \\top.child \\child
    connect \\a \\a [1:0]
    connect \\clk \\clk [0]
    connect \\o \\o
  end
  cell $add $2
    parameter \\A_SIGNED 0
    parameter \\B_SIGNED 0
    parameter \\A_WIDTH 2
    parameter \\B_WIDTH 1
    parameter \\Y_WIDTH 3
    connect \\A \\a [1:0]
    connect \\B 1'1
    connect \\Y $1
  end
  connect \\n $1 [1:0]
end
module \\top.child
  wire width 2 input 0 \\a
  wire width 1 input 1 \\clk
  attribute \\init 2'00
  wire width 2 output 2 \\o
  wire width 2 $1
  process $2
    assign $1 [1:0] \\a [1:0]
    switch \\a [0]
      case 1'1
        assign $1 [0] 1'0
    end
  end
  cell $dff $3
    parameter \\WIDTH 2
    parameter \\CLK_POLARITY 1
    connect \\D $1 [1:0]
    connect \\CLK \\clk [0]
    connect \\Q \\o
  end
end
"""


def _binding_demo(ctx):
    """A hand-written two-module document must be accepted and each doctored copy of it rejected by the clause
    that was broken (independent of what amaranth emits)."""
    good = rp.wf_document(rp.parse(DEMO_TEXT))
    names = {m["name"] for m in good["mods"]}

    def mut(doc, fn):
        d = copy.deepcopy(doc)
        fn(d)
        return d

    def dup_connect(d):
        d["mods"][0]["conns"].append(copy.deepcopy(d["mods"][0]["conns"][0]))

    def drive_input(d):
        w = next(w for w in d["mods"][0]["wires"] if w[2] == "input" and w[1] > 0)
        d["mods"][0]["conns"].append([[["W", w[0], 0, 0]], [["c", ["0"] * w[1], 0, w[1] - 1]], 10 ** 6])

    def missing_wire(d):
        used = {ch[1] for c in d["mods"][0]["cells"] for _p, spec in c[3] for ch in spec if ch[0] != "c"}
        w = next(w for w in d["mods"][0]["wires"] if w[0] in used)
        w[0] = w[0] + "_gone"

    def widen(d):
        d["mods"][0]["conns"][0][1].append(["c", ["0"], 0, 0])

    def port_gap(d):
        ps = [w for w in d["mods"][0]["wires"] if w[2]]
        ps[-1][3] += 1

    def drop_port(d):
        c = next(c for c in d["mods"][0]["cells"] if c[0] in names)
        c[3].pop()

    def dup_name(d):
        d["mods"][0]["wires"].append(copy.deepcopy(d["mods"][0]["wires"][0]))

    def out_of_bounds(d):
        w = next(w for w in d["mods"][0]["wires"] if w[2] == "input" and w[1] > 0)
        d["mods"][0]["cells"][0][3][0][1] = [["w", w[0], 0, w[1]]]

    def empty_module(d):
        m = d["mods"][1]
        m["cells"], m["procs"], m["conns"] = [], [], []

    muts = [(dup_connect, "ExactlyOneDriver"), (drive_input, "ExactlyOneDriver"), (missing_wire, "RefsExist"),
            (widen, "WidthsAgree"), (port_gap, "PortIdsDense"), (drop_port, "SubmoduleCellsMatch"), (dup_name, "UniqueNames"),
            (out_of_bounds, "SlicesInBounds")]
    bad = [mut(good, f) for f, _ in muts]
    vs = validate_documents(ctx, [good] + bad, "binding-demo", count=False)
    if vs[0][0] != "ACC":
        raise MachineryError("binding demo: the reference document is rejected: %r" % (vs[0],))
    vs = vs[1:]
    report = []
    for (f, clause), v in zip(muts, vs):
        report.append([f.__name__, v[0], v[2] if v[0] == "REJ" else ""])
        if v[0] != "REJ" or v[2] != clause:
            raise MachineryError("binding demo: doctored document (%s) got verdict %r, expected REJ by %s" % (f.__name__, v, clause))
    ctx.cov["stages"]["binding-demo/validate"]["doctored_rejected"] = report


# ------------------------------------------------------------------------------------------------------------------
def run(ctx):
    from concurrent.futures import ThreadPoolExecutor
    import amaranth.hdl, amaranth.back.rtlil, amaranth.lib.memory  # noqa: F401,E401  (before forking the pool)
    th = ctx.thorough
    n_bad = _selftest_reader()
    ctx.cov["stages"]["reader-selftest"] = {"malformed_texts_refused": n_bad, "reference_text_read": True}

    # ---- HierGen: TLC enumerates the design descriptions (all configurations concurrently) ----------------
    t0 = time.time()
    cfgs = _configs(th)

    def enumerate_cfg(nc):
        name, consts = nc
        mod = "MC_HierGen_" + name
        mod_text, cfg_text = _mc_module(consts, mod)
        dump = os.path.join(ctx.tmp, "hiergen_" + name)
        r = ctx.tlc(mod, stage="hiergen/" + name, cfg_text=cfg_text, workers=2, args=("-coverage", "1", "-dump", dump),
                    extra_files={mod + ".tla": mod_text})
        need = (["AddSig"] if consts["MaxSigs"] else []) + (["AddExtra"] if consts["MaxExtras"] else [])
        ctx.require_actions(r, need, "hiergen/" + name)
        return name, dump + ".dump", r.distinct

    def mutant(_):
        mod_text, cfg_text = _mc_module(dict(BASE, Names='{"a", ""}', MaxSigs=1, PortModes='{"no", "auto"}',
                                             PrivatePortsAllowed="TRUE"), "MC_HierGen_mutant")
        ctx.tlc("MC_HierGen_mutant", stage="hiergen/mutant-private-port", cfg_text=cfg_text, workers=1, expect_violation="Legit",
                extra_files={"MC_HierGen_mutant.tla": mod_text})

    with ThreadPoolExecutor(8) as ex:
        fm = ex.submit(mutant, None)
        dumps = list(ex.map(enumerate_cfg, cfgs))
        fm.result()
    t0 = _t(ctx, "enumerate (TLC, %d configurations)" % len(cfgs), t0)

    # ---- render + convert + parse, one pool for everything -------------------------------------------------
    jobs = []
    for name, path, n in dumps:
        for lo, hi in expr_replay.split_dump(path, max(1, min(64, n // 40))):
            jobs.append(("hier", name, path, lo, hi))
    n_rand = 3000 if th else 200
    rjobs = [(ctx.rng.getrandbits(40), 6 if i % 3 else 3) for i in range(n_rand)]
    jobs += [("random", rjobs[i:i + 10]) for i in range(0, n_rand, 10)]
    jobs.append(("corner", sorted(CORNERS)))
    parts = pmap(_worker, jobs)
    entries = [x for p in parts for x in p]
    for name, path, n in dumps:
        os.unlink(path)
        got = sum(1 for e in entries if e[0] == "hiergen/" + name)
        if got != n:
            raise MachineryError("hiergen/%s: rendered %d designs, TLC enumerated %d" % (name, got, n))
        ctx.cov["stages"]["hiergen/" + name]["designs"] = n
    t0 = _t(ctx, "render+convert+parse (%d designs)" % len(entries), t0)

    # ---- judgement by RtlilWF ---------------------------------------------------------------------------------
    with ThreadPoolExecutor(1) as ex:
        demo = ex.submit(_binding_demo, ctx)        # independent of the documents: runs beside the judgement
        docs, owners, verdicts = _judge(ctx, entries, "documents")
        demo.result()
    t0 = _t(ctx, "judge (%d documents)" % len(docs), t0)
    by_src = {}
    for (source, _d), v in zip(owners, verdicts):
        e = by_src.setdefault(source, {"documents": 0, "accepted": 0, "wire_bits": 0, "cells": 0})
        e["documents"] += 1
        if v[0] == "ACC":
            e["accepted"] += 1
            e["wire_bits"] += v[2]
            e["cells"] += v[3]
    for source, e in by_src.items():
        ctx.cov["stages"].setdefault(source, {}).update(e)
    for want in ("hiergen/extras1", "hiergen/route1", "random"):
        idx = [i for i, (o, v) in enumerate(zip(owners, verdicts)) if o[0] == want and v[0] == "ACC"]
        if idx:
            i = max(idx, key=lambda i: verdicts[i][3])
            ctx.sample({"source": want, "design": _short(owners[i][1]), "verdict": list(verdicts[i]),
                        "modules": [m["name"] for m in json.loads(docs[i])["mods"]]})

    # ---- documents of the language-level design families (the design sources of C04): expressions, statements with
    # every assignment-target form, FSMs, domains / inserters / renamers, random hierarchies -------------------------
    from . import c04
    c04.WANT_WF = True
    ljobs = c04.design_jobs(ctx, th, scale=0.5)
    lres = pmap(c04._run_job, ljobs, chunksize=4)
    ldocs, lmeta = [], []
    for r in lres:
        if r[0] == "ok":
            ldocs.append(r[1]["wf"])
            lmeta.append(r[1]["meta"])
        elif r[0] == "violation":
            ctx.violation({"clause": "convert_or_parse", "source": "language/" + r[2]["source"], "what": r[1].split(":")[0]},
                          "design from the %s family: %s (%s)" % (r[2]["source"], r[1], str(r[2])[:600]), replay=r[2])
    lverd = validate_documents(ctx, ldocs, "language-designs")
    acc = 0
    for v, m in zip(lverd, lmeta):
        ctx.case(repr(m))
        if v[0] == "ACC":
            acc += 1
        else:
            ctx.violation({"clause": v[2], "source": "language/" + m["source"], "detail": str(v[3])[:120]},
                          "RTLIL of a design from the %s family is not well-formed: module %s, clause %s, %s; design: %s" % (
                              m["source"], v[1], v[2], str(v[3])[:300], str(m)[:800]), replay={"meta": m, "verdict": list(map(str, v))})
    ctx.cov["stages"]["language-designs"] = {"documents": len(ldocs), "accepted": acc}
    ctx.cov["traces_validated_against_impl"] += len(ldocs)
    t0 = _t(ctx, "language designs (%d documents)" % len(ldocs), t0)

    ctx.cov["exhaustive"] = False
    ctx.cov["rule"] = ("case = one design (a HierGen state rendered with amaranth, or a seeded random design) whose emitted "
                       "RTLIL was parsed and judged by RtlilWF; non-trivial = the document has at least one wire bit whose "
                       "drivers were counted (or was rejected); every HierGen state of the listed configurations is rendered")
    ctx.assume("port indices may start at 0 or at 1 (amaranth numbers from 0; Yosys renumbers on reading)")
    ctx.assume("instance parameters/attributes are compared for |integers| < 2^30; the reader resolves bare wire names, "
               "the specification resolves their widths")
    ctx.assume("foreign-instance connections are compared bit-for-bit only where the harness can name the wire "
               "(instance placed in the top module, connected to uniquely named top-level ports); elsewhere widths, "
               "directions and drivers only")


def replay(ctx, rep):
    r = rep["replay"]
    d = r["design"]
    if r["source"].startswith("hiergen"):
        top, ports, foreign = build_hier(d)
    elif r["source"] == "corner":
        top, ports, foreign = CORNERS[d["corner"]]()
    else:
        top, ports, foreign = build_random(d["seed"], d["size"])
    import shutil
    res = convert_and_parse(top, ports, foreign, emit_src=d.get("emit_src", True))
    try:
        if res[0] != "doc":
            print("replay:", res[:4] if res[0] == "convert_raises" else res[:2])
            print("VIOLATION property=C07 replay=(same)")
            return 1
        v = validate_documents(ctx, [res[1]], "replay", count=False)[0]
        print("replay verdict:", v)
        if v[0] == "REJ":
            print("VIOLATION property=C07 replay=(same)")
            return 1
        return 0
    finally:
        shutil.rmtree(ctx.tmp, ignore_errors=True)
