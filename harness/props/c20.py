"""C20 — Print, Assert and Format match Python formatting at the right instants.

spec:   Fmt (the format mini-language as TLA+ functions: Class / Text for a raw bit pattern of a shape),
        FmtCases + MC_Fmt (builder machine: every final state = one (specification, shape) case with the expected
        class and the expected text for every value tried; theorems WidthHonoured, RoundTrip, ZeroPadReads,
        PaddingOnly, GroupingShape, StringBytes), FmtTiming (sync-domain machine with a catalogue of If/Switch
        nestings of Print / Assert / Assume; every state = input history + expected emissions + expected stop;
        theorems EmitExact, StopExact, ... against a declarative "active" relation).
stages: mc/fmt        TLC enumerates the grammar x shapes (x values), -dump
        replay/fmt    every case asked of the real amaranth: Format("{:spec}", signal) accepted / rejected, and for the
                      accepted ones the text printed by `m.d.sync += Print(...)` in pysim for every value, compared
                      literally with TLC's character codes; a subset again through a failing Assert / Assume message.
                      Triangulation: Python's own str.format is evaluated on every case; Fmt != str.format is a
                      *specification* defect (MachineryError, exit 2), never a violation.
        mc/timing     TLC enumerates (program, input history) pairs
        replay/timing every maximal history replayed on the real simulator (set inputs, tick): emitted lines with the
                      edge at which they appear, and the edge at which AssertionError leaves Simulator.run()
        mutants       seeded errors in Fmt / FmtTiming must violate the named theorems; binding demos: a corrupted
                      expected text / emission list must be reported by the comparison
Verdicts: amaranth vs values computed by TLC from Fmt / FmtTiming (compared equal / not equal)."""
import contextlib
import io
import os
import re
import signal
import time
import warnings
import zlib
from concurrent.futures import ThreadPoolExecutor

from ..common import pmap, MachineryError
from .. import expr_replay, tlaval

LEVEL = "model_checking"

CFG_FMT = """SPECIFICATION Spec
CONSTANTS FmtMutant = "{mutant}"
 Shapes <- {shapes}
 FillAligns <- {fas}
 Signs <- {signs}
 Alts = {{TRUE, FALSE}}
 Zeros = {{TRUE, FALSE}}
 Widths <- {widths}
 Grps <- {grps}
 TypeSet <- {types}
 Picks <- {picks}
 Rand = {{{rand}}}
INVARIANT WellFormedCases
INVARIANT WidthHonoured
INVARIANT RoundTrip
INVARIANT ZeroPadReads
INVARIANT PaddingOnly
INVARIANT GroupingShape
INVARIANT StringBytes
CHECK_DEADLOCK FALSE
"""

CFG_TIMING = """SPECIFICATION Spec
CONSTANTS MaxLen = {maxlen}
 ProgIds = {{{progs}}}
 TMutant = "{mutant}"
INVARIANT EmitExact
INVARIANT EmitOnce
INVARIANT StopExact
INVARIANT StopsForGood
INVARIANT AtStop
CHECK_DEADLOCK FALSE
"""

N_PROGRAMS = 33
BATCH = 600            # Print statements per simulated module
ASSERT_BATCH = 48      # Assert/Assume statements per simulated module (one simulation run each)


def _txt(codes):
    return "".join(chr(x) for x in codes)


def _shname(w, s):
    return ("s" if s else "u") + str(w)


# ------------------------------------------------------------------------------------------------
# Python's own answer (triangulation only: never the verdict)
def py_text(st, w, s, raw):
    if st.endswith("s"):
        bs = bytes(b for b in raw.to_bytes((w + 7) // 8, "little") if b)
        return format(bs.decode("utf-8"), st)
    v = raw - (1 << w) if s and w and raw >> (w - 1) else raw
    return ("{:" + st + "}").format(v)


def py_rejects(st):
    try:
        if st.endswith("s"):
            format("A", st)
        else:
            format(65, st)
        return False
    except ValueError:
        return True


# ------------------------------------------------------------------------------------------------
# the real amaranth
def build_format(st, sig):
    """-> ("ok", Format) | ("reject", text) | ("crash", text)"""
    from amaranth.hdl import Format
    try:
        return "ok", Format("{:" + st + "}", sig)
    except (ValueError, TypeError) as e:
        return "reject", "%s: %s" % (type(e).__name__, e)
    except Exception as e:        # anything else is not a rejection of the specification
        return "crash", "%s: %s" % (type(e).__name__, e)


class SimTimeout(Exception):
    pass


@contextlib.contextmanager
def cpu_limit(seconds):
    """Bound the CPU time (not the wall time: immune to machine load) one simulation may take; a simulation that does
    not terminate (e.g. a formatting helper looping on an unexpected value) becomes an exception instead of a hang."""
    def handler(signum, frame):
        raise SimTimeout("no result within %d s of CPU time" % seconds)
    old = signal.signal(signal.SIGVTALRM, handler)
    signal.setitimer(signal.ITIMER_VIRTUAL, seconds)
    try:
        yield
    finally:
        signal.setitimer(signal.ITIMER_VIRTUAL, 0)
        signal.signal(signal.SIGVTALRM, old)


_TIMEOUTS = [0]
_REC = re.compile(r"<(\d+)\|(.*?)>\n(?=<\d+\||\Z)", re.S)
_MARK = "\n@@C20-TICK-%d@@\n"
_MARK_RE = re.compile(r"\n@@C20-TICK-(\d+)@@\n")


def _shape(w, s):
    from amaranth.hdl import signed, unsigned
    return signed(w) if s else unsigned(w)


def _operand(w, s, form, name):
    """The formatted operand of shape (w, s): a plain signal ("sig"), or a signal of the opposite signedness converted
    with as_signed()/as_unsigned() ("cast": the value's own shape differs from the storage's).  -> (signal to set, value)"""
    from amaranth.hdl import Signal
    if form == "cast" and w > 0:
        base = Signal(_shape(w, not s), name=name)
        return base, (base.as_signed() if s else base.as_unsigned())
    base = Signal(_shape(w, s), name=name)
    return base, base


def run_print_batch(cases):
    """cases: list of dicts with st, w, s, vals (tuple of raw values).  One module, one `m.d.sync += Print(...)` per
    accepted case; signals are shared by the cases with the same (shape, value list).  Returns
    (status list per case: ("ok", {raw: text}) | ("reject"|"crash", msg))."""
    from amaranth.hdl import Module, Signal, Print, Format
    from amaranth.sim import Simulator, Period
    m = Module()
    sigs = {}
    status = [None] * len(cases)
    live = []
    for k, c in enumerate(cases):
        key = (c["w"], c["s"], c["vals"], c.get("form", "sig"))
        if key not in sigs:
            sigs[key] = _operand(c["w"], c["s"], key[3], "v%d" % len(sigs))
        st, fmt = build_format(c["st"], sigs[key][1])
        if st != "ok":
            status[k] = (st, fmt)
            continue
        m.d.sync += Print(Format("<{}|{}>", k, fmt))
        live.append((k, key))
    if not live:
        return status
    used = {key for k, key in live}
    live = [k for k, key in live]
    nticks = max(len(cases[k]["vals"]) for k in live)
    sim = Simulator(m)
    sim.add_clock(Period(MHz=1))

    async def tb(ctx):
        for i in range(nticks):
            for key in used:
                vals = key[2]
                if vals:
                    ctx.set(sigs[key][0], vals[min(i, len(vals) - 1)])
            print(_MARK % i, end="")
            await ctx.tick()
        print(_MARK % nticks, end="")
    sim.add_testbench(tb)
    buf = io.StringIO()
    try:
        with contextlib.redirect_stdout(buf), cpu_limit(4 if len(live) == 1 else 30):
            sim.run()
    except Exception as e:
        why = "simulation raised %s: %s" % (type(e).__name__, e)
        if isinstance(e, SimTimeout):
            _TIMEOUTS[0] += 1
        if len(live) == 1:
            status[live[0]] = ("crash", why)
        elif _TIMEOUTS[0] > 4:
            # many non-terminating simulations already isolated in this worker: do not spend minutes on each batch
            for k in live:
                status[k] = ("crash", why + " (in a batch of %d Prints; culprit not isolated)" % len(live))
        else:
            # find the culprit(s) by bisection: each half in a module of its own
            half = len(live) // 2
            for part in (live[:half], live[half:]):
                for k, stt in zip(part, run_print_batch([cases[k] for k in part])):
                    status[k] = stt
        return status
    out = buf.getvalue()
    parts = _MARK_RE.split(out)
    # parts = [before, "0", chunk0, "1", chunk1, ..., str(nticks), tail]
    got = {k: {} for k in live}
    extra = parts[0] + parts[-1]
    for j in range(1, len(parts) - 1, 2):
        i = int(parts[j])
        chunk = parts[j + 1]
        pos = 0
        for mm in _REC.finditer(chunk):
            if mm.start() != pos:
                extra += chunk[pos:mm.start()]
            pos = mm.end()
            k = int(mm.group(1))
            if k not in got:
                extra += mm.group(0)
                continue
            vals = cases[k]["vals"]
            if i < len(vals):
                got[k].setdefault(vals[i], []).append(mm.group(2))
        extra += chunk[pos:]
    for k in live:
        status[k] = ("ok", got[k], extra if extra.strip() else "")
    return status


def run_assert_batch(cases):
    """cases: dicts with st, w, s, raw, kind ("assert" | "assume"), form.  One module with one Assert / Assume per case
    under `If(sel == k)`, condition constant zero; one simulation run per case (Simulator.reset() in between).
    k = 0, 1 are calibration statements with the literal message "CAL" from which the message prefixes are learnt.
    Returns list per case: ("ok", message text after the prefix) | ("noraise", "") | ("reject"/"crash", msg)."""
    from amaranth.hdl import Module, Signal, Assert, Assume
    from amaranth.sim import Simulator, Period
    m = Module()
    sel = Signal(16)
    zero = Signal()
    sigs = {}
    plan = []
    with m.If(sel == 0):
        m.d.sync += Assert(zero, "CAL")
    with m.If(sel == 1):
        m.d.sync += Assume(zero, "CAL")
    status = [None] * len(cases)
    for j, c in enumerate(cases):
        k = j + 2
        key = (c["w"], c["s"], c.get("form", "sig"))
        if key not in sigs:
            sigs[key] = _operand(c["w"], c["s"], key[2], "v%d" % len(sigs))
        st, fmt = build_format(c["st"], sigs[key][1])
        if st != "ok":
            status[j] = (st, fmt)
            continue
        with m.If(sel == k):
            m.d.sync += (Assert if c["kind"] == "assert" else Assume)(zero, fmt)
        plan.append((j, k, key, c["raw"]))
    sim = Simulator(m)
    sim.add_clock(Period(MHz=1))
    cur = {}

    async def tb(ctx):
        ctx.set(sel, cur["k"])
        if cur["key"] is not None:
            ctx.set(sigs[cur["key"]][0], cur["raw"])
        await ctx.tick()
        await ctx.tick()
    sim.add_testbench(tb)

    def one(k, key, raw):
        cur.update(k=k, key=key, raw=raw)
        sim.reset()
        try:
            with contextlib.redirect_stdout(io.StringIO()), cpu_limit(10):
                sim.run()
        except AssertionError as e:
            return str(e)
        return None
    pre = {}
    for k, kind in ((0, "assert"), (1, "assume")):
        msg = one(k, None, 0)
        # no AssertionError at all: every case of this kind is reported as "noraise" below
        pre[kind] = None if msg is None else (msg[:-3] if msg.endswith("CAL") else "<message %r does not carry its text> " % msg)
    for n, (j, k, key, raw) in enumerate(plan):
        kind = cases[j]["kind"]
        try:
            msg = one(k, key, raw)
        except Exception as e:
            status[j] = ("crash", "simulation raised %s: %s" % (type(e).__name__, e))
            # the simulator may be left in an undefined state: continue with a fresh one
            rest = [jj for jj, _, _, _ in plan[n + 1:]]
            for jj, stt in zip(rest, run_assert_batch([cases[jj] for jj in rest])):
                status[jj] = stt
            return status
        if msg is None or pre[kind] is None:
            status[j] = ("noraise", "")
        elif not msg.startswith(pre[kind]):
            status[j] = ("ok", "<prefix %r missing> %s" % (pre[kind], msg))
        else:
            status[j] = ("ok", msg[len(pre[kind]):])
    return status


# ------------------------------------------------------------------------------------------------
def _load_cases(path, lo, hi, seen):
    cases = []
    for st in expr_replay.iter_states_range(path, lo, hi):
        seen[0] += 1
        if st["stage"] != 2:
            continue
        c = st["c"]
        texts = sorted((raw, _txt(t)) for raw, t in c["texts"])
        cases.append({"st": _txt(c["st"]), "w": c["sh"]["w"], "s": c["sh"]["s"], "cls": str(c["cls"]),
                      "why": str(c["why"]), "texts": texts, "vals": tuple(r for r, _ in texts)})
        # alternate the operand form deterministically over the cases
        cases[-1]["form"] = "cast" if zlib.crc32(repr((cases[-1]["st"], cases[-1]["w"], cases[-1]["s"])).encode()) & 1 else "sig"
    return cases


def compare_case(c, status):
    """-> list of mismatch dicts (violations of the property by amaranth) for one case, given the outcome of
    run_print_batch.  The expected answers are TLC's (c['cls'], c['texts'])."""
    out = []
    base = {"spec": c["st"], "shape": _shname(c["w"], c["s"]), "operand": c.get("form", "sig")}
    if status[0] == "crash":
        out.append(dict(base, part="construct", actual=status[1], expected=c["cls"]))
        return out
    if c["cls"] == "reject":
        if status[0] != "reject":
            out.append(dict(base, part="accept", actual="accepted", expected="rejected (%s)" % c["why"]))
        return out
    if status[0] == "reject":
        if c["cls"] == "accept":
            out.append(dict(base, part="accept", actual="rejected: " + status[1], expected="accepted"))
        return out
    got = status[1]
    for raw, text in c["texts"]:
        g = got.get(raw)
        if g != [text]:
            out.append(dict(base, part="text", via="print", value=raw, actual=g, expected=text))
    if status[2]:
        out.append(dict(base, part="text", via="print", value=None, actual="stray output %r" % status[2][:200], expected=""))
    return out


def _fmt_worker(job):
    path, lo, hi, assert_mod, seed = job
    res = {"n": 0, "cls": {}, "texts": 0, "mism": [], "specdef": [], "fps": [], "sample": [], "relaxed": 0,
           "asserts": 0, "accepted": 0, "rejected": 0, "states": 0}
    with warnings.catch_warnings():
        warnings.simplefilter("ignore")
        seen = [0]
        cases = _load_cases(path, lo, hi, seen)
        res["states"] = seen[0]
        # ---- triangulation with Python's own str.format (specification self-check)
        for c in cases:
            res["n"] += 1
            res["cls"][c["cls"]] = res["cls"].get(c["cls"], 0) + 1
            res["fps"].append(zlib.crc32(repr((c["st"], c["w"], c["s"])).encode()))
            if c["cls"] == "reject":
                if c["why"] == "python" and not py_rejects(c["st"]) and len(res["specdef"]) < 20:
                    res["specdef"].append("Fmt says Python rejects %r, but Python formats with it" % c["st"])
                continue
            if py_rejects(c["st"]) and len(res["specdef"]) < 20:
                res["specdef"].append("Fmt says %r is valid Python, but Python rejects it" % c["st"])
                continue
            for raw, text in c["texts"]:
                try:
                    p = py_text(c["st"], c["w"], c["s"], raw)
                except Exception as e:
                    p = "%s: %s" % (type(e).__name__, e)
                if p != text and len(res["specdef"]) < 20:
                    res["specdef"].append("Fmt gives %r for spec %r, %s raw %d; str.format gives %r"
                                          % (text, c["st"], _shname(c["w"], c["s"]), raw, p))
        # ---- the real thing
        for off in range(0, len(cases), BATCH):
            part = cases[off:off + BATCH]
            status = run_print_batch(part)
            for c, stt in zip(part, status):
                if stt[0] == "ok":
                    res["accepted"] += 1
                    if c["cls"] == "unsupported":
                        res["relaxed"] += 1
                    res["texts"] += len(c["texts"])
                elif stt[0] == "reject":
                    res["rejected"] += 1
                mm = compare_case(c, stt)
                if mm and len(res["mism"]) < 60:
                    res["mism"].extend(mm[:3])
                if len(res["sample"]) < 2 and stt[0] == "ok" and len(c["st"]) >= 5 and c["texts"]:
                    raw, text = c["texts"][-1]
                    res["sample"].append({"spec": c["st"], "shape": _shname(c["w"], c["s"]), "raw_value": raw,
                                          "fmt_text": text, "printed": stt[1].get(raw)})
        # ---- a subset again through failing Assert / Assume messages
        chosen = []
        for c, fp in zip(cases, res["fps"][-len(cases):] if cases else []):
            if c["cls"] == "accept" and c["texts"] and (fp + seed) % assert_mod == 0:
                raw, text = c["texts"][(fp >> 8) % len(c["texts"])]
                chosen.append({"st": c["st"], "w": c["w"], "s": c["s"], "raw": raw, "text": text, "form": c["form"],
                               "kind": "assume" if (fp >> 4) & 1 else "assert"})
        for off in range(0, len(chosen), ASSERT_BATCH):
            part = chosen[off:off + ASSERT_BATCH]
            status = run_assert_batch(part)
            for j, (c, stt) in enumerate(zip(part, status)):
                res["asserts"] += 1
                base = {"spec": c["st"], "shape": _shname(c["w"], c["s"]), "part": "text", "operand": c["form"],
                        "via": c["kind"], "value": c["raw"]}
                if stt[0] == "ok" and stt[1] == c["text"]:
                    continue
                if len(res["mism"]) < 60:
                    res["mism"].append(dict(base, actual="%s %s" % stt if stt[0] != "ok" else stt[1], expected=c["text"]))
    return res


# ------------------------------------------------------------------------------------------------
# timing
def _expr(e, S):
    op = str(e["op"])
    if op == "sig":
        return S[str(e["n"])]
    if op == "const":
        from amaranth.hdl import Const
        return Const(e["v"], 1)
    if op == "not":
        return ~_expr(e["x"], S)
    if op == "and":
        return _expr(e["x"], S) & _expr(e["y"], S)
    if op == "or":
        return _expr(e["x"], S) | _expr(e["y"], S)
    if op == "eq":
        return _expr(e["x"], S) == e["k"]
    if op == "bit":
        return _expr(e["x"], S)[e["i"]]
    if op == "mask":
        return _expr(e["x"], S) & e["k"]
    if op == "signed":
        x = _expr(e["x"], S)
        if len(x) != e["w"]:
            raise ValueError("AsSigned width %d on a %d-bit operand" % (e["w"], len(x)))
        return x.as_signed()
    raise ValueError(op)


def _emit(m, stmts, S):
    from amaranth.hdl import Print, Format, Assert, Assume
    for st in stmts:
        k = str(st["k"])
        if k == "print":
            m.d.sync += Print(Format("P{}@{}", st["id"], S["cyc"]))
        elif k == "prop":
            cls = Assert if str(st["kind"]) == "assert" else Assume
            m.d.sync += cls(_expr(st["cond"], S), Format("A{}@{}", st["id"], S["cyc"]))
        elif k == "if":
            for i, br in enumerate(st["br"]):
                with (m.If if i == 0 else m.Elif)(_expr(br["c"], S)):
                    _emit(m, br["body"], S)
            if st["els"]:
                with m.Else():
                    _emit(m, st["els"], S)
        elif k == "switch":
            with m.Switch(_expr(st["test"], S)):
                for cs in st["cases"]:
                    if cs["dflt"]:
                        with m.Default():
                            _emit(m, cs["body"], S)
                    else:
                        with m.Case(*["".join(str(ch) for ch in p) for p in cs["pats"]]):
                            _emit(m, cs["body"], S)
        else:
            raise ValueError(k)


class TimingRig:
    """The fixed design of FmtTiming (inputs a b s e f x, registers cyc r t q) around one program of the catalogue.
    Programs with a non-empty `wrap` put their statements into a module of their own (or a submodule of it) which is
    wrapped, innermost first, by EnableInserter(e) / EnableInserter(f) / ResetInserter(x); "rename" moves the whole design
    to the clock domain `alt` with DomainRenamer while the clock of `sync` keeps toggling at another rate."""

    def __init__(self, prog, edge="pos"):
        from amaranth.hdl import Module, Signal, ClockDomain, EnableInserter, ResetInserter, DomainRenamer
        from amaranth.sim import Simulator, Period
        m = Module()
        S = {"a": Signal(name="a"), "b": Signal(name="b"), "s": Signal(2, name="s"),
             "e": Signal(name="e"), "f": Signal(name="f"), "x": Signal(name="x"),
             "r": Signal(name="r"), "t": Signal(name="t"), "q": Signal(2, name="q"), "cyc": Signal(4, name="cyc")}
        m.d.sync += S["cyc"].eq(S["cyc"] + 1)
        m.d.sync += S["r"].eq(S["a"])
        with m.If(S["a"]):
            m.d.sync += S["t"].eq(~S["t"])
        with m.If(S["b"]):
            m.d.sync += S["q"].eq(S["q"] + 1)
        wrap = [str(w) for w in prog.get("wrap", ())]
        self.renamed = "rename" in wrap
        if not wrap and not prog.get("sub") and not prog.get("reg"):
            _emit(m, prog["body"], S)
        else:
            inner = Module()
            if prog.get("reg"):
                u = Signal(3, name="u")
                inner.d.sync += u.eq(u + 1)
            if prog.get("sub"):
                chk = Module()
                _emit(chk, prog["body"], S)
                inner.submodules.chk = chk
            else:
                _emit(inner, prog["body"], S)
            w = inner
            for wr in wrap:
                if wr == "en1":
                    w = EnableInserter(S["e"])(w)
                elif wr == "en2":
                    w = EnableInserter({"sync": S["f"]})(w)
                elif wr == "rst":
                    w = ResetInserter(S["x"])(w)
                elif wr != "rename":
                    raise ValueError(wr)
            m.submodules.inner = w
        self.S = S
        self.ins = []
        if self.renamed:
            top = Module()
            top.domains.alt = ClockDomain(clk_edge=edge)
            top.domains.sync = ClockDomain()
            other = Signal(name="other")
            top.d.sync += other.eq(~other)
            top.submodules.design = DomainRenamer("alt")(m)
            self.sim = Simulator(top)
            self.sim.add_clock(Period(ns=1000), domain="alt")
            self.sim.add_clock(Period(ns=300), domain="sync")      # edges never coincide with alt's
        else:
            m.domains.sync = ClockDomain(clk_edge=edge)      # the active edge of the domain: rising or falling
            self.sim = Simulator(m)
            self.sim.add_clock(Period(MHz=1))
        self.sim.add_testbench(self._tb)
        self.first = True

    async def _tb(self, ctx):
        for i, (a, b, s, e, f, x) in enumerate(self.ins):
            ctx.set(self.S["a"], a)
            ctx.set(self.S["b"], b)
            ctx.set(self.S["s"], s)
            ctx.set(self.S["e"], e)
            ctx.set(self.S["f"], f)
            ctx.set(self.S["x"], x)
            print(_MARK % i, end="")
            await ctx.tick("alt" if self.renamed else "sync")
        print(_MARK % len(self.ins), end="")

    def run(self, ins):
        """-> (emissions [(edge, id, printed cyc)], stop None | (edge, kind, id, printed cyc), stray text)"""
        self.ins = list(ins)
        if not self.first:
            self.sim.reset()
        self.first = False
        buf = io.StringIO()
        msg = None
        try:
            with contextlib.redirect_stdout(buf), cpu_limit(10):
                self.sim.run()
        except AssertionError as e:
            msg = str(e)
        parts = _MARK_RE.split(buf.getvalue())
        em = []
        stray = parts[0]
        last = -1
        for j in range(1, len(parts), 2):
            i = int(parts[j])
            last = i
            for line in parts[j + 1].split("\n"):
                mm = re.fullmatch(r"P(\d+)@(\d+)", line)
                if mm:
                    em.append((i, int(mm.group(1)), int(mm.group(2))))
                elif line:
                    stray += line + "\n"
        stop = None
        if msg is not None:
            mm = re.fullmatch(r"(Assertion|Assumption) violated: A(\d+)@(\d+)", msg)
            if mm:
                stop = (last, "assert" if mm.group(1) == "Assertion" else "assume", int(mm.group(2)), int(mm.group(3)))
            else:
                stop = (last, "?", -1, -1)
                stray += "message: " + msg
        elif last != len(self.ins):
            stray += "simulation ended at marker %d of %d" % (last, len(self.ins))
        return em, stop, stray


def compare_timing(leaf, em, stop, stray):
    """leaf: TLC state (ins, emitted, stop, atstop).  -> "" or a description of the disagreement."""
    exp_em = sorted((e, i) for e, i in leaf["emitted"])
    if leaf["stop"]:
        sedge = leaf["stop"][0]
        fails = {(i, str(k)) for i, k in leaf["stop"][1]}
    else:
        sedge, fails = None, set()
    got_before = sorted((e, i) for e, i, c in em if sedge is None or e < sedge)
    if any(e != c for e, i, c in em):
        return "a Print shows a counter value different from the edge it was emitted at: %r" % (em,)
    if stop is not None and (sedge is None or stop[0] < sedge):
        return ("simulation stopped at edge %d by %s %d although no active assertion has a zero condition there (%s)"
                % (stop[0], stop[1], stop[2], "no stop expected" if sedge is None else "first expected stop: edge %d" % sedge))
    if got_before != exp_em:
        return "emissions (edge, print id) %r, expected %r" % (got_before, exp_em)
    if sedge is None:
        if stop is not None:
            return "simulation stopped at edge %d (%s %d) but no active assertion has a zero condition" % stop[:3]
    else:
        if stop is None:
            return "simulation did not stop; expected a stop at edge %d by one of %r" % (sedge, sorted(fails))
        if stop[0] != sedge or stop[3] != sedge:
            return "simulation stopped at edge %d (message says %d), expected edge %d" % (stop[0], stop[3], sedge)
        if (stop[2], stop[1]) not in fails:
            return "stopped by %s %d, expected one of %r" % (stop[1], stop[2], sorted(fails))
        at = [(e, i) for e, i, c in em if e >= sedge]
        allowed = {(sedge, i) for i in leaf["atstop"]}
        if len(set(at)) != len(at) or not set(at) <= allowed:
            return "emissions at/after the stop edge %r, allowed (at most once each) %r" % (at, sorted(allowed))
    if stray.strip():
        return "unexpected output %r" % stray[:200]
    return ""


def _timing_worker(job):
    pid, prog, leaves = job
    res = {"n": 0, "mism": [], "stops": 0, "emits": 0, "sample": None}
    with warnings.catch_warnings():
        warnings.simplefilter("ignore")
        rigs = {"pos": TimingRig(prog, "pos"), "neg": TimingRig(prog, "neg")}
        for li, leaf in enumerate(leaves):
            res["n"] += 1
            edge = "neg" if li % 3 == 2 else "pos"       # a third of the histories in a falling-edge domain
            try:
                em, stop, stray = rigs[edge].run(leaf["ins"])
                why = compare_timing(leaf, em, stop, stray)
            except Exception as e:
                em, stop = None, None
                why = "simulation raised %s: %s" % (type(e).__name__, e)
                rigs[edge] = TimingRig(prog, edge)
            res["emits"] += len(leaf["emitted"])
            res["stops"] += 1 if leaf["stop"] else 0
            if why and len(res["mism"]) < 20:
                res["mism"].append({"program": pid, "ins": [list(x) for x in leaf["ins"]], "why": why, "clk_edge": edge,
                                    "expected": {"emitted": [list(x) for x in leaf["emitted"]],
                                                 "stop": [leaf["stop"][0], sorted(leaf["stop"][1])] if leaf["stop"] else None},
                                    "actual": {"emitted": em, "stop": stop}})
            if res["sample"] is None and leaf["stop"] and leaf["emitted"]:
                res["sample"] = {"program": pid, "inputs(a,b,s,e,f,x)": [list(x) for x in leaf["ins"]],
                                 "emitted(edge,id)": em, "stopped": stop}
    return res


def _thaw(v):
    """tlaval freezes records inside sets into sorted tuples of pairs; programs are printed outside sets."""
    return v


def _load_timing(path):
    by = {}
    for st in tlaval.parse_dump(path):
        by.setdefault(st["p"], []).append(st)
    return by


def _is_catalogue(txt):
    return re.match(r'<<\s*"PROGRAMS"', txt) is not None


def _is_leaf(st, limit):
    return bool(st["stop"]) or st["n"] == limit


def _limit(prog, maxlen):
    uses = {str(u) for u in prog["uses"]}
    return maxlen - 1 if len(uses) + ("s" in uses) >= 3 else maxlen


# ------------------------------------------------------------------------------------------------
def _fmt_inst(ctx, th):
    rnd = sorted({ctx.rng.randrange(1 << 24) for _ in range(3 if th else 1)})
    if th:
        return dict(mutant="", shapes="ShapesFull", fas="FillAlignsFull", widths="WidthsFull", grps="GrpsFull",
                    types="Types", signs="SignsFull", picks="PicksFull", rand=", ".join(map(str, rnd)))
    return dict(mutant="", shapes="ShapesQuick", fas="FillAlignsQuick", widths="WidthsQuick", grps="GrpsQuick",
                types="Types", signs="SignsQuick", picks="PicksQuick", rand=", ".join(map(str, rnd)))


def _job(job):
    return _fmt_worker(job[1:]) if job[0] == "fmt" else _timing_worker(job[1:])


def run(ctx):
    th = ctx.thorough
    maxlen = 5 if th else 3
    # ---------------- all TLC runs, concurrently ---------------------------------------------------
    inst = _fmt_inst(ctx, th)
    dump_f = os.path.join(ctx.tmp, "fmtcases")
    dump_t = os.path.join(ctx.tmp, "fmttiming")
    tiny = dict(mutant="", shapes="ShapesTiny", fas="FillAlignsTiny", widths="WidthsQuick", grps="GrpsQuick",
                types="TypesTiny", signs="SignsFull", picks="PicksQuick", rand="77")
    tlc_jobs = [
        ("fmt", dict(module="MC_Fmt", stage="mc/fmt", cfg_text=CFG_FMT.format(**inst), workers=12,
                     args=("-coverage", "1", "-dump", dump_f), timeout=3000)),
        ("timing", dict(module="FmtTiming", stage="mc/timing", workers=8 if th else 4, args=("-coverage", "1", "-dump", dump_t),
                        cfg_text=CFG_TIMING.format(maxlen=maxlen, progs=", ".join(map(str, range(1, N_PROGRAMS + 1))),
                                                   mutant=""))),
    ]
    fmt_mutants = (("unsigned", "RoundTrip", "ShapesTiny"), ("group3", "GroupingShape", "ShapesTinyWide"),
                   ("nozfill", "ZeroPadReads", "ShapesTiny"))
    tim_mutants = (("lastmatch", "EmitExact", "4"), ("late", "StopExact", "8"), ("postedge", "EmitExact", "7"),
                   ("ignoreen", "EmitExact", "21"))
    if not th:          # quick: one seeded error per module (rotating with the seed); thorough: all of them
        fmt_mutants = (fmt_mutants[ctx.seed % 3],)
        tim_mutants = (tim_mutants[(ctx.seed + 3) % 4],)
    for mut, inv, shp in fmt_mutants:
        tlc_jobs.append(("m", dict(module="MC_Fmt", stage="mc/mutant-" + mut, workers=1, expect_violation=inv,
                                   cfg_text=CFG_FMT.format(**dict(tiny, mutant=mut, shapes=shp)))))
    for mut, inv, pr in tim_mutants:
        tlc_jobs.append(("m", dict(module="FmtTiming", stage="mc/mutant-" + mut, workers=1, expect_violation=inv,
                                   cfg_text=CFG_TIMING.format(maxlen=3, progs=pr, mutant=mut))))

    def one(j):
        kw = dict(j[1])
        return ctx.tlc(kw.pop("module"), **kw)
    with ThreadPoolExecutor(len(tlc_jobs)) as ex:
        results = list(ex.map(one, tlc_jobs))
    r_fmt, r_tim = results[0], results[1]
    ctx.require_actions(r_fmt, ["Left", "Right"], "mc/fmt")
    ctx.require_actions(r_tim, ["Next"], "mc/timing")
    progs = None
    for txt in r_tim.printed():
        if _is_catalogue(txt):
            progs = tlaval.parse(txt)[1]
    if progs is None or len(progs) != N_PROGRAMS:
        raise MachineryError("FmtTiming did not print its catalogue of %d programs" % N_PROGRAMS)

    # ---------------- replay on the real amaranth (one pool for both parts) ------------------------
    path = dump_f + ".dump"
    assert_mod = 25 if th else 60
    jobs = [("fmt", path, lo, hi, assert_mod, ctx.seed) for lo, hi in expr_replay.split_dump(path, 96 if th else 40)]
    by = _load_timing(dump_t + ".dump")
    os.unlink(dump_t + ".dump")
    tjobs = []
    for pid, states in sorted(by.items()):
        prog = progs[pid - 1]
        leaves = [{"ins": st["ins"], "emitted": st["emitted"], "stop": st["stop"], "atstop": st["atstop"]}
                  for st in states if _is_leaf(st, _limit(prog, maxlen))]
        for off in range(0, len(leaves), 128):
            tjobs.append(("timing", pid, prog, leaves[off:off + 128]))
    t0 = time.time()
    allres = pmap(_job, tjobs + jobs)
    t_replay = time.time() - t0
    os.unlink(path)
    tres, res = allres[:len(tjobs)], allres[len(tjobs):]

    # ---- text part
    n = sum(x["n"] for x in res)
    specdef = [s for x in res for s in x["specdef"]]
    if specdef:
        raise MachineryError("Fmt disagrees with Python's str.format (specification defect, not a violation):\n  "
                             + "\n  ".join(specdef[:10]))
    cls = {}
    for x in res:
        for k, v in x["cls"].items():
            cls[k] = cls.get(k, 0) + v
        for fp in x["fps"]:
            ctx.case(fp)
        for s in x["sample"]:
            ctx.sample(s)
        for m in x["mism"]:
            _report(ctx, m)
    texts = sum(x["texts"] for x in res)
    asserts = sum(x["asserts"] for x in res)
    accepted = sum(x["accepted"] for x in res)
    if n == 0 or texts == 0 or asserts == 0 or cls.get("reject", 0) == 0:
        raise MachineryError("vacuous replay: cases=%d texts=%d asserts=%d classes=%r" % (n, texts, asserts, cls))
    if sum(x["states"] for x in res) != r_fmt.distinct:
        raise MachineryError("parsed %d states, TLC enumerated %d" % (sum(x["states"] for x in res), r_fmt.distinct))
    ctx.add_cases(texts + asserts, 0)
    ctx.cov["stages"]["replay/fmt"] = {
        "cases(spec,shape)": n, "by_class": cls, "accepted_by_amaranth": accepted,
        "rejected_by_amaranth": sum(x["rejected"] for x in res),
        "unsupported_but_accepted": sum(x["relaxed"] for x in res),
        "texts_compared_print": texts, "texts_compared_assert_message": asserts,
        "python_str_format_triangulated": texts, "wall_s(with timing replay)": round(t_replay, 1)}
    ctx.cov["traces_validated_against_impl"] += n

    # ---- timing part
    nt = sum(x["n"] for x in tres)
    stops = sum(x["stops"] for x in tres)
    emits = sum(x["emits"] for x in tres)
    if nt == 0 or stops == 0 or emits == 0:
        raise MachineryError("vacuous timing replay: histories=%d stops=%d emissions=%d" % (nt, stops, emits))
    for x in tres:
        for m in x["mism"]:
            ctx.violation({"part": "timing", "program": m["program"], "clk_edge": m["clk_edge"], "ins": m["ins"]},
                          "timing: program %d of FmtTiming in a %sedge domain, inputs (a,b,s,e,f,x) per edge %r: %s"
                          % (m["program"], m["clk_edge"], m["ins"], m["why"]),
                          replay=m)
        if x["sample"]:
            ctx.sample(x["sample"])
    for (_, pid, _, leaves) in tjobs:
        for lf in leaves:
            ctx.case(zlib.crc32(repr((pid, lf["ins"])).encode()))
    ctx.cov["stages"]["replay/timing"] = {"programs": len(by), "histories_replayed": nt, "with_stop": stops,
                                          "expected_emissions": emits, "max_len": maxlen}
    ctx.cov["traces_validated_against_impl"] += nt

    # ---------------- binding demos ------------------------------------------------------------------
    try:
        _binding_demo(progs)
        ctx.cov["stages"]["binding"] = {"corrupted_expected_text_reported": True, "corrupted_emission_list_reported": True,
                                        "shifted_stop_edge_reported": True}
    except _DemoSkipped as e:
        if not ctx.violations and not ctx.known_hits:
            raise MachineryError("binding demo: the real code disagrees on a demo case although the replay reported nothing: %s" % e)
        ctx.cov["stages"]["binding"] = {"skipped": "the real code disagrees on the demo case (reported as violation): %s" % e}

    ctx.cov["exhaustive"] = True
    ctx.cov["rule"] = ("text: case = (format specification, shape) built field by field by TLC over the whole stated grammar, "
                       "each with its expected class and the expected text of every tried value; all replayed; evaluations = "
                       "texts compared. timing: case = (program of the catalogue, maximal input history); all replayed")
    ctx.assume("grammar: fill in {none,*,0}, align in {none,<,>,=,^}, sign in %s, #, 0, width in %s, grouping in %s, "
               "types b o d x X c s none; shapes %s; values: boundaries, strings, %s seeded random patterns"
               % ("{none,+,-,space}" if th else "{none,+,space}", "{none,1,5,9}" if th else "{none,5,9}",
                  "{none,_,','}" if th else "{none,_}",
                  "u0 u1 u4 s4 u8 s8 u16 u24" if th else "s4 u8 u16 (quick: ^ only without fill)", 3 if th else 1))
    ctx.assume("excluded (Python has no result either): type c for surrogates or beyond U+10FFFF, type s for byte strings "
               "that are not valid UTF-8")
    ctx.assume("specifications that are valid Python but outside Format's supported subset (^ alignment, ',' grouping, 0 or = "
               "with c/s) are expected to be rejected; if accepted, only the text is checked")
    ctx.assume("timing: one clock domain, rising-edge and falling-edge variants; inputs are set by the testbench before each active edge")
    ctx.assume("timing: conditions of Assert/Assume/If may be 1 to 4 bits wide (register q, input s, s as a signed value, masked "
               "values): zero iff the whole value is zero. Cover is not modelled (its simulation output is not documented)")
    ctx.assume("timing: activity from outside the module: EnableInserter (one or two, nested) gates every statement of the wrapped "
               "module and its submodules, ResetInserter does not affect Print/Assert, DomainRenamer moves them to the renamed "
               "domain's clock (second clock toggling at another rate)")
    ctx.assume("timing: sync domain only (the guide warns that combinational Print/Assert may fire on glitches); Prints active "
               "at the very edge at which the simulation stops may or may not be emitted; which of several assertions failing "
               "at the same edge is reported is not specified")


def _report(ctx, m):
    key = {k: m[k] for k in ("part", "via", "spec", "shape", "operand", "value") if k in m}
    if m["part"] == "text":
        desc = ("Format('{:%s}', %s %s) with raw value %s: %s carries %r, Fmt (= str.format) says %r"
                % (m["spec"], m["shape"], "signal" if m.get("operand") == "sig" else "as_signed()/as_unsigned() of a signal",
                   m.get("value"), m.get("via"), m["actual"], m["expected"]))
    else:
        desc = "Format('{:%s}', %s signal): %s, expected %s" % (m["spec"], m["shape"], m["actual"], m["expected"])
    ctx.violation(key, desc, replay=m)


class _DemoSkipped(Exception):
    pass


def _binding_demo(progs):
    """The comparison must notice a corrupted expectation (so agreement is not vacuous).  The demo cases are members of
    the explored sets; if the real code already disagrees with the uncorrupted expectation, the main replay has reported
    it and the demo is skipped (raises _DemoSkipped)."""
    with warnings.catch_warnings():
        warnings.simplefilter("ignore")
        c = {"st": "*>+#09_x", "w": 8, "s": False, "cls": "accept", "why": "", "vals": (0, 200),
             "texts": [(0, py_text("*>+#09_x", 8, False, 0)), (200, py_text("*>+#09_x", 8, False, 200))]}
        st = run_print_batch([c])[0]
        if compare_case(c, st):
            raise _DemoSkipped("print: %r" % (compare_case(c, st),))
        bad = dict(c, texts=[(0, c["texts"][0][1]), (200, c["texts"][1][1].replace("c8", "c9"))])
        if not compare_case(bad, st):
            raise MachineryError("binding demo: a corrupted expected text was not noticed")
        a = run_assert_batch([{"st": "05d", "w": 4, "s": True, "raw": 15, "kind": "assume", "form": "cast"}])[0]
        if a != ("ok", "-0001"):
            raise _DemoSkipped("assume message: %r" % (a,))
        rig = TimingRig(progs[8])          # program 9: Print(3); If(b){Assert(1, a); Print(2)}
        ins = [(1, 0, 0, 0, 0, 0), (1, 1, 0, 0, 0, 0), (0, 1, 0, 0, 0, 0)]
        em, stop, stray = rig.run(ins)
        good = {"ins": ins, "emitted": ((0, 3), (1, 3), (1, 2)), "stop": (2, frozenset({(1, "assert")})), "atstop": frozenset({3})}
        if compare_timing(good, em, stop, stray):
            raise _DemoSkipped("timing: " + compare_timing(good, em, stop, stray))
        if not compare_timing(dict(good, emitted=((0, 3), (1, 3))), em, stop, stray):
            raise MachineryError("binding demo: a dropped emission was not noticed")
        if not compare_timing(dict(good, stop=(1, good["stop"][1])), em, stop, stray):
            raise MachineryError("binding demo: a shifted stop edge was not noticed")


def replay(ctx, rep):
    m = rep["replay"]
    with warnings.catch_warnings():
        warnings.simplefilter("ignore")
        if m.get("part") == "timing":
            r = ctx.tlc("FmtTiming", stage="replay", workers=2, args=("-dump", os.path.join(ctx.tmp, "rp")),
                        cfg_text=CFG_TIMING.format(maxlen=len(m["ins"]) + 1, progs=str(m["program"]), mutant=""))
            progs = [tlaval.parse(t)[1] for t in r.printed() if _is_catalogue(t)][0]
            want = tuple(tuple(x) for x in m["ins"])
            leaf = [st for st in tlaval.parse_dump(os.path.join(ctx.tmp, "rp.dump")) if tuple(st["ins"]) == want][0]
            em, stop, stray = TimingRig(progs[m["program"] - 1], m.get("clk_edge", "pos")).run(want)
            why = compare_timing(leaf, em, stop, stray)
            print("amaranth: emitted (edge, id, counter) %r, stop %r" % (em, stop))
            print("FmtTiming: emitted %r, stop %r" % (leaf["emitted"], leaf["stop"]))
            if why:
                print(why)
                print("VIOLATION property=C20 replay=(same)")
                return 1
            return 0
        w, s = int(m["shape"][1:]), m["shape"][0] == "s"
        if m["part"] in ("accept", "construct"):
            from amaranth.hdl import Signal
            st = build_format(m["spec"], _operand(w, s, m.get("operand", "sig"), "v")[1])
            print("amaranth: %s %s;  Fmt: %s" % (st[0], st[1] if st[0] != "ok" else "", m["expected"]))
            bad = (st[0] == "ok") != (m["expected"] == "accepted")
        elif m.get("via") == "print":
            c = {"st": m["spec"], "w": w, "s": s, "vals": (m["value"],), "form": m.get("operand", "sig")}
            st = run_print_batch([c])[0]
            print("amaranth printed: %r;  Fmt: %r;  str.format: %r" % (st[1], m["expected"], py_text(m["spec"], w, s, m["value"])))
            bad = st[0] != "ok" or st[1].get(m["value"]) != [m["expected"]]
        else:
            st = run_assert_batch([{"st": m["spec"], "w": w, "s": s, "raw": m["value"], "form": m.get("operand", "sig"),
                                    "kind": m["via"]}])[0]
            print("amaranth message: %r;  Fmt: %r" % (st, m["expected"]))
            bad = st != ("ok", m["expected"])
        if bad:
            print("VIOLATION property=C20 replay=(same)")
            return 1
    return 0
