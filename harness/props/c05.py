"""C05 — testbench reads and writes agree with what a circuit would compute.

read side : the AmExpr programs of C01 (same TLC enumeration / simulation) are evaluated by the testbench tree walker
            `ctx.get(expr)`; the value must equal the table TLC computed (which C01 binds to the compiled circuit).
write side: AmLhs (assignment targets) — see harness/lhs_replay.py: TLC enumerates (target form, state, written value)
            with the expected post-state; `ctx.set(target, v)` and the equivalent circuit assignment must both produce it.
castable  : harness/castable_replay.py: (integer, shape) cases of AmShapeCases written raw and read back through a
            user-defined ShapeCastable and a shaped Enum (from_bits / const round trip, signed shapes included)."""
from . import c01

LEVEL = "model_checking"


def run(ctx):
    c01.run(ctx, sides=("testbench",), want_tb=True, prop="C05")
    try:
        from .. import lhs_replay
    except ImportError:
        lhs_replay = None
    if lhs_replay is not None:
        lhs_replay.run_stage(ctx, "C05", sides=("tbset",))
    from .. import castable_replay
    castable_replay.run_stage(ctx)
    ctx.assume("read side shares C01's generators; a testbench mismatch is reported here, a circuit mismatch by C01")


def replay(ctx, rep):
    return c01.replay(ctx, rep)
