"""C10 — shape casting and constant normalisation are exact and minimal.

spec:   AmShape (declarative: least widths, congruence), AmShapeCases (every initial state = one question + answer;
        invariants = minimality/uniqueness theorems), AmExpr on constant leaves for Const.cast of Cat/Slice expressions.
bind:   every state is asked of the real amaranth: Shape.cast(range/enum), Const(v, shape).value, Signal(shape, init=v).init,
        MemoryData(init=[v]) rows, bits_for, ceil_log2, range-shaped Signal init rejection, Const.cast(expr)."""
import enum
import os
import warnings

from ..common import pmap, MachineryError
from .. import expr_replay
from . import c01

LEVEL = "model_checking"

CFG = """SPECIFICATION Spec
CONSTANTS RMag = {rhi}
 Steps <- StepsQ
 EMag = {ehi}
 EMax = 3
 VMag = {vhi}
 WMax = {wmax}
 BitArgs <- BitArgsQ
{override}
INVARIANT RangeExact
INVARIANT EnumExact
INVARIANT ConstExact
INVARIANT BitsExact
INVARIANT ClogExact
CHECK_DEADLOCK FALSE
"""


def _shape(d):
    from amaranth.hdl import signed, unsigned
    return signed(d["w"]) if d["s"] else unsigned(d["w"])


def _ask(c):
    """Ask the real amaranth one question; returns (answer, expected) in comparable form."""
    from amaranth.hdl import Shape, Const, Signal
    from amaranth.hdl._mem import MemoryData
    from amaranth.utils import bits_for, ceil_log2
    k = c["k"]
    if k == "range":
        sh = Shape.cast(range(c["a"], c["b"], c["st"]))
        return (sh.width, sh.signed), (c["exp"]["w"], c["exp"]["s"])
    if k == "enum":
        ms = sorted(c["ms"])
        E = enum.Enum("E", {"M%d" % i: v for i, v in enumerate(ms)})
        sh = Shape.cast(E)
        E2 = enum.IntEnum("E2", {"M%d" % i: v for i, v in enumerate(reversed(ms))})
        sh2 = Shape.cast(E2)
        return ((sh.width, sh.signed), (sh2.width, sh2.signed)), ((c["exp"]["w"], c["exp"]["s"]),) * 2
    if k == "const":
        sh = _shape(c["sh"])
        md = MemoryData(shape=sh, depth=3, init=[])       # rows set after construction: by index, by slice, all at once
        md.init[0] = c["v"]
        md.init[1:3] = [c["v"], c["v"]]
        md2 = MemoryData(shape=sh, depth=2, init=[])
        md2.init = [c["v"]]
        got = [Const(c["v"], sh).value, Signal(sh, init=c["v"]).init,
               list(MemoryData(shape=sh, depth=2, init=[c["v"]]).init)[0],
               Const(c["v"], sh).shape() == sh, list(md.init), list(md2.init)[0]]
        return got, [c["exp"], c["exp"], c["exp"], True, [c["exp"]] * 3, c["exp"]]
    if k == "bits":
        return bits_for(c["v"], c["sg"]), c["exp"]
    if k == "clog":
        return ceil_log2(c["v"]), c["exp"]
    if k == "rinit":
        r = range(c["a"], c["b"], c["st"])
        try:
            s = Signal(r, init=c["v"])
            return ("ok", s.init), ("ok", c["v"]) if c["exp"] == "ok" else ("reject", None)
        except Exception as e:
            if type(e).__name__ != "SyntaxError":      # amaranth.hdl.SyntaxError (not the builtin)
                raise
            return ("reject", None), ("ok", c["v"]) if c["exp"] == "ok" else ("reject", None)
    raise ValueError(k)


def _worker(job):
    path, lo, hi = job
    out = {"n": 0, "kinds": {}, "mism": [], "fps": [], "sample": {}}
    with warnings.catch_warnings():
        warnings.simplefilter("ignore")
        for st in expr_replay.iter_states_range(path, lo, hi):
            c = st["c"]
            out["n"] += 1
            out["kinds"][c["k"]] = out["kinds"].get(c["k"], 0) + 1
            out["fps"].append(hash(repr(sorted(c.items(), key=lambda kv: kv[0]))))
            out["sample"].setdefault(c["k"], {k: (sorted(v) if isinstance(v, frozenset) else v) for k, v in c.items()})
            try:
                got, exp = _ask(c)
            except Exception as e:
                got, exp = "%s: %s" % (type(e).__name__, e), c.get("exp")
            if got != exp and list(got) != list(exp) if isinstance(got, (list, tuple)) else got != exp:
                if len(out["mism"]) < 100:
                    out["mism"].append({"case": {k: (sorted(v) if isinstance(v, frozenset) else v) for k, v in c.items()},
                                        "actual": got, "expected": exp})
    return out


def _constcast_worker(job):
    """Const.cast(expr) of constant Cat/Slice expressions must equal evaluating them (AmExpr table, 1 valuation)."""
    from amaranth.hdl import Const
    path, lo, hi = job
    out = {"n": 0, "mism": [], "fps": [], "sample": None}
    leaves = expr_replay.Leaves()
    for st in expr_replay.iter_states_range(path, lo, hi):
        case = expr_replay.state_to_case(st)
        if case is None:
            continue
        prog, ew, es, ev = case
        out["n"] += 1
        r = expr_replay.render(prog)
        out["fps"].append(hash(r))
        try:
            expr = expr_replay.build(prog, leaves)[-1]
            cc = Const.cast(expr)
            got = (cc.value, cc.shape().width, cc.shape().signed)
        except Exception as e:
            got = "%s: %s" % (type(e).__name__, e)
        if out["sample"] is None and len(prog) >= 3:
            out["sample"] = {"program": r, "const_cast": got}
        if got != (ev[0], ew, es):
            out["mism"].append({"prog": r, "actual": got, "expected": (ev[0], ew, es)})
    return out


CONST_INST = dict(nsig=0, leafbits=1, leafshapes="LS2", consts="CS", ops="ConstOps", amts="Amts2", idxs="Ix2",
                  reps="{0,2}", partws="{1}", pats="PS2", maxlen=4, maxstack=3, maxw=16, mode="free", override="")


def run(ctx):
    th = ctx.thorough
    box = dict(rlo=-40, rhi=40, elo=-9, ehi=9, vlo=-70, vhi=70, wmax=6, override="") if th else \
        dict(rlo=-17, rhi=17, elo=-6, ehi=6, vlo=-40, vhi=40, wmax=5, override="")
    dump = os.path.join(ctx.tmp, "shapecases")
    r = ctx.tlc("MC_AmShapeCases", stage="mc/cases", cfg_text=CFG.format(**box), workers=16, args=("-dump", dump))
    path = dump + ".dump"
    res = pmap(_worker, [(path, lo, hi) for lo, hi in expr_replay.split_dump(path, 48)])
    os.unlink(path)
    n = sum(x["n"] for x in res)
    if n != r.distinct:
        raise MachineryError("replayed %d cases, TLC enumerated %d" % (n, r.distinct))
    kinds = {}
    for x in res:
        for k, v in x["kinds"].items():
            kinds[k] = kinds.get(k, 0) + v
        for fp in x["fps"]:
            ctx.case(fp)
        for m in x["mism"]:
            c = m["case"]
            key = {"kind": c["k"], "case": {k: v for k, v in c.items() if k != "exp"}}
            ctx.violation(key, "%s: asked %s, amaranth answered %r, AmShape says %r" % (c["k"], key["case"], m["actual"], m["expected"]),
                          replay=m)
    for smp in res[0]["sample"].values():
        ctx.sample(smp)
    ctx.cov["stages"]["replay/cases"] = {"cases": n, "by_kind": kinds}
    ctx.cov["traces_validated_against_impl"] += n

    # Const.cast of constant expressions
    dump = os.path.join(ctx.tmp, "constcast")
    inst = dict(CONST_INST, maxlen=4 if th else 3)
    r = ctx.tlc("MC_AmExpr", stage="mc/constcast", cfg_text=c01.CFG.format(**inst), workers=16, args=("-dump", dump))
    path = dump + ".dump"
    res = pmap(_constcast_worker, [(path, lo, hi) for lo, hi in expr_replay.split_dump(path, 32)])
    os.unlink(path)
    n2 = sum(x["n"] for x in res)
    for x in res:
        for fp in x["fps"]:
            ctx.case(fp)
        for m in x["mism"]:
            ctx.violation({"kind": "constcast", "prog": m["prog"]},
                          "Const.cast of `%s` gave %r, evaluating it gives (value, width, signed) = %r" % (m["prog"], m["actual"], m["expected"]),
                          replay=m)
    if res and res[0]["sample"]:
        ctx.sample(res[0]["sample"])
    ctx.cov["stages"]["replay/constcast"] = {"programs": n2}
    ctx.cov["traces_validated_against_impl"] += n2

    mut = dict(box, rlo=-4, rhi=4, elo=0, ehi=1, vlo=0, vhi=1, wmax=1, override="CONSTANT MinShape <- BadMinShape")
    ctx.tlc("MC_AmShapeCases", stage="mc/mutant-wide", cfg_text=CFG.format(**mut), workers=2, expect_violation="RangeExact")
    ctx.cov["exhaustive"] = True
    ctx.cov["rule"] = ("case = one question (range / enumeration / (value, shape) / bits_for / ceil_log2 / range-shaped init / "
                       "constant expression) inside the stated integer boxes, all enumerated by TLC and all replayed; every "
                       "case is distinct; trivial cases are not filtered (empty ranges and zero widths are the corners of interest)")
    ctx.assume("boxes: ranges in [%d,%d] with steps +-1,2,3,5; enumerations of <=3 members in [%d,%d]; values [%d,%d] x widths 0..%d"
               % (box["rlo"], box["rhi"], box["elo"], box["ehi"], box["vlo"], box["vhi"], box["wmax"]))


def replay(ctx, rep):
    m = rep["replay"]
    if "case" in m:
        got, exp = _ask({k: (frozenset(v) if k == "ms" else v) for k, v in m["case"].items()})
        print("amaranth:", got, " spec:", exp)
        if got != exp:
            print("VIOLATION property=C10 replay=(same)")
            return 1
    return 0
