"""C15 — data layouts and shaped enumerations obey the shape-castable laws.

spec:   DataLayout (spec/DataLayout.tla): layouts as data, Size/Offset/FieldOf/Pack/Unpack/AssignField, flag operators.
        The module is a BUILDER: TLC's reachable states are the layouts (and enumeration classes) under test; the
        theorems (placement rules, Pack(Unpack(raw)) = raw, read-back, nested slices, assignment frame condition,
        flag laws) are invariants over ALL bit patterns; every state carries the table of expected results.
stages: mc        TLC: theorems over the enumerated family, dump of all states; three mutants that must fail
        replay    every dumped layout is built as real StructLayout/UnionLayout/ArrayLayout/FlexibleLayout (and
                  data.Struct/data.Union classes) and compared literally with TLC's table: size/offset/width/shape,
                  from_bits/as_bits/const round trips, field reads of constants, Signal(layout) views in pysim
                  (ctx.get of every field for every bit pattern, compiled and interpreted), assignment through a
                  field in comb, in sync and by ctx.set, dynamic array indexing, rtlil.convert of the same designs
        enums     shaped Enum/Flag classes built from the spec's records: const/from_bits round trip, FlagView
                  | & ^ ~ == != three-way against the spec and Python's enum.Flag
        random    seeded random layout trees (depth <= 4), tabulated by TLC with the same operators
        binding   a corrupted table must be reported as a mismatch
Verdicts: literal comparison of values computed by TLC from the specification with values obtained from /repo."""
import json
import mmap
import os
import re
import types
import warnings
import zlib

from ..common import pmap, MachineryError
from .. import tlaval

LEVEL = "model_checking"

ALL_LEAVES = ["u1", "u2", "s2", "s3", "e2", "f3", "se2"]
ENUM_CLASSES = ["e2", "se2", "f3", "e3", "se3", "f3a", "f4c", "f3m", "f3k"]
INVARIANTS = ["Placement", "NestedSlices", "PackUnpack", "ReadBack", "AssignFrame", "TypedInit", "FlagLaws", "EnumValues"]
ACTIONS = ["AddLeaf", "AddNested", "FinishArray", "FinishFlex"]


def _set(xs):
    return "{" + ", ".join('"%s"' % x if isinstance(x, str) else str(x) for x in xs) + "}"


def cfg_text(p, spec="Spec", invariants=True):
    lines = ["SPECIFICATION " + spec, "CONSTANTS"]
    for k in ("MaxBits", "MaxFields", "NestedMaxFields", "MaxNested", "InnerMaxFields", "MaxArr", "FullBits"):
        lines.append(" %s = %d" % (k, p[k]))
    for k in ("Leaves", "InnerLeaves", "SibLeaves", "FlexOffs", "FlexPads", "EnumClasses"):
        lines.append(" %s = %s" % (k, _set(p[k])))
    lines.append(' FlagTier = "%s"' % p.get("FlagTier", "none"))
    lines.append(' Mutant = "%s"' % p.get("Mutant", ""))
    if invariants:
        lines += ["INVARIANT " + i for i in (INVARIANTS if invariants is True else invariants)]
    lines.append("CHECK_DEADLOCK FALSE")
    return "\n".join(lines) + "\n"


def params(thorough):
    if thorough:
        return {"MaxBits": 10, "MaxFields": 3, "NestedMaxFields": 2, "MaxNested": 1, "InnerMaxFields": 3, "MaxArr": 3,
                "FullBits": 3, "Leaves": ALL_LEAVES, "InnerLeaves": ["u1", "s3", "e2", "f3", "se2"], "SibLeaves": ALL_LEAVES,
                "FlexOffs": [0, 2], "FlexPads": [0, 1], "EnumClasses": ENUM_CLASSES, "FlagTier": "thorough"}
    return {"MaxBits": 8, "MaxFields": 3, "NestedMaxFields": 2, "MaxNested": 1, "InnerMaxFields": 2, "MaxArr": 3,
            "FullBits": 3, "Leaves": ALL_LEAVES, "InnerLeaves": ["u1", "s2", "e2", "f3"], "SibLeaves": ["u1", "s3", "e2", "se2"],
            "FlexOffs": [0, 2], "FlexPads": [0, 1], "EnumClasses": ENUM_CLASSES, "FlagTier": "quick"}


def params_b(thorough):
    """second family (thorough): three fields of which one or two are nested layouts"""
    return {"MaxBits": 10, "MaxFields": 1, "NestedMaxFields": 3, "MaxNested": 2, "InnerMaxFields": 1, "MaxArr": 2,
            "FullBits": 3, "Leaves": ["u1", "s2", "se2"], "InnerLeaves": ["s3", "e2", "f3"],
            "SibLeaves": ["u1", "s2", "se2"], "FlexOffs": [1], "FlexPads": [1], "EnumClasses": [], "FlagTier": "none"}


# =============================================================================================
# binding: spec values -> real objects
# =============================================================================================
_enum_cache = {}


def _boundary(lib, name):
    return {"strict": lib.STRICT, "conform": lib.CONFORM, "keep": lib.KEEP, "eject": lib.EJECT}[name]


def make_enum(rec, pure_python=False):
    """Build the enumeration class described by a spec record [k |-> "enum", name, w, s, flag, boundary, members]."""
    key = (rec["name"], pure_python)
    if key in _enum_cache:
        return _enum_cache[key]
    import enum as py_enum
    from amaranth.hdl import signed, unsigned
    from amaranth.lib import enum as am_enum
    lib = py_enum if pure_python else am_enum
    base = lib.Flag if rec["flag"] else lib.Enum
    kw = {}
    if not pure_python:
        kw["shape"] = signed(rec["w"]) if rec["s"] else unsigned(rec["w"])
    if rec["flag"] and rec["boundary"]:
        kw["boundary"] = _boundary(py_enum, rec["boundary"])
    members = list(rec["members"])

    def body(ns):
        for i, v in enumerate(members):
            ns["M%d" % i] = v
    cls = types.new_class(("Py_" if pure_python else "") + re.sub(r"\W+", "_", rec["name"]).upper(), (base,), kw, body)
    _enum_cache[key] = cls
    return cls


def is_leaf(node):
    return node["k"] in ("int", "enum")


def nf(node):
    return node["n"] if node["k"] == "array" else len(node["fields"])


def sub(node, pos):
    return node["elem"] if node["k"] == "array" else node["fields"][pos - 1]["sh"]


def pykey(node, pos):
    """Python key of the field at position pos (binding convention of DataLayout.tla)."""
    if node["k"] == "array":
        return pos - 1
    name = node["fields"][pos - 1]["name"]
    return int(name[1:]) if name.startswith("#") else name


def build_shape(node):
    from amaranth.hdl import signed, unsigned
    from amaranth.lib import data
    k = node["k"]
    if k == "int":
        return signed(node["w"]) if node["s"] else unsigned(node["w"])
    if k == "enum":
        return make_enum(node)
    if k == "struct":
        return data.StructLayout({f["name"]: build_shape(f["sh"]) for f in node["fields"]})
    if k == "union":
        return data.UnionLayout({f["name"]: build_shape(f["sh"]) for f in node["fields"]})
    if k == "array":
        return data.ArrayLayout(build_shape(node["elem"]), node["n"])
    if k == "flex":
        return data.FlexibleLayout(node["size"], {pykey(node, i + 1): data.Field(build_shape(f["sh"]), f["off"])
                                                  for i, f in enumerate(node["fields"])})
    raise MachineryError("unknown node kind %r" % (k,))


KIND_NAME = {"struct": "StructLayout", "union": "UnionLayout", "array": "ArrayLayout", "flex": "FlexibleLayout"}


def describe(node):
    if node["k"] == "int":
        return node["name"]
    if node["k"] == "enum":
        return node["name"]
    if node["k"] == "array":
        return "Array(%s,%d)" % (describe(node["elem"]), node["n"])
    if node["k"] == "flex":
        return "Flex(%d,{%s})" % (node["size"], ",".join("%s:%s@%d" % (f["name"], describe(f["sh"]), f["off"])
                                                         for f in node["fields"]))
    return "%s{%s}" % (node["k"].capitalize(), ",".join("%s:%s" % (f["name"], describe(f["sh"])) for f in node["fields"]))


def jsonable(v):
    if isinstance(v, dict):
        return {k: jsonable(x) for k, x in v.items()}
    if isinstance(v, (list, tuple)):
        return [jsonable(x) for x in v]
    if isinstance(v, frozenset):
        return sorted(jsonable(x) for x in v)
    return v


class Out:
    """Per-worker result accumulator."""

    def __init__(self):
        self.viol = {}          # json key -> [count, key, desc, replay]
        self.n = {}             # counters

    def count(self, name, k=1):
        self.n[name] = self.n.get(name, 0) + k

    def violation(self, key, desc, top):
        js = json.dumps(key, sort_keys=True)
        if js in self.viol:
            self.viol[js][0] += 1
        else:
            self.viol[js] = [1, key, desc, {"top": jsonable(top)}]


class LayoutCase:
    """One dumped state: the spec layout `top`, its table `tab`, and the real layout built from it."""

    def __init__(self, top, tab):
        self.top = top
        self.tab = tab
        self.kind = KIND_NAME[top["k"]]
        self.desc = describe(top)
        self.size = tab["size"]
        self.paths = tab["paths"]
        self.P = len(self.paths)
        self.nodes = []          # spec node per path
        self.pkeys = []          # python keys per path
        self.parents = []        # spec parent node per path
        for d in self.paths:
            node, keys, parent = top, [], None
            for pos in d["path"]:
                keys.append(pykey(node, pos))
                parent = node
                node = sub(node, pos)
            self.nodes.append(node)
            self.pkeys.append(tuple(keys))
            self.parents.append(parent)
        self.pidx = {tuple(d["path"]): j for j, d in enumerate(self.paths)}
        self.signed_enum = [n["k"] == "enum" and n["s"] for n in self.nodes]
        self.has_signed_enum = any(self.signed_enum)
        self.layout = build_shape(top)

    def key(self, clause, **kw):
        k = {"clause": clause, "layout_kind": self.kind}
        k.update(kw)
        return k

    def through_signed_enum(self, j):
        """does path j end in (or is it) a signed enumeration field?"""
        return self.signed_enum[j]

    def valid_leaf(self, j, v):
        n = self.nodes[j]
        return n["k"] != "enum" or v in self.paths[j]["valid"]

    def fill(self, node, t, row, members, crow=None, cv=None):
        """template + row of values (+ row of the complemented pattern for negative indexes) -> Python initialiser.
        An entry (position, j, cw, cs) is a constant with its own shape: hdl.Const(v, signed(cw)/unsigned(cw)),
        v = next value of `cv` (TLC's list of the template's typed-constant values for this pattern)."""
        if is_leaf(node):
            v = row[t - 1] if t > 0 else crow[-t - 1]
            if node["k"] == "enum" and members:
                return make_enum(node)(v)
            return v
        items = []
        for e in t:
            if len(e) == 4:
                from amaranth.hdl import Const, Shape
                v = next(cv)
                c = Const(v, Shape(e[2], e[3]))
                if c.value != v:
                    raise MachineryError("specification gave %r as a value of the constant shape %r" % (v, c.shape()))
                items.append((e[0], c))
            else:
                items.append((e[0], self.fill(sub(node, e[0]), e[1], row, members, crow, cv)))
        if node["k"] == "array":
            if [p for p, _ in items] == list(range(1, node["n"] + 1)):
                return [x for _, x in items]
            return {p - 1: x for p, x in items}
        return {pykey(node, pos): x for pos, x in items}


def _num(x):
    """numeric value of what Const.__getitem__ / ctx.get returned"""
    import enum as py_enum
    from amaranth.lib import data
    if isinstance(x, data.Const):
        return x.as_bits()
    if isinstance(x, py_enum.Enum):
        return x.value
    return x


def _walk(obj, keys):
    for k in keys:
        obj = obj[k]
    return obj


def _exc(e):
    return type(e).__name__


# ---------------------------------------------------------------------------------------------
# constants: placement, round trips, field reads
# ---------------------------------------------------------------------------------------------
def check_consts(lc, out, opts):
    from amaranth.hdl import Shape, Const, unsigned, Signal
    from amaranth.lib import data
    L, tab, top = lc.layout, lc.tab, lc.top
    bad = lambda clause, desc, **kw: out.violation(lc.key(clause, **kw), "%s: %s" % (lc.desc, desc), top)

    # ---- placement -------------------------------------------------------------------------
    if L.size != tab["size"]:
        bad("size", "layout.size = %r, specification Size = %r" % (L.size, tab["size"]))
    if Shape.cast(L) != unsigned(tab["size"]):
        bad("size", "Shape.cast(layout) = %r, expected unsigned(%d)" % (Shape.cast(L), tab["size"]), api="Shape.cast")
    for j, d in enumerate(lc.paths):
        try:
            parent = L
            for k in lc.pkeys[j][:-1]:
                parent = data.Layout.cast(parent[k].shape)
            fld = parent[lc.pkeys[j][-1]]
            got = (fld.offset, fld.width, Shape.cast(fld.shape).signed)
        except Exception as e:
            bad("placement", "layout%r raised %r" % (list(lc.pkeys[j]), e), error=_exc(e), field_kind=d["kind"])
            continue
        if got != (d["off"], d["w"], d["s"]):
            bad("placement", "field %r: (offset, width, signed) = %r, specification %r" % (
                list(lc.pkeys[j]), got, (d["off"], d["w"], d["s"])), parent_kind=KIND_NAME[lc.parents[j]["k"]],
                field_kind=d["kind"])
        out.count("placement")
    # iteration order and keys of the top layout
    try:
        keys = [k for k, _ in L]
        want = [pykey(top, i + 1) for i in range(nf(top))]
        if keys != want:
            bad("placement", "iteration yields keys %r, declared %r" % (keys, want), api="iter")
    except Exception as e:
        bad("placement", "iter(layout) raised %r" % (e,), error=_exc(e), api="iter")

    # ---- class-based definition of the same layout -----------------------------------------
    cls = None
    if top["k"] in ("struct", "union") and nf(top) > 0:
        try:
            base = data.Struct if top["k"] == "struct" else data.Union
            cls = type(base)("C15Agg", (base,), {"__annotations__": {f["name"]: L[f["name"]].shape for f in top["fields"]}})
            if data.Layout.cast(cls) != L or Shape.cast(cls) != unsigned(lc.size):
                bad("class_layout", "data.%s class has layout %r" % (base.__name__, data.Layout.cast(cls)), api="class")
        except Exception as e:
            bad("class_layout", "defining the data.%s class raised %r" % (top["k"].capitalize(), e), error=_exc(e), api="class")
            cls = None

    # ---- every bit pattern -----------------------------------------------------------------
    leafs = [j for j in range(lc.P) if is_leaf(lc.nodes[j])]
    tops = [j for j in range(lc.P) if len(lc.pkeys[j]) == 1]
    for raw in range(1 << lc.size):
        row = tab["vals"][raw]
        out.count("pairs")
        try:
            c = L.from_bits(raw)
            if c.as_bits() != raw or Const.cast(c).value != raw or len(c.as_value()) != lc.size:
                bad("from_bits_as_bits", "from_bits(%d).as_bits() = %r" % (raw, c.as_bits()))
        except Exception as e:
            bad("from_bits_as_bits", "from_bits(%d) raised %r" % (raw, e), error=_exc(e))
            continue
        # the ShapeCastable law: const(from_bits(raw)) has the value raw
        try:
            c2 = L.const(c)
            if Const.cast(c2).value != raw or c2.as_bits() != raw:
                bad("const_of_from_bits", "const(from_bits(%d)) has value %r" % (raw, c2.as_bits()))
        except Exception as e:
            bad("const_of_from_bits", "layout.const(layout.from_bits(%d)) raised %r" % (raw, e), error=_exc(e), op="const")
        if cls is not None:
            try:
                c3 = cls.const(cls.from_bits(raw))
                if c3.as_bits() != raw:
                    bad("const_of_from_bits", "class const(from_bits(%d)) has value %r" % (raw, c3.as_bits()), api="class")
                out.count("class_pairs")
            except Exception as e:
                bad("const_of_from_bits", "class const(from_bits(%d)) raised %r" % (raw, e), error=_exc(e), api="class")
        # field reads of the constant
        for j in range(lc.P):
            want = row[j]
            node = lc.nodes[j]
            valid = lc.valid_leaf(j, want)
            try:
                got = _walk(c, lc.pkeys[j])
            except Exception as e:
                if valid:
                    if lc.through_signed_enum(j):
                        out.violation({"clause": "signed_enum_field", "op": "const_getitem", "error": _exc(e)},
                                      "%s: from_bits(%d)%r raised %r, specification value %r" % (
                                          lc.desc, raw, list(lc.pkeys[j]), e, want), top)
                    else:
                        bad("field_value", "from_bits(%d)%r raised %r, specification value %r" % (
                            raw, list(lc.pkeys[j]), e, want), api="const_getitem", error=_exc(e), field_kind=lc.paths[j]["kind"])
                continue
            out.count("const_reads")
            if not valid:
                # documented: an invalid bit pattern of an enumeration field raises
                bad("invalid_enum_pattern", "from_bits(%d)%r returned %r for a pattern that is no value of the "
                    "enumeration" % (raw, list(lc.pkeys[j]), got), api="const_getitem", field_kind=node["name"])
                continue
            if _num(got) != want or (node["k"] == "enum" and not isinstance(got, make_enum(node))) or \
                    (not is_leaf(node) and not isinstance(got, data.Const)):
                bad("field_value", "from_bits(%d)%r = %r, specification FieldOf = %r" % (raw, list(lc.pkeys[j]), got, want),
                    api="const_getitem", field_kind=lc.paths[j]["kind"] if not is_leaf(node) else node["name"])
        # attribute access on the class-based constant / view of a constant
        if cls is not None and raw % 3 == 0:
            for j in tops:
                if not lc.valid_leaf(j, row[j]) or lc.through_signed_enum(j):
                    continue
                try:
                    got = getattr(c, lc.pkeys[j][0])
                    if _num(got) != row[j]:
                        bad("field_value", "from_bits(%d).%s = %r, specification %r" % (raw, lc.pkeys[j][0], got, row[j]),
                            api="const_getattr")
                except Exception as e:
                    bad("field_value", "from_bits(%d).%s raised %r" % (raw, lc.pkeys[j][0], e), api="const_getattr", error=_exc(e))
        # building the constant from field values
        if tab["initok"][raw]:
            want = tab["packed"][raw]
            for members in (True, False) if any(lc.nodes[j]["k"] == "enum" for j in leafs) else (False,):
                try:
                    init = lc.fill(top, tab["tmpl"], row, members)
                    ci = L.const(init)
                    out.count("const_inits")
                    if ci.as_bits() != want or Const.cast(ci).value != want:
                        bad("const_from_fields", "const(%r).as_bits() = %r, specification Pack = %r" % (init, ci.as_bits(), want))
                        continue
                    # reading the fields back
                    wrow = tab["vals"][want]
                    for j in tops:
                        if lc.through_signed_enum(j) or not lc.valid_leaf(j, wrow[j]):
                            continue
                        got = ci[lc.pkeys[j][0]]
                        if _num(got) != wrow[j]:
                            bad("const_read_back", "const(%r)[%r] = %r, specification %r" % (init, lc.pkeys[j][0], got, wrow[j]))
                    if isinstance(init, (dict, list)) and not lc.has_signed_enum and not (ci == init):
                        bad("const_read_back", "const(%r) != %r" % (init, init), api="eq")
                    if cls is not None:
                        if cls.const(init).as_bits() != want:
                            bad("const_from_fields", "class const(%r).as_bits() = %r, specification %r" % (
                                init, cls.const(init).as_bits(), want), api="class")
                except Exception as e:
                    if lc.has_signed_enum:
                        out.violation({"clause": "signed_enum_field", "op": "const_init", "error": _exc(e)},
                                      "%s: const(...) from fields of pattern %d raised %r" % (lc.desc, raw, e), top)
                    else:
                        bad("const_from_fields", "const from fields of pattern %d raised %r" % (raw, e), error=_exc(e))

    # ---- further initialisers: partial, reversed, single union member, empty; Signal(init=) ----
    for x, raw in enumerate(tab["xraws"]):
        row = tab["vals"][raw]
        crow = tab["vals"][(1 << lc.size) - 1 - raw]
        for y, t in enumerate(tab["xtmpl"]):
            want = tab["xconst"][x][y]
            cv = iter(tab["xcv"][x][y])
            inits = [lc.fill(top, t, row, bool((x + y) % 2), crow, cv)]
            if next(cv, None) is not None:
                raise MachineryError("template %r of %s: typed constant values left over" % (t, lc.desc))
            typed = len(tab["xcv"][x][y]) > 0
            if typed:
                out.count("typed_const_inits")
            if t == ():
                inits.append(None)
            for init in inits:
                try:
                    got = L.const(init).as_bits()
                    out.count("const_inits")
                    if got != want:
                        bad("const_from_fields", "const(%r).as_bits() = %r, specification %r" % (init, got, want),
                            api="typed_const" if typed else "partial")
                    # the class-based definition: const(init) and keyword defaults (declaration order only)
                    if cls is not None and isinstance(init, dict):
                        got = cls.const(init).as_bits()
                        if got != want:
                            bad("const_from_fields", "class const(%r).as_bits() = %r, specification %r" % (init, got, want),
                                api="class_typed_const" if typed else "class_partial")
                        pos = [e[0] for e in t]
                        if x < 3 and init and pos == sorted(pos):
                            base = data.Struct if top["k"] == "struct" else data.Union
                            ns = {"__annotations__": {f["name"]: L[f["name"]].shape for f in top["fields"]}}
                            ns.update(init)
                            dcls = type(base)("C15Dflt", (base,), ns)
                            got = (dcls.const(None).as_bits(), Signal(dcls).as_value().init)
                            out.count("class_defaults")
                            if got != (want, want):
                                bad("const_from_fields", "class with defaults %r: (const(None).as_bits(), Signal(cls).init) = %r, "
                                    "specification %r" % (init, got, want), api="class_defaults")
                    if x < 4:
                        try:
                            sg = Signal(L, init=init)
                        except Exception as e:
                            if lc.has_signed_enum:
                                continue      # reported once by the simulation part (op Signal)
                            raise
                        if sg.as_value().init != want:
                            bad("const_from_fields", "Signal(layout, init=%r) has init %r, specification %r" % (
                                init, sg.as_value().init, want), api="signal_init")
                except Exception as e:
                    bad("const_from_fields", "const(%r) raised %r" % (init, e), api="typed_const" if typed else "partial", error=_exc(e))
    # nested constants as initialisers of layout-shaped fields: const({key: sublayout.from_bits(x)})
    for j in tops:
        node = lc.nodes[j]
        if is_leaf(node) or top["k"] == "array":
            continue
        subl = data.Layout.cast(L[lc.pkeys[j][0]].shape)
        for v in sorted({0, (1 << lc.paths[j]["w"]) - 1, (0x155 & ((1 << lc.paths[j]["w"]) - 1))}):
            want = (v << lc.paths[j]["abs"])
            try:
                got = L.const({lc.pkeys[j][0]: subl.from_bits(v)}).as_bits()
                if got != want:
                    bad("const_from_fields", "const({%r: from_bits(%d)}) = %r" % (lc.pkeys[j][0], v, got), api="nested_const")
            except Exception as e:
                bad("const_of_from_bits", "const({%r: %s.from_bits(%d)}) raised %r" % (lc.pkeys[j][0], KIND_NAME[node["k"]], v, e),
                    error=_exc(e), op="nested_const", **{"layout_kind": KIND_NAME[node["k"]]})


# ---------------------------------------------------------------------------------------------
# simulation and synthesis
# ---------------------------------------------------------------------------------------------
class Dut:
    pass


def build_dut(lc, idx, m, out, opts):
    """Adds a submodule with the view signals and the assignment circuits of one layout."""
    from amaranth.hdl import Module, Signal, Value, Shape, signed, unsigned
    from amaranth.lib import data
    L, top = lc.layout, lc.top
    d = Dut()
    d.lc = lc
    d.ports = []
    sub_m = Module()

    def mk(name):
        nm = "l%d_%s" % (idx, name)
        if not d.plain_view:
            return Signal(L, name=nm)
        return data.View(L, Signal(unsigned(lc.size), name=nm))

    d.plain_view = False
    try:
        Signal(L, name="probe")
    except Exception as e:
        d.plain_view = True
        if lc.has_signed_enum:
            out.violation({"clause": "signed_enum_field", "op": "Signal", "error": _exc(e)},
                          "%s: Signal(layout) raised %r" % (lc.desc, e), top)
        else:
            out.violation(lc.key("signal", error=_exc(e)), "%s: Signal(layout) raised %r" % (lc.desc, e), top)
    d.sig = mk("sig")
    d.ports.append(d.sig.as_value())
    # signals with an initial value given field by field (with typed constants where the table has them)
    d.inits = []
    tab = lc.tab
    if tab["xraws"] and not d.plain_view:
        typed_y = [y for y in range(len(tab["xtmpl"])) if tab["xcv"][0][y]]
        picks = {(0, typed_y[0] if typed_y else 0), (len(tab["xraws"]) - 1, typed_y[-1] if typed_y else len(tab["xtmpl"]) - 1),
                 (len(tab["xraws"]) // 2, typed_y[len(typed_y) // 2] if typed_y else 0)}
        for x, y in sorted(picks):
            raw = tab["xraws"][x]
            init = lc.fill(top, tab["xtmpl"][y], tab["vals"][raw], True, tab["vals"][(1 << lc.size) - 1 - raw],
                           iter(tab["xcv"][x][y]))
            try:
                isig = Signal(L, init=init, name="l%d_init%d_%d" % (idx, x, y))
            except Exception as e:
                out.violation(lc.key("const_from_fields", api="signal_init", error=_exc(e)),
                              "%s: Signal(layout, init=%r) raised %r" % (lc.desc, init, e), top)
                continue
            d.inits.append((isig, init, tab["xconst"][x][y]))
            d.ports.append(isig.as_value())
    d.fields = [None] * lc.P      # field objects of sig (view / value / enum view)
    d.fvals = [None] * lc.P       # Value.cast of them
    d.outs = [None] * lc.P        # compiled copies
    d.vin = [None] * lc.P
    d.comb_t = [None] * lc.P
    d.sync_t = [None] * lc.P
    getitem_reported = False
    for j in range(lc.P):
        try:
            f = _walk(d.sig, lc.pkeys[j])
            fv = Value.cast(f)
        except Exception as e:
            if lc.through_signed_enum(j):
                if not getitem_reported:
                    out.violation({"clause": "signed_enum_field", "op": "getitem", "error": _exc(e)},
                                  "%s: view%r raised %r" % (lc.desc, list(lc.pkeys[j]), e), top)
                    getitem_reported = True
            else:
                out.violation(lc.key("view_getitem", error=_exc(e), field_kind=lc.paths[j]["kind"]),
                              "%s: view%r raised %r" % (lc.desc, list(lc.pkeys[j]), e), top)
            continue
        want_shape = Shape(lc.paths[j]["w"], lc.paths[j]["s"])
        if fv.shape() != want_shape:
            out.violation(lc.key("field_shape", field_kind=lc.paths[j]["kind"]),
                          "%s: view%r has shape %r, specification %r" % (lc.desc, list(lc.pkeys[j]), fv.shape(), want_shape), top)
        d.fields[j] = f
        d.fvals[j] = fv
        o = Signal(signed(lc.paths[j]["w"] + 2), name="l%d_o%d" % (idx, j))      # value preserving for either signedness
        sub_m.d.comb += o.eq(fv)
        d.outs[j] = o
        vin = Signal(signed(lc.paths[j]["w"] + 2), name="l%d_v%d" % (idx, j))
        d.vin[j] = vin
        ct = mk("c%d" % j)
        st = mk("s%d" % j)
        sub_m.d.comb += [ct.as_value().eq(d.sig.as_value()), _walk(ct, lc.pkeys[j]).eq(vin)]
        sub_m.d.sync += [st.as_value().eq(d.sig.as_value()), _walk(st, lc.pkeys[j]).eq(vin)]
        d.comb_t[j] = ct
        d.sync_t[j] = st
        d.ports += [o, vin, ct.as_value(), st.as_value()]
    # dynamic indexing of array views (root and nested arrays with elements of non-zero width)
    d.dyn = []
    arrays = [((), top)] if top["k"] == "array" else []
    arrays += [(tuple(lc.paths[j]["path"]), lc.nodes[j]) for j in range(lc.P) if lc.nodes[j]["k"] == "array"]
    for q, node in arrays:
        if node["n"] == 0:
            continue
        ej = lc.pidx[q + (1,)]
        if lc.paths[ej]["w"] == 0 or d.fields[ej] is None:
            continue        # word_select of zero width is refused by the language: not specified for layouts
        keys = lc.pkeys[lc.pidx[q]] if q else ()
        idxs = Signal(range(max(node["n"], 2)), name="l%d_i%d" % (idx, len(d.dyn)))
        try:
            dv = _walk(d.sig, keys)[idxs]
            dvv = Value.cast(dv)
            do = Signal(signed(lc.paths[ej]["w"] + 2), name="l%d_do%d" % (idx, len(d.dyn)))
            sub_m.d.comb += do.eq(dvv)
            dvin = Signal(signed(lc.paths[ej]["w"] + 2), name="l%d_dv%d" % (idx, len(d.dyn)))
            dct = mk("dc%d" % len(d.dyn))
            sub_m.d.comb += [dct.as_value().eq(d.sig.as_value()), _walk(dct, keys)[idxs].eq(dvin)]
        except Exception as e:
            out.violation(lc.key("view_getitem", error=_exc(e), api="dynamic_index"),
                          "%s: view%r[Signal] raised %r" % (lc.desc, list(keys), e), top)
            continue
        d.dyn.append((q, node["n"], idxs, dv, dvv, do, dvin, dct))
        d.ports += [idxs, do, dvin, dct.as_value()]
    m.submodules["l%d" % idx] = sub_m
    return d


def _in_range(desc, v):
    w = desc["w"]
    return (-(1 << (w - 1)) <= v < (1 << (w - 1))) if desc["s"] else (0 <= v < (1 << w))


def _fk(lc, j):
    return lc.paths[j]["kind"] if not is_leaf(lc.nodes[j]) else lc.nodes[j]["name"]


def _sim_reads(ctx, d, out, opts):
    """every field of every bit pattern: interpreted, compiled, and lifted through from_bits"""
    from amaranth.hdl import Value
    from amaranth.lib import data
    lc, tab = d.lc, d.lc.tab
    sv = d.sig.as_value()
    bad = lambda clause, desc, **kw: out.violation(lc.key(clause, **kw), "%s: %s" % (lc.desc, desc), lc.top)
    for isig, init, want in d.inits:        # at time 0: the value of a signal created with init=
        got = (ctx.get(isig.as_value()), _num(ctx.get(isig)))
        out.count("sim_inits")
        if got != (want, want):
            bad("const_from_fields", "Signal(layout, init=%r): ctx.get at time 0 gives %r, specification %r" % (init, got, want),
                api="sim_signal_init")
    for raw in range(1 << lc.size):
        row = tab["vals"][raw]
        ctx.set(sv, raw)
        out.count("sim_pairs")
        for j in range(lc.P):
            if d.fvals[j] is None:
                continue
            g1 = ctx.get(d.fvals[j])
            g2 = ctx.get(d.outs[j])
            out.count("sim_reads", 2)
            if g1 != row[j] or g2 != row[j]:
                bad("field_value", "view%r of pattern %d: ctx.get(field) = %r, compiled copy = %r, specification "
                    "FieldOf = %r" % (list(lc.pkeys[j]), raw, g1, g2, row[j]), api="sim_get", field_kind=_fk(lc, j))
            f = d.fields[j]
            if not isinstance(f, Value) and lc.valid_leaf(j, row[j]):
                try:
                    g3 = ctx.get(f)      # through ShapeCastable.from_bits
                    out.count("sim_reads")
                    if _num(g3) != row[j]:
                        bad("field_value", "ctx.get(view%r) of pattern %d = %r, specification %r" % (
                            list(lc.pkeys[j]), raw, g3, row[j]), api="sim_get_cast", field_kind=_fk(lc, j))
                except Exception as e:
                    bad("field_value", "ctx.get(view%r) of pattern %d raised %r" % (list(lc.pkeys[j]), raw, e),
                        api="sim_get_cast", error=_exc(e), field_kind=_fk(lc, j))
        if raw % 5 == 0:
            try:
                g = ctx.get(d.sig)
                if not isinstance(g, data.Const) or g.as_bits() != raw:
                    bad("from_bits_as_bits", "ctx.get(view) of pattern %d = %r" % (raw, g), api="sim_get_cast")
            except Exception as e:
                bad("from_bits_as_bits", "ctx.get(view) of pattern %d raised %r" % (raw, e), api="sim_get_cast", error=_exc(e))
        for q, n, idxs, dv, dvv, do, dvin, dct in d.dyn:
            for i in range(n):
                ctx.set(idxs, i)
                want = row[lc.pidx[q + (i + 1,)]]
                g1, g2 = ctx.get(dvv), ctx.get(do)
                out.count("sim_dyn_reads", 2)
                if g1 != want or g2 != want:
                    bad("field_value", "view%r[Signal=%d] of pattern %d: ctx.get = %r, compiled = %r, specification %r"
                        % (list(lc.pkeys[lc.pidx[q]]) if q else [], i, raw, g1, g2, want), api="sim_dynamic_index")


def _asg_setup(ctx, d, out, opts, r):
    """round r of the assignment test: choose (pattern, value) per path, drive the inputs"""
    lc, tab = d.lc, d.lc.tab
    nr = len(tab["asgraws"])
    x = (r * 7 + opts["seed"]) % nr if r >= nr else r
    raw = tab["asgraws"][x]
    ctx.set(d.sig.as_value(), raw)
    ys = [None] * lc.P
    for j in range(lc.P):
        if d.vin[j] is None:
            continue
        vs = tab["asgvals"][j]
        y = (r + (r // len(vs)) * (j + 1)) % len(vs)
        ys[j] = y
        ctx.set(d.vin[j], vs[y])
    dyn = []
    for q, n, idxs, dv, dvv, do, dvin, dct in d.dyn:
        i = r % n
        ej = lc.pidx[q + (i + 1,)]
        y = (r // n) % len(tab["asgvals"][ej])
        ctx.set(idxs, i)
        ctx.set(dvin, tab["asgvals"][ej][y])
        dyn.append((i, ej, y))
    return (x, raw, ys, dyn)


def _asg_comb(ctx, d, out, opts, plan):
    x, raw, ys, dyn = plan
    return ([ctx.get(d.comb_t[j].as_value()) if ys[j] is not None else None for j in range(d.lc.P)],
            [ctx.get(t[7].as_value()) for t in d.dyn])


def _asg_check(ctx, d, out, opts, plan, comb):
    lc, tab = d.lc, d.lc.tab
    x, raw, ys, dyn = plan
    cg, dg = comb
    for j in range(lc.P):
        if ys[j] is None:
            continue
        want = tab["asg"][j][x][ys[j]]
        sg = ctx.get(d.sync_t[j].as_value())
        out.count("sim_assign", 2)
        if cg[j] != want or sg != want:
            out.violation(lc.key("assign_field", api="comb" if cg[j] != want else "sync", field_kind=_fk(lc, j)),
                          "%s: pattern %d, view%r.eq(%d): comb gives %r, sync gives %r, specification AssignField "
                          "= %r" % (lc.desc, raw, list(lc.pkeys[j]), tab["asgvals"][j][ys[j]], cg[j], sg, want), lc.top)
    for (i, ej, y), g, t in zip(dyn, dg, d.dyn):
        want = tab["asg"][ej][x][y]
        out.count("sim_assign")
        if g != want:
            out.violation(lc.key("assign_field", api="comb_dynamic_index"),
                          "%s: pattern %d, view%r[Signal=%d].eq(%d): comb gives %r, specification %r" % (
                              lc.desc, raw, list(lc.pkeys[lc.pidx[t[0]]]) if t[0] else [], i, tab["asgvals"][ej][y], g, want), lc.top)


def _sim_sets(ctx, d, out, opts):
    """assignment by ctx.set(view field, value) and ctx.set(view, constant / initialiser)"""
    from amaranth.lib import data
    lc, tab = d.lc, d.lc.tab
    sv = d.sig.as_value()
    for r in range(opts["set_rounds"]):
        for j in range(lc.P):
            f = d.fields[j]
            if f is None:
                continue
            vs = tab["asgvals"][j]
            ok = [y for y in range(len(vs)) if _in_range(lc.paths[j], vs[y]) and lc.valid_leaf(j, vs[y])]
            if not ok:
                continue
            y = ok[(r * 3 + j) % len(ok)]
            x = (r + j) % len(tab["asgraws"])
            raw, v, want = tab["asgraws"][x], vs[y], tab["asg"][j][x][y]
            node = lc.nodes[j]
            if node["k"] == "enum":
                val = make_enum(node)(v)
            elif is_leaf(node):
                val = v
            else:
                val = data.Layout.cast(f.shape()).from_bits(v)
            ctx.set(sv, raw)
            try:
                ctx.set(f, val)
            except Exception as e:
                if not is_leaf(node):
                    out.violation({"clause": "const_of_from_bits", "layout_kind": KIND_NAME[node["k"]],
                                   "error": _exc(e), "op": "ctx.set"},
                                  "%s: ctx.set(view%r, %s.from_bits(%d)) raised %r" % (
                                      lc.desc, list(lc.pkeys[j]), KIND_NAME[node["k"]], v, e), lc.top)
                    ctx.set(d.fvals[j], v)
                else:
                    out.violation(lc.key("assign_field", api="ctx.set", error=_exc(e)),
                                  "%s: ctx.set(view%r, %r) raised %r" % (lc.desc, list(lc.pkeys[j]), val, e), lc.top)
                    continue
            got = ctx.get(sv)
            out.count("sim_set")
            if got != want:
                out.violation(lc.key("assign_field", api="ctx.set", field_kind=_fk(lc, j)),
                              "%s: pattern %d, ctx.set(view%r, %r) gives %r, specification AssignField = %r" % (
                                  lc.desc, raw, list(lc.pkeys[j]), val, got, want), lc.top)
    for x, raw in enumerate(tab["xraws"][:4]):
        if not tab["initok"][raw]:
            continue
        want = tab["packed"][raw]
        for val in (lc.layout.from_bits(want), lc.fill(lc.top, tab["tmpl"], tab["vals"][raw], True)):
            try:
                ctx.set(sv, 0)
                ctx.set(d.sig, val)
                got = ctx.get(sv)
                out.count("sim_set")
                if got != want:
                    out.violation(lc.key("const_from_fields", api="ctx.set"),
                                  "%s: ctx.set(view, %r) gives %r, specification %r" % (lc.desc, val, got, want), lc.top)
            except Exception as e:
                if isinstance(val, data.Const):
                    out.violation({"clause": "const_of_from_bits", "layout_kind": lc.kind, "error": _exc(e), "op": "ctx.set"},
                                  "%s: ctx.set(view, layout.from_bits(%d)) raised %r" % (lc.desc, want, e), lc.top)
                elif lc.has_signed_enum:
                    out.violation({"clause": "signed_enum_field", "op": "const_init", "error": _exc(e)},
                                  "%s: ctx.set(view, %r) raised %r" % (lc.desc, val, e), lc.top)
                else:
                    out.violation(lc.key("const_from_fields", api="ctx.set", error=_exc(e)),
                                  "%s: ctx.set(view, %r) raised %r" % (lc.desc, val, e), lc.top)


def sim_batch(cases, out, opts):
    from amaranth.hdl import Module
    from amaranth.sim import Simulator, Period
    from amaranth.back import rtlil
    m = Module()
    duts = []
    for i, lc in enumerate(cases):
        try:
            duts.append(build_dut(lc, i, m, out, opts))
        except MachineryError:
            raise
        except Exception as e:
            out.violation(lc.key("view_construct", error=_exc(e)), "%s: building views of the layout raised %r" % (lc.desc, e),
                          lc.top)
    if not duts:
        return
    ports = [p for d in duts for p in d.ports]
    if opts["rtlil"] and (opts["rtlil"] is True or zlib.crc32(cases[0].desc.encode()) % opts["rtlil"] == 0):
        try:
            import time
            t0 = time.process_time()
            text = rtlil.convert(m, ports=ports)
            out.count("cpu_rtlil_s", time.process_time() - t0)
            out.count("rtlil_designs")
            out.count("rtlil_bytes", len(text))
        except Exception as e:
            out.violation({"clause": "rtlil_convert", "error": _exc(e), "signed_enum": any(lc.has_signed_enum for lc in cases)},
                          "rtlil.convert of a design with views of %d layouts (first %s) raised %r" % (
                              len(cases), cases[0].desc, e), cases[0].top)
    sim = Simulator(m)
    any_sync = any(t is not None for d in duts for t in d.sync_t)
    if any_sync:
        sim.add_clock(Period(MHz=1))
    rounds = opts["asg_rounds"] if any_sync else 0
    dead = set()

    def guard(d, fn, ctx, *args):
        """an exception of the code under test while exercising one layout is a violation, not a crash"""
        if id(d) in dead:
            return None
        try:
            return fn(ctx, d, out, opts, *args)
        except MachineryError:
            raise
        except Exception as e:
            dead.add(id(d))
            out.violation(d.lc.key("sim_exception", error=_exc(e), stage=fn.__name__.strip("_")),
                          "%s: %s raised %r" % (d.lc.desc, fn.__name__.strip("_"), e), d.lc.top)
            return None

    async def tb(ctx):
        for d in duts:
            guard(d, _sim_reads, ctx)
        for r in range(rounds):
            plans = [guard(d, _asg_setup, ctx, r) for d in duts]
            combs = [guard(d, _asg_comb, ctx, pl) if pl is not None else None for d, pl in zip(duts, plans)]
            await ctx.tick()
            for d, pl, cb in zip(duts, plans, combs):
                if pl is not None and cb is not None:
                    guard(d, _asg_check, ctx, pl, cb)
        for d in duts:
            guard(d, _sim_sets, ctx)

    sim.add_testbench(tb)
    sim.run()


# ---------------------------------------------------------------------------------------------
# enumerations
# ---------------------------------------------------------------------------------------------
def _pyval(x):
    """Python's result as an integer: a Flag member's value, or the int an EJECT class returned"""
    import enum as py_enum
    return x.value if isinstance(x, py_enum.Enum) else x


def spec_selftest_flag(rec, tab, P):
    """The specification's flag tables against Python's enum.Flag (machinery check: the spec claims to state
    Python's semantics; a disagreement is an error of the specification, not a verdict on amaranth)."""
    import enum as py_enum
    import operator
    name = rec["name"]
    w = rec["w"]
    fail = lambda what: MachineryError("specification and Python's enum.Flag disagree on %s: %s" % (name, what))
    masks = (P._flag_mask_, P._singles_mask_, P._all_bits_)
    if tuple(tab["masks"]) != masks:
        raise fail("(flag, singles, all bits) masks %r vs %r" % (tab["masks"], masks))
    valid = set(tab["valid"])
    for v in range(1 << w):
        try:
            m = P(v)
            ok = isinstance(m, P) and m.value == v
        except ValueError:
            ok = False
        if ok != (v in valid):
            raise fail("is %d a value of the class: %r vs %r" % (v, v in valid, ok))
    if sorted(valid | set(tab["invalid"])) != list(range(1 << w)):
        raise fail("valid/invalid do not partition the patterns")
    vs = tab["valid"]
    for x, va in enumerate(vs):
        if _pyval(~P(va)) != tab["nots"][x]:
            raise fail("~%d: %r vs %r" % (va, tab["nots"][x], _pyval(~P(va))))
        if tab["notbits"][x] != tab["nots"][x] % (1 << w):
            raise fail("notbits of %d" % va)
        if bool(P(va)) != tab["bools"][x]:
            raise fail("bool(%d)" % va)
        for y, vb in enumerate(vs):
            t = tab["ops"][x][y]
            for ki, op in enumerate((operator.or_, operator.and_, operator.xor)):
                try:
                    py = _pyval(op(P(va), P(vb)))
                except ValueError:
                    py = None           # Python refuses the result: the specification must say "no value of the class"
                if (py is None) != (t[ki] not in valid) or (py is not None and py != t[ki]):
                    raise fail("%d %s %d: %r (a value: %r) vs %r" % (va, op.__name__, vb, t[ki], t[ki] in valid, py))
            if (t[3], t[4]) != (P(va) == P(vb), P(va) in P(vb)):
                raise fail("%d (==, in) %d: %r vs %r" % (va, vb, t[3:], (P(va) == P(vb), P(va) in P(vb))))


def check_enum(rec, tab, out, opts):
    import operator
    from amaranth.hdl import Module, Signal, Shape, Const, Value
    from amaranth.sim import Simulator
    from amaranth.back import rtlil
    E = make_enum(rec)
    P = make_enum(rec, pure_python=True)
    name = rec["name"]
    kind = "Flag" if rec["flag"] else "Enum"
    extra = {"boundary": rec["boundary"]} if rec["flag"] else {}
    bad = lambda clause, desc, **kw: out.violation(dict({"clause": clause, "enum_kind": kind}, **extra, **kw),
                                                   "%s %s: %s" % (kind, name, desc), rec)
    want_shape = Shape(rec["w"], rec["s"])
    if Shape.cast(E) != want_shape:
        bad("enum_shape", "Shape.cast = %r, specification %r" % (Shape.cast(E), want_shape))
    if rec["flag"]:
        spec_selftest_flag(rec, tab, P)
        out.count("flag_classes")
        if not tab["notspec"]:
            out.count("flag_classes_invert_unspecified")
    valid = set(tab["valid"])
    for v in tab["valid"]:
        if P(v).value != v:
            raise MachineryError("specification says %d is a value of %s, Python's enum gives %r" % (v, name, P(v)))
        try:
            mem = E.from_bits(v)
            if mem.value != v or not isinstance(mem, E):
                bad("enum_round_trip", "from_bits(%d) = %r" % (v, mem))
            for init in (mem, v):
                c = E.const(init)
                cc = Const.cast(c)
                if cc.value != v or cc.shape() != want_shape:
                    bad("enum_round_trip", "const(%r) = %r, expected value %d of shape %r" % (init, cc, v, want_shape))
            out.count("enum_round_trips")
        except Exception as e:
            bad("enum_round_trip", "const(from_bits(%d)) raised %r" % (v, e), error=_exc(e))
    for v in tab["invalid"]:
        try:
            P(v)
        except Exception:
            try:
                got = E.from_bits(v)
                bad("enum_round_trip", "from_bits(%d) returned %r for a pattern that is no value (Python's enum refuses it)" % (v, got),
                    api="invalid")
            except Exception:
                pass
    # signals, views, operators
    m = Module()
    a = Signal(E, name="a")
    b = Signal(E, name="b")
    exprs = {"eq": a == b, "ne": a != b}
    if rec["flag"]:
        exprs.update({"or": a | b, "and": a & b, "xor": a ^ b, "not": ~a})
    outs = {}
    for k, e in exprs.items():
        o = Signal(len(Value.cast(e)) + 1, name="o_" + k)       # one bit wider: a result wider than the shape shows
        m.d.comb += o.eq(e)
        outs[k] = o
    if opts["rtlil"] is True or (opts["rtlil"] and zlib.crc32(name.encode()) % opts["rtlil"] == 0):
        try:
            rtlil.convert(m, ports=[Value.cast(a), Value.cast(b)] + list(outs.values()))
            out.count("rtlil_designs")
        except Exception as e:
            bad("rtlil_convert", "rtlil.convert of a design with Signal(%s) raised %r" % (name, e), error=_exc(e), signed_enum=rec["s"])
    sim = Simulator(m)
    vs = tab["valid"]
    pyop = {"or": operator.or_, "and": operator.and_, "xor": operator.xor}

    def lifted(ctx, expr, want):
        """ctx.get of the view itself (through from_bits) when the result is a value of the class"""
        if want not in valid:
            return want
        return _num(ctx.get(expr))

    async def tb(ctx):
        for x, va in enumerate(vs):
            ctx.set(a, E(va))
            if ctx.get(a) != E(va) or ctx.get(Value.cast(a)) != va:
                bad("enum_round_trip", "ctx.set(sig, %r); ctx.get(sig) = %r" % (E(va), ctx.get(a)), api="sim")
            ca = E.const(va)
            if rec["flag"] and tab["notspec"]:
                want = tab["notbits"][x]
                got = (ctx.get(Value.cast(exprs["not"])), ctx.get(outs["not"]), ctx.get(Value.cast(~ca)), lifted(ctx, exprs["not"], want))
                out.count("flag_ops", 4)
                if got != (want,) * 4:
                    bad("flag_op", "~%r: view of a signal gives %r, compiled %r, view of a constant %r, lifted %r; specification "
                        "(= enum.Flag) %r" % (E(va), got[0], got[1], got[2], got[3], want), op="not")
            for y, vb in enumerate(vs):
                ctx.set(b, E(vb))
                cb = E.const(vb)
                want_eq = 1 if va == vb else 0
                if rec["flag"] and bool(tab["ops"][x][y][3]) != bool(want_eq):
                    raise MachineryError("specification == table of %s" % name)
                for k, wv in (("eq", want_eq), ("ne", 1 - want_eq)):
                    cmp = operator.eq if k == "eq" else operator.ne
                    got = (ctx.get(exprs[k]), ctx.get(outs[k]), ctx.get(cmp(a, E(vb))), ctx.get(cmp(ca, cb)), ctx.get(cmp(ca, b)))
                    out.count("flag_ops", 5)
                    if got != (wv,) * 5:
                        bad("flag_op", "%r %s %r gives %r (signals, compiled, member operand, constants, constant and signal)" % (
                            E(va), k, E(vb), got), op=k)
                if not rec["flag"]:
                    continue
                for ki, k in enumerate(("or", "and", "xor")):
                    want = tab["ops"][x][y][ki]
                    if want not in valid:
                        out.count("flag_ops_undefined")      # Python raises: no defined result
                        continue
                    got = (ctx.get(Value.cast(exprs[k])), ctx.get(outs[k]),
                           ctx.get(Value.cast(pyop[k](a, E(vb)))),          # member operand
                           ctx.get(Value.cast(pyop[k](E(va), b))),          # reflected
                           ctx.get(Value.cast(pyop[k](ca, cb))),            # views of constants
                           lifted(ctx, exprs[k], want))
                    out.count("flag_ops", 6)
                    if got != (want,) * 6:
                        bad("flag_op", "%r %s %r: (signals, compiled, member operand, reflected, constants, lifted) = %r, "
                            "specification (= enum.Flag) %r" % (E(va), k, E(vb), got, want), op=k)
    sim.add_testbench(tb)
    try:
        sim.run()
    except MachineryError:
        raise
    except Exception as e:
        bad("flag_op", "simulation raised %r" % (e,), error=_exc(e))


# ---------------------------------------------------------------------------------------------
# worker: a byte range of a TLC dump
# ---------------------------------------------------------------------------------------------
_hdr = re.compile(rb"(?m)^State \d+:.*\n")


def index_dump(path):
    """byte offsets of the states of a TLC dump"""
    offs = []
    with open(path, "rb") as f:
        mm = mmap.mmap(f.fileno(), 0, access=mmap.ACCESS_READ)
        for m in _hdr.finditer(mm):
            offs.append((m.start(), m.end()))
        n = len(mm)
        mm.close()
    return [(offs[i][1], offs[i + 1][0] if i + 1 < len(offs) else n) for i in range(len(offs))]


def check_states(states, out, opts):
    import time
    cases = []
    for st in states:
        top, tab = st["top"], st["tab"]
        k = top["k"]
        if k == "none":
            continue
        if k == "enum":
            check_enum(top, tab, out, opts)
            out.count("enums")
            continue
        try:
            lc = LayoutCase(top, tab)
        except MachineryError:
            raise
        except Exception as e:
            out.violation({"clause": "construct", "layout_kind": KIND_NAME[k], "error": _exc(e)},
                          "%s: constructing the layout raised %r" % (describe(top), e), top)
            continue
        out.count("layouts")
        out.count("layouts_" + k)
        if not is_leaf_only(top):
            out.count("layouts_nested")
        t0 = time.process_time()
        try:
            check_consts(lc, out, opts)
        except MachineryError:
            raise
        except Exception as e:
            out.violation(lc.key("const_exception", error=_exc(e)), "%s: constant-level checks raised %r" % (lc.desc, e), top)
        out.count("cpu_const_s", time.process_time() - t0)
        cases.append(lc)
    for i in range(0, len(cases), opts["batch"]):
        t0 = time.process_time()
        sim_batch(cases[i:i + opts["batch"]], out, opts)
        out.count("cpu_sim_s", time.process_time() - t0)


def is_leaf_only(top):
    return all(is_leaf(sub(top, i + 1)) for i in range(nf(top)))


def _work(job):
    import time
    path, ranges, opts = job
    warnings.simplefilter("ignore")
    out = Out()
    states = []
    t0 = time.process_time()
    with open(path, "rb") as f:
        for a, b in ranges:
            f.seek(a)
            states.append(tlaval.parse_conj(f.read(b - a).decode()))
    out.count("cpu_parse_s", time.process_time() - t0)
    check_states(states, out, opts)
    out.count("cpu_total_s", time.process_time() - t0)
    return out.n, list(out.viol.values())


# ---------------------------------------------------------------------------------------------
# histories of uses of one class / layout object (spec/DataLayoutHist.tla)
# ---------------------------------------------------------------------------------------------
def _plain_init(node, init, members=True):
    """DataLayout initialiser of a plain (non-class) field -> Python"""
    if is_leaf(node):
        return make_enum(node)(init) if node["k"] == "enum" and members else init
    items = [(pos, _plain_init(sub(node, pos), v, members)) for pos, v in init]
    if node["k"] == "array":
        if [p_ for p_, _ in items] == list(range(1, node["n"] + 1)):
            return [x for _, x in items]
        return {p_ - 1: x for p_, x in items}
    return {pykey(node, pos): x for pos, x in items}


def _class_init(C, init, none=False):
    """initialiser of a class (nested class fields are built by the nested class) -> Python dict / None"""
    if none:
        return None
    lay = C["lay"]
    d = {}
    for pos, v in init:
        sc = C["sub"][pos - 1]
        d[pykey(lay, pos)] = _class_init(sc, v) if sc["k"] != "none" else _plain_init(sub(lay, pos), v)
    return d


def _build_class(C):
    """a FRESH class / layout object for the class record C"""
    from amaranth.lib import data
    lay = C["lay"]
    if C["k"] == "plain":
        return build_shape(lay)
    base = data.Struct if C["k"] == "cstruct" else data.Union
    ann, ns = {}, {}
    for i, f in enumerate(lay["fields"]):
        sc = C["sub"][i]
        ann[f["name"]] = _build_class(sc) if sc["k"] != "none" else build_shape(f["sh"])
        has, dv = C["d"][i]
        if has:
            ns[f["name"]] = _class_init(sc, dv) if sc["k"] != "none" else _plain_init(f["sh"], dv)
    ns["__annotations__"] = ann
    return type(base)("C15Hist", (base,), ns)


def _paths(node, prefix=()):
    """python keys of Paths(node) in DataLayout's order (pre-order)"""
    out = []
    if is_leaf(node):
        return out
    for pos in range(1, nf(node) + 1):
        k = prefix + (pykey(node, pos),)
        out.append(k)
        out += _paths(sub(node, pos), k)
    return out


def _do_step(S, C, st, paths):
    """performs one step on the class object S; returns (as_bits, values of all fields read back)"""
    from amaranth.hdl import Signal
    from amaranth.sim import Simulator
    from amaranth.hdl import Module
    init = _class_init(C, st["init"], st["none"])
    if st["op"] == "const":
        c = S.const(init)
    elif st["op"] == "from_bits":
        c = S.from_bits(st["bits"])
    elif st["op"] == "signal":
        sig = Signal(S) if st["none"] else Signal(S, init=init)
        c = S.from_bits(sig.as_value().init)
    else:
        box = []
        sim = Simulator(Module())

        async def tb(ctx):
            v = Signal(S)
            ctx.set(v, init)
            box.append(ctx.get(v))
        sim.add_testbench(tb)
        sim.run()
        c = box[0]
    return c.as_bits(), tuple(_num(_walk(c, k)) for k in paths)


def check_history(st, out, opts):
    C, hist = st["cls"], st["hist"]
    desc = "%s %s with defaults %r" % ({"cstruct": "data.Struct", "cunion": "data.Union", "plain": "layout"}[C["k"]],
                                        describe(C["lay"]), _class_init(C, [(i + 1, d[1]) for i, d in enumerate(C["d"]) if d[0]]))
    kind = {"cstruct": "Struct", "cunion": "Union", "plain": "StructLayout"}[C["k"]]
    paths = _paths(C["lay"])
    S = _build_class(C)
    out.count("histories")
    empty = {"op": "const", "init": (), "none": False}
    first = None
    for k, step in enumerate(list(hist) + [None]):
        last = step is None
        try:
            if last:      # the declared defaults at the end of the history: a fresh const({}) as at the beginning
                got = _do_step(S, C, empty, paths)
                if got != first:
                    out.violation({"clause": "construction_depends_on_history", "class_kind": kind, "op": "const_empty_at_end"},
                                  "%s: const({}) before the history %r gave %r, after it %r" % (
                                      desc, [(h["op"], _class_init(C, h["init"], h["none"])) for h in hist], first, got), C["lay"])
                break
            if k == 0:
                first = _do_step(S, C, empty, paths)
            want = (step["bits"], tuple(step["vals"]))
            got = _do_step(S, C, step, paths)
            out.count("history_steps")
            if got != want:
                fresh = _do_step(_build_class(C), C, step, paths)
                clause = "construction_depends_on_history" if fresh == want else "class_construction"
                out.violation({"clause": clause, "class_kind": kind, "op": step["op"]},
                              "%s: step %d of the history %r gives (as_bits, fields) = %r, specification %r; the same step on a "
                              "fresh class gives %r" % (desc, k + 1, [(h["op"], _class_init(C, h["init"], h["none"])) for h in hist],
                                                        got, want, fresh), C["lay"])
        except MachineryError:
            raise
        except Exception as e:
            out.violation({"clause": "class_construction", "class_kind": kind, "op": "end" if last else step["op"], "error": _exc(e)},
                          "%s: step %d of the history %r raised %r" % (
                              desc, k + 1, [(h["op"], _class_init(C, h["init"], h["none"])) for h in hist], e), C["lay"])
            break


def _work_hist(job):
    path, ranges, opts = job
    warnings.simplefilter("ignore")
    out = Out()
    with open(path, "rb") as f:
        for a, b in ranges:
            f.seek(a)
            st = tlaval.parse_conj(f.read(b - a).decode())
            if len(st["hist"]) == opts["max_hist"]:
                check_history(st, out, opts)
    return out.n, list(out.viol.values())


HIST_CFG_EXTRA = """CONSTANTS
 MaxHist = %d
 HistMutant = "%s"
"""


def hist_cfg(p, max_hist, mutant=""):
    base = cfg_text(dict(p, EnumClasses=[], FlagTier="none"), spec="HSpec", invariants=["HistoryFree", "OmittedAreDefaults"])
    return base.replace("CHECK_DEADLOCK", HIST_CFG_EXTRA % (max_hist, mutant) + "CHECK_DEADLOCK").replace(
        "INVARIANT HistoryFree", "INVARIANT HistoryFree", 1)


# =============================================================================================
# stages
# =============================================================================================
ONE_MODULE = """---- MODULE DataLayoutSel ----
(* generated: tabulates DataLayout's operators for explicitly given layouts (replay, random trees) *)
EXTENDS DataLayout
SelTops == <<
%s
>>
SelInit == items = <<>> /\\ top = NoTop /\\ tab = <<>>
SelPick == /\\ top = NoTop /\\ items = <<>>              \\* one state per layout, so that TLC's workers share the tabulation
           /\\ \\E i \\in 1..Len(SelTops) : items' = <<i>> /\\ UNCHANGED <<top, tab>>
SelTab  == /\\ top = NoTop /\\ Len(items) = 1
           /\\ LET t == SelTops[items[1]] IN
                 /\\ IsLeaf(t) \\/ Size(t) <= MaxBits
                 /\\ top' = t
                 /\\ tab' = IF IsLeaf(t) THEN EnumTable(t) ELSE LayoutTable(t)
                 /\\ UNCHANGED items
SelSpec == SelInit /\\ [][SelPick \\/ SelTab]_vars
====
"""


def tlc_selected(ctx, tops_tla, p, stage, dump):
    return ctx.tlc("DataLayoutSel", stage=stage, cfg_text=cfg_text(p, spec="SelSpec"), workers=8,
                   extra_files={"DataLayoutSel.tla": ONE_MODULE % ",\n".join(tops_tla)}, args=("-dump", dump))


def random_tree(rng, depth, budget):
    """TLA+ text of a random layout tree and an estimate of its size (for pruning only; TLC decides)."""
    def shape(d, room):
        if d <= 1 or rng.random() < 0.45:
            nm = rng.choice([x for x in ALL_LEAVES if int(x[-1]) <= max(room, 1)])
            return 'Catalogue["%s"]' % nm, int(nm[-1])
        return tree(d - 1, room)

    def tree(d, room):
        kind = rng.choice(["struct", "struct", "union", "array", "flex"])
        if kind == "array":
            n = rng.randint(0, 3)
            t, w = shape(d, room // max(n, 1))
            return "Array(%s, %d)" % (t, n), w * n
        n = rng.randint(0, 3) if kind != "flex" else rng.randint(1, 3)
        parts, ws = [], []
        for i in range(n):
            t, w = shape(d, room - sum(ws) if kind == "struct" else room)
            parts.append(t)
            ws.append(w)
        if kind == "struct":
            return "Struct(Named(<<%s>>))" % ", ".join(parts), sum(ws)
        if kind == "union":
            return "Union(Named(<<%s>>))" % ", ".join(parts), max(ws, default=0)
        offs = [rng.randint(0, 3) for _ in parts]
        pad = rng.randint(0, 1)
        return "FlexOf(<<%s>>, <<%s>>, %d)" % (", ".join(parts), ", ".join(map(str, offs)), pad), \
            max(o + w for o, w in zip(offs, ws)) + pad
    return tree(depth, budget)


def dispatch(ctx, dump, opts, chunk, acc, fn=None):
    ranges = index_dump(dump)
    jobs = [(dump, ranges[i:i + chunk], opts) for i in range(0, len(ranges), chunk)]
    if fn is not None:
        res = pmap(fn, jobs)
    else:
        res = None
    # big states last in a chunk does not matter; interleave so that every worker gets a mix
    if res is None:
        res = pmap(_work, jobs)
    total = {}
    for n, viol in res:
        for k, v in n.items():
            total[k] = total.get(k, 0) + v
        for cnt, key, desc, rep in viol:
            js = json.dumps(key, sort_keys=True)
            if js in acc:
                acc[js][0] += cnt
            else:
                acc[js] = [cnt, key, desc, rep]
    return total, len(ranges)


def report(ctx, acc):
    """one ctx.violation per distinct key (the framework keeps the first 50 reports)"""
    for js in sorted(acc):
        cnt, key, desc, rep = acc[js]
        ctx.violation(key, desc + ("  [%d occurrence(s) in this run]" % cnt if cnt > 1 else ""), replay=rep)


def run(ctx):
    th = ctx.thorough
    p = params(th)
    # rtlil: True = every batched design is converted; n = every n-th (chosen by a hash of the first layout)
    opts = {"rtlil": True if th else 2, "asg_rounds": 32 if th else 24, "set_rounds": 4, "batch": 24, "seed": ctx.seed % 1000}
    totals = {}
    acc = {}

    def add(t):
        for k, v in t.items():
            totals[k] = totals.get(k, 0) + v

    # ---------------- mc: theorems over the family; mutants; random trees -------------------------
    from concurrent.futures import ThreadPoolExecutor
    small = dict(p, MaxFields=2, NestedMaxFields=0, MaxNested=0, MaxBits=6, InnerLeaves=["u1"], Leaves=["u1", "s2", "f3"],
                 FlagTier="small")
    families = [("A", p)] + ([("B", params_b(th))] if th else [])
    n_rand = 1000 if th else 100
    tops, seen = [], set()
    guard = 0
    while len(tops) < n_rand and guard < 100 * n_rand:
        guard += 1
        t, est = random_tree(ctx.rng, ctx.rng.choice([3, 3, 4]), p["MaxBits"])
        if est <= p["MaxBits"] and t not in seen and t.count("(") >= 3:
            seen.add(t)
            tops.append(t)

    def mutant(job):
        name, inv = job
        return ctx.tlc("DataLayout", stage="mc/mutant-" + name, cfg_text=cfg_text(dict(small, Mutant=name), invariants=[inv]),
                       workers=1, expect_violation=inv, count=False)

    def family(job):
        fam, pp = job
        dump = os.path.join(ctx.tmp, "dl_%s" % fam)
        r = ctx.tlc("DataLayout", stage="mc/family-" + fam, cfg_text=cfg_text(pp), workers=16,
                    args=("-coverage", "1", "-dump", dump), timeout=3000)
        ctx.require_actions(r, ACTIONS + (["EnumCase"] if pp["EnumClasses"] else []) +
                            (["FlagCase"] if pp["FlagTier"] != "none" else []), "mc/family-" + fam)
        return dump + ".dump"

    max_hist = 3 if th else 2

    def history(mut):
        dump = os.path.join(ctx.tmp, "dl_hist" + mut)
        r = ctx.tlc("DataLayoutHist", stage="hist/" + (mut or "histories"), cfg_text=hist_cfg(p, max_hist if not mut else 2, mut),
                    workers=4 if th else 2, args=("-coverage", "1", "-dump", dump) if not mut else (),
                    expect_violation="HistoryFree" if mut else None, count=not mut)
        if not mut:
            ctx.require_actions(r, ["HStep"], "hist")
        return dump + ".dump"

    def rand(_):
        dump = os.path.join(ctx.tmp, "dl_rand")
        tlc_selected(ctx, tops, p, "random/tabulate", dump)
        return dump + ".dump"

    with ThreadPoolExecutor(8) as ex:
        fm = [ex.submit(mutant, j) for j in (("array_stride", "Placement"), ("union_size_sum", "Placement"),
                                             ("flag_not_unmasked", "FlagLaws"), ("const_mask_from_init", "TypedInit"))]
        ff = [ex.submit(family, j) for j in families]
        fr = ex.submit(rand, None)
        fh = [ex.submit(history, ""), ex.submit(history, "defaults_leak")]
        for f in fm:
            f.result()
        rand_dump = fr.result()
        for (fam, pp), f in zip(families, ff):
            dump = f.result()
            t, n = dispatch(ctx, dump, opts, 32 if th else 24, acc)
            add(t)
            ctx.cov["stages"]["mc/family-" + fam]["replayed"] = t
            os.unlink(dump)
        hist_dump = fh[0].result()
        fh[1].result()
    t, n = dispatch(ctx, hist_dump, dict(opts, max_hist=max_hist), 200, acc, fn=_work_hist)
    add(t)
    ctx.cov["stages"]["hist/histories"]["replayed"] = t
    os.unlink(hist_dump)
    t, n = dispatch(ctx, rand_dump, opts, 16 if th else 8, acc)
    add(t)
    ctx.cov["stages"]["random/tabulate"]["replayed"] = t
    ctx.cov["stages"]["random/tabulate"]["generated_trees"] = len(tops)
    dump = rand_dump[:-5]

    report(ctx, acc)

    # ---------------- binding demonstration: a corrupted table must be reported -------------------
    warnings.simplefilter("ignore")
    clauses, tried = [], 0
    for a, b in index_dump(dump + ".dump"):
        with open(dump + ".dump", "rb") as f:
            f.seek(a)
            cand = tlaval.parse_conj(f.read(b - a).decode())
        if not (cand["top"]["k"] == "struct" and cand["tab"]["size"] >= 3 and len(cand["tab"]["paths"]) >= 2
                and not any(d["name"] == "se2" for d in cand["tab"]["paths"])):
            continue
        # (which of the generated layouts comes first depends on the seed: take the first one on which each of the
        # three corruptions is reported under its own clause - e.g. not one whose corrupted value is no enum member)
        st = cand
        tried += 1
        demo = Out()
        tab = dict(st["tab"])
        vals = [list(r_) for r_ in tab["vals"]]
        vals[5][0] += 1                                   # a wrong FieldOf entry
        tab["vals"] = vals
        tab["paths"] = [dict(d) for d in tab["paths"]]
        tab["paths"][1]["off"] += 1                       # a wrong offset
        asg = [[list(r_) for r_ in a_] for a_ in tab["asg"]]
        asg[0][0][0] ^= 1                                 # a wrong AssignField entry
        tab["asg"] = asg
        check_states([{"top": st["top"], "tab": tab}], demo, dict(opts, rtlil=False))
        clauses = sorted({v[1]["clause"] for v in demo.viol.values()})
        if {"field_value", "placement", "assign_field"} <= set(clauses) or tried >= 25:
            break
    if tried == 0:
        raise MachineryError("binding demo: no suitable state in the random dump")
    if not {"field_value", "placement", "assign_field"} <= set(clauses):
        raise MachineryError("binding demo: corrupted tables were not reported (got %r)" % (clauses,))
    ctx.cov["stages"]["binding-demo"] = {"corrupted_tables_reported": clauses}

    # ---------------- accounting / vacuity guards --------------------------------------------------
    need = ["layouts", "layouts_struct", "layouts_union", "layouts_array", "layouts_flex", "layouts_nested", "placement",
            "pairs", "class_pairs", "const_reads", "const_inits", "sim_pairs", "sim_reads", "sim_dyn_reads", "sim_assign",
            "sim_set", "rtlil_designs", "enums", "enum_round_trips", "flag_ops", "typed_const_inits", "class_defaults",
            "sim_inits", "flag_classes", "flag_classes_invert_unspecified", "histories", "history_steps"]
    for k in need:
        if totals.get(k, 0) == 0:
            raise MachineryError("vacuous run: nothing counted for %r (%r)" % (k, totals))
    if totals["sim_pairs"] < totals["pairs"] * 0.5:
        raise MachineryError("vacuous run: only %d of %d (layout, pattern) pairs reached the simulator" % (
            totals["sim_pairs"], totals["pairs"]))
    ctx.cov["replayed"] = totals
    ev = totals["pairs"] + totals["sim_pairs"] + totals["sim_assign"] + totals["sim_set"] + totals["flag_ops"] + \
        totals["enum_round_trips"]
    ctx.add_cases(ev, totals["pairs"] + totals["sim_assign"] + totals["sim_set"] + totals["flag_ops"])
    ctx.sample({"layout": tops[0], "note": "random tree (TLA+ text given to DataLayoutSel)"})
    ctx.sample({"layout": describe(st["top"]), "size": st["tab"]["size"], "paths": [d["keys"] for d in st["tab"]["paths"]],
                "vals_of_raw_5": st["tab"]["vals"][5], "packed_of_raw_5": st["tab"]["packed"][5]})
    ctx.cov["exhaustive"] = True
    ctx.cov["rule"] = ("cases = (layout, bit pattern) pairs compared at constant level and again in pysim, plus assignment "
                       "cases (layout, field, pattern, value) in comb/sync/ctx.set and flag operator cases; all layouts of "
                       "the enumerated family (depth <= 2, <= 3 fields, size <= %d bits) with all bit patterns; assignment "
                       "cases are a structured subset (%d rounds per layout)" % (p["MaxBits"], opts["asg_rounds"]))
    ctx.assume("initialisers are in range of their fields; enumeration fields are initialised/assigned with valid values only")
    ctx.assume("bit patterns that are no value of an enumeration field: only the numeric value of the view field is compared "
               "(Const.__getitem__ must raise); operands of flag operators are the values Python's class admits "
               "(combinations of bits used by members; any pattern for boundary=KEEP)")
    ctx.assume("`~` of a FlagView is UNSPECIFIED for boundary=KEEP/EJECT classes whose shape is wider than the members need "
               "(Python complements up to the highest member bit, a view complements the bits of its shape; "
               "docs/stdlib/enum.rst does not mention boundary=): DataLayout!InvertSpecified; %d of %d flag classes; every "
               "other operator is compared on them, and the specification's ~ is still cross-checked against Python's "
               "enum.Flag for every class" % (totals.get("flag_classes_invert_unspecified", 0), totals.get("flag_classes", 0)))
    ctx.assume("a | b, a & b, a ^ b of flag views are compared where Python defines the result (the bitwise result is a value "
               "of the class; a STRICT class with multi-bit members of their own bits refuses some combinations)")
    ctx.assume("histories: %d-step histories of const / Signal / ctx.set / from_bits on ONE fresh data.Struct / data.Union class or "
               "StructLayout object per history (10 classes incl. declared defaults, a nested Struct class with its own default, an "
               "array field); state leaking between class objects of different histories is not covered" % max_hist)
    ctx.assume("dynamic indexing of array views: index < length, element width > 0, index signal at least one bit wide")
    ctx.assume("synthesis: the batched designs are converted with back.rtlil.convert (must elaborate); RTLIL semantics are "
               "judged by C04")


def replay(ctx, rep):
    top = rep["replay"]["top"]
    p = params(True)
    dump = os.path.join(ctx.tmp, "dl_replay")
    tlc_selected(ctx, [tlaval.to_tla(top)], p, "replay/tabulate", dump)
    out = Out()
    warnings.simplefilter("ignore")
    states = list(tlaval.parse_dump(dump + ".dump"))
    if not states:
        raise MachineryError("replay: TLC produced no state for the layout")
    check_states(states, out, {"rtlil": True, "asg_rounds": 64, "set_rounds": 8, "batch": 1, "seed": ctx.seed % 1000})
    rc = 0
    for cnt, key, desc, _ in out.viol.values():
        print("replay: %s  x%d\n   %s" % (json.dumps(key, sort_keys=True), cnt, desc[:600]))
        if ctx.violation(key, desc) == "violation":
            rc = 1
    print("replay verdict: %s" % ("VIOLATION property=C15 replay=(same)" if rc else "no (unknown) violation reproduced"))
    import shutil
    shutil.rmtree(ctx.tmp, ignore_errors=True)
    return rc
