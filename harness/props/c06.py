"""C06 — multiply-driven bits and combinational loops are rejected; legal designs are not.

spec:   Drivers.tla.  A configuration = hierarchy shape + signal widths + a sequence of driver records (module, domain or
        primitive-output kind, driven bit range, right-hand-side construct, enclosing If condition).  Oracles:
        Conflict (a bit with two distinct driver identities), DepGraph over (signal, bit) nodes, Cycle (a bit in its own
        Reach+), exp = the set of outcome classes the tool may answer with.  TLC's reachable states ARE the configurations
        (builder machine adding vocabulary records in increasing order); theorems are checked as invariants on all of them.
stages: explicit  the hand-written configurations named by the property (Explicit in the spec)
        place     all placements of <= MaxDrv drivers over every hierarchy shape / domain / primitive output / bit range
        dep       one construct under test (slice, ~, & | ^, Cat, Mux select/data, +, ==, <, If bit / If word) combined
                  with plain bit-to-bit records closing (or not closing) a loop, combinational or registered
        chain     longer paths: up to MaxDrv plain bit-to-bit records over two signals
        branch    statements in the branches of one If/Elif/Else or Switch/Case chain (first match wins: branch i depends on
                  the tests of branches 1..i) together with plain records closing a loop
        mix       several independent clusters in one netlist: one multi-bit bit-precise (~ & | ^ Mux over Cat) or word-level
                  cell on signal 1 whose bits feed other bits of the same signal (down, up, back into a non-first bit),
                  plain closers, and an UNRELATED statement on signal 2 (+ == < << reductions bit_select ~ & Mux, an
                  If/Elif/Else chain, a primitive output) in the same or another module; every order-free configuration
                  is built in EVERY statement order (TLC checks PermutationInvariance of the verdict)
        cattarget two drivers of one 4-bit signal (every domain / module / range pair); every target is ALSO written as
                  Cat(p1, p2, s)[5+lo:5+hi] (a slice reaching into the third part of a concatenation), with and without
                  a ResetInserter around the fragment of the first statement, DSL + convert and Fragment + build_netlist
        mutants   conflict judged per signal / cycle judged per signal / a branch depending on its own test only must
                  violate a theorem
bind:   every state is built with the real amaranth twice: through the Module DSL (`m.d.<dom> +=`, `with m.If`,
        `m.submodules`, Instance / MemoryInstance / IOBufferInstance; rtlil.convert) and through the Fragment API
        (`add_statements`, `add_subfragment`; build_netlist) where the DSL's early per-module check cannot pre-empt the
        whole-design check (Fragment API + rtlil.convert in the permutation stages); configurations whose memory / buffer output covers a whole signal are built a third time with
        lib.memory.Memory / lib.io.Buffer (the signal is the port's data / i member).  The observed class
        (ok | driver_conflict | comb_cycle | other:<exception>) must be an element of the set TLC computed."""
import os
import traceback
import warnings
from concurrent.futures import ThreadPoolExecutor

from ..common import pmap, MachineryError
from .. import expr_replay, tlaval

LEVEL = "model_checking"

CFG = """SPECIFICATION Spec
CONSTANTS
 Shapes = {shapes}
 SigWs <- {sigws}
 Vocab <- {vocab}
 MaxDrv = {maxdrv}
 MaxRich = {maxrich}
 Keep <- {keep}
 UseExplicit = {explicit}
 Mutant = "{mutant}"
INVARIANT OutcomeShape
INVARIANT DisjointNeverConflict
INVARIANT ZeroWidthIrrelevant
INVARIANT ModuleSymmetry
INVARIANT CycleIffNotPeelable
INVARIANT ForwardOnlyNoCycle
INVARIANT Monotone
INVARIANT OrderIrrelevant
INVARIANT ChainPriority
INVARIANT PermutationInvariance
CHECK_DEADLOCK FALSE
"""

COVERAGE_STAGE = "cov"
ALL_SHAPES = '{"top", "child", "sib", "chain"}'
DOMAINS = ("comb", "d1", "d2")


def inst(shapes, sigws, vocab, maxdrv, maxrich=0, explicit="FALSE", mutant="", keep="KeepAll"):
    return dict(shapes=shapes, sigws=sigws, vocab=vocab, maxdrv=maxdrv, maxrich=maxrich, explicit=explicit, mutant=mutant,
                keep=keep)


CAT_STAGES = ("cattarget",)                    # stages whose targets are also written as slices of a 3-part Cat
PERM_STAGES = ("mix", "explicit", "cov")       # stages whose order-free configurations are built in every statement order


def stages(th):
    s = [("explicit", inst("{}", "NoWs", "VocabPlaceFew", 0, explicit="TRUE")),
         ("cov", inst('{"top"}', "W3", "VocabChain", 1))]           # tiny run with -coverage 1 (vacuity guard on Next)
    if th:
        s += [("place2", inst(ALL_SHAPES, "W3", "VocabPlaceAll", 2)),
              ("place3", inst(ALL_SHAPES, "W3", "VocabPlaceFew", 3)),
              ("place2x2", inst('{"child", "sib"}', "W22", "VocabPlaceFew", 2)),
              ("dep", inst('{"chain"}', "W3W22", "VocabDepT", 2, maxrich=1)),
              ("dep2", inst('{"child"}', "W3", "VocabDepQ", 2, maxrich=2)),
              ("chain", inst('{"child"}', "W22", "VocabChain", 4)),
              ("branch", inst('{"child"}', "W3W22", "VocabBranchT", 2, maxrich=2)),
              ("branch3", inst('{"top"}', "W3", "VocabBranchQ", 3, maxrich=3)),
              ("mix", inst('{"top", "child"}', "W32", "VocabMixT", 3, maxrich=3, keep="KeepMix")),
              ("cattarget", inst('{"top", "child", "sib"}', "W4", "VocabCatTarget", 2))]
    else:
        s += [("place2", inst(ALL_SHAPES, "W3", "VocabPlaceQ", 2)),
              ("dep", inst('{"chain"}', "W3", "VocabDepQ", 2, maxrich=1)),
              ("chain", inst('{"child"}', "W22", "VocabChain", 3)),
              ("branch", inst('{"child"}', "W3", "VocabBranchQ", 2, maxrich=2)),
              ("mix", inst('{"child"}', "W32", "VocabMixQ", 3, maxrich=3, keep="KeepMix")),
              ("cattarget", inst('{"top", "child"}', "W4", "VocabCatTarget", 2))]
    return s


# ------------------------------------------------------------------------------------------------------------
# binding: one configuration -> real amaranth designs
# ------------------------------------------------------------------------------------------------------------
class _Early(Exception):
    """The Module DSL refused a statement at construction time."""


def _classify(e):
    from amaranth.hdl import DriverConflict, CombinationalCycle
    if isinstance(e, _Early):
        return "driver_conflict", "dsl"
    if isinstance(e, DriverConflict):
        return "driver_conflict", "netlist"
    if isinstance(e, CombinationalCycle):
        return "comb_cycle", "netlist"
    tb = traceback.extract_tb(e.__traceback__)
    where = tb[-1].name if tb else "?"
    return "other:%s@%s" % (type(e).__name__, where), "%s" % (str(e)[:200],)


def _operand(sigs, a, n):
    s, o = a
    return sigs[s][o:o + n]


def _rhs(sigs, r):
    from amaranth.hdl import Cat, Mux, Const
    n = r["hi"] - r["lo"]
    f = r["f"]
    if f == "const":
        return Const(1, 1)
    A = _operand(sigs, r["a"], n) if r["a"] else None
    B = _operand(sigs, r["b"], n) if r["b"] else None
    X = sigs[0][0:n]
    if f == "slice":
        return A
    if f == "not":
        return ~A
    if f == "and":
        return A & B
    if f == "or":
        return A | B
    if f == "xor":
        return A ^ B
    if f == "cat":
        return Cat(_operand(sigs, r["a"], 1), _operand(sigs, r["b"], n - 1))
    if f in ("notcat", "andcat", "orcat", "xorcat", "muxcat"):
        C = Cat(_operand(sigs, r["a"], 1), _operand(sigs, r["b"], n - 1))
        return {"notcat": lambda: ~C, "andcat": lambda: C & X, "orcat": lambda: C | X, "xorcat": lambda: C ^ X,
                "muxcat": lambda: Mux(sigs[0][2], C, X)}[f]()
    if f == "shl":
        return A << _operand(sigs, r["b"], 1)
    if f == "any":
        return A.any()
    if f == "xorr":
        return A.xor()
    if f == "bsel":
        return A.bit_select(_operand(sigs, r["b"], 1), 1)
    if f == "mux":
        return Mux(_operand(sigs, r["a"], 1), B, X)
    if f == "muxe":
        return Mux(_operand(sigs, r["a"], 1), X, B)
    if f == "add":
        return A + B
    if f == "eq":
        return A == B
    if f == "lt":
        return A < B
    raise ValueError(f)


def _cond(sigs, c):
    if not c:
        return None
    if len(c) == 2:
        return sigs[c[0]][c[1]]
    return sigs[c[0]]


PAT = {0: "0", 1: "1", 2: "-"}


def _emit_chain(m, dsl, sigs, drv, members):
    """Write the If/Elif/Else or Switch/Case chain shared by the branch records `members` (indices into drv, in
    program order) into module m (Module DSL) or fragment m (one Switch statement per domain, as the DSL lowers it)."""
    from amaranth.hdl import Cat
    from amaranth.hdl import SyntaxError as AmSyntaxError
    from amaranth.hdl._ast import Switch
    _, kind, s, tests = drv[members[0]]["c"]
    nb = len(tests)
    body = {i: [] for i in range(1, nb + 1)}            # branch -> [(domain, statement)]
    for j in members:
        r = drv[j]
        body[r["c"][0]].append((r["k"], sigs[r["s"]][r["lo"]:r["hi"]].eq(_rhs(sigs, r))))
    if dsl:
        def fill(i):
            try:
                for k, stmt in body[i]:
                    m.d[k] += stmt
            except AmSyntaxError as e:
                if "Driver-driver conflict" in str(e):
                    raise _Early(str(e))
                raise
        if kind == 1:
            for i, tst in enumerate(tests, 1):
                if i == 1:
                    with m.If(_cond(sigs, tst)):
                        fill(i)
                elif tst:
                    with m.Elif(_cond(sigs, tst)):
                        fill(i)
                else:
                    with m.Else():
                        fill(i)
        else:
            with m.Switch(sigs[s]):
                for i, pat in enumerate(tests, 1):
                    if all(p == 2 for p in pat):
                        with m.Default():
                            fill(i)
                    else:
                        with m.Case("".join(PAT[p] for p in reversed(pat))):
                            fill(i)
        return
    # Fragment API: the lowering the DSL performs, written by hand
    if kind == 1:
        conds = [_cond(sigs, tst) for tst in tests if tst]
        value = Cat(c if len(c) == 1 else c.bool() for c in conds)
        pats = []
        for i, tst in enumerate(tests):
            pats.append(("-" * (len(conds) - 1 - i) + "1" + "-" * i) if tst else None)
    else:
        value = sigs[s]
        pats = [None if all(p == 2 for p in pat) else "".join(PAT[p] for p in reversed(pat)) for pat in tests]
    for k in DOMAINS:
        if any(kk == k for i in body for kk, _ in body[i]):
            m.add_statements(k, [Switch(value, [(pats[i - 1], [st for kk, st in body[i] if kk == k], None)
                                                for i in range(1, nb + 1)])])


def _signals(cfg):
    from amaranth.hdl import Signal
    sigs = [Signal(3, name="x")]
    for i, w in enumerate(cfg["ws"]):
        sigs.append(Signal(w, name="s%d" % (i + 1)))
    return sigs


def build(cfg, route, order=None, cat=False, ri=False):
    """Build the configuration with real amaranth and convert it. Returns (class, layer/detail)."""
    from amaranth.hdl import Module, Fragment, ClockDomain, Instance, IOPort, IOBufferInstance, Cat, Const, Signal
    from amaranth.hdl import SyntaxError as AmSyntaxError
    from amaranth.hdl._ast import Switch
    from amaranth.hdl._mem import MemoryInstance, MemoryData
    from amaranth.hdl._ir import build_netlist
    from amaranth.back import rtlil
    from amaranth.lib import memory, io
    from amaranth.hdl import ResetInserter

    parents = cfg["parents"]
    drv = cfg["drv"]
    order = list(range(len(drv))) if order is None else order
    sigs = _signals(cfg)
    d1, d2 = ClockDomain("d1"), ClockDomain("d2")
    extra_ports = []
    dsl = route in ("dsl", "lib")          # "frag": Fragment API + build_netlist; "fragc": Fragment API + rtlil.convert
    try:
        if dsl:
            mods = [Module() for _ in parents]
            mods[0].domains.d1 = d1
            mods[0].domains.d2 = d2
        else:
            mods = [Fragment() for _ in parents]
            mods[0].add_domains(d1, d2)

        def add_sub(m, sub, name):
            if dsl:
                m.submodules[name] = sub
            else:
                m.add_subfragment(Fragment.get(sub, None), name)

        # library primitives own their output signal: substitute it for the configuration's signal first
        done = set()
        if route == "lib":
            for idx in order:
                r = drv[idx]
                if r["k"] in ("memory_read_data", "iobuffer_i") and r["lo"] == 0 and r["hi"] == cfg["ws"][r["s"] - 1] \
                        and r["hi"] > 0 and not any(drv[j]["s"] == r["s"] for j in done):
                    m = mods[r["m"] - 1]
                    if r["k"] == "memory_read_data":
                        mem = memory.Memory(shape=r["hi"], depth=2, init=[])
                        rp = mem.read_port(domain="comb")
                        m.submodules["libmem%d" % idx] = mem
                        m.d.comb += rp.addr.eq(sigs[0][0])
                        sigs[r["s"]] = rp.data
                    else:
                        port = IOPort(r["hi"], name="lp%d" % idx)
                        buf = io.Buffer("i", io.SingleEndedPort(port))
                        m.submodules["libbuf%d" % idx] = buf
                        extra_ports.append(port)
                        sigs[r["s"]] = buf.i
                    done.add(idx)
        chain_emitted = False
        for idx in order:
            if idx in done:
                continue
            r = drv[idx]
            m = mods[r["m"] - 1]
            if len(r["c"]) == 4:
                # all branch records of the configuration form one chain, written where its first statement stands
                if not chain_emitted:
                    chain_emitted = True
                    _emit_chain(m, dsl, sigs, drv, [j for j in order if j not in done and len(drv[j]["c"]) == 4])
                continue
            lhs = sigs[r["s"]][r["lo"]:r["hi"]]
            n = r["hi"] - r["lo"]
            k = r["k"]
            if k in DOMAINS and (cat is True or (cat == "last" and idx == order[-1])):
                # the same bits, written as a slice of a concatenation reaching into its third part
                lhs = Cat(Signal(2, name="pa%d" % idx), Signal(3, name="pb%d" % idx), sigs[r["s"]])[5 + r["lo"]:5 + r["hi"]]
            if k in DOMAINS:
                stmt = lhs.eq(_rhs(sigs, r))
                cond = _cond(sigs, r["c"])
                if dsl:
                    try:
                        if cond is None:
                            m.d[k] += stmt
                        else:
                            with m.If(cond):
                                m.d[k] += stmt
                    except AmSyntaxError as e:
                        if "Driver-driver conflict" in str(e):
                            raise _Early(str(e))
                        raise
                else:
                    if cond is not None:
                        test = cond if len(cond) == 1 else cond.bool()
                        stmt = Switch(Cat(test), [("1", [stmt], None)])
                    m.add_statements(k, [stmt])
            elif k == "instance_output":
                add_sub(m, Instance("prim", o_x=lhs), "inst%d" % idx)
            elif k == "memory_read_data":
                mi = MemoryInstance(data=MemoryData(shape=n, depth=2, init=[]))
                mi.read_port(domain="comb" if idx % 2 == 0 else "d1", addr=sigs[0][0], data=lhs,
                             en=Const(1) if idx % 2 == 0 else sigs[0][1], transparent_for=())
                add_sub(m, mi, "mem%d" % idx)
            elif k == "iobuffer_i":
                if n == 0:
                    # a zero-width I/O port is a separate matter (RTLIL emission): keep the primitive non-empty
                    port = IOPort(1, name="p%d" % idx)
                    add_sub(m, IOBufferInstance(port, i=Cat(lhs, Signal(1, name="spare%d" % idx))), "buf%d" % idx)
                else:
                    port = IOPort(n, name="p%d" % idx)
                    add_sub(m, IOBufferInstance(port, i=lhs), "buf%d" % idx)
                extra_ports.append(port)
            else:
                raise ValueError(k)
        # the hierarchy is linked last, children first, so that a fragment can be wrapped (ResetInserter around the
        # fragment of the first statement: it adds assignments of the same driver, the identities do not change)
        wrap = drv[order[0]]["m"] - 1 if (ri and order) else None
        final = list(mods)
        for i in range(len(parents) - 1, -1, -1):
            if i == wrap:
                final[i] = ResetInserter({"d1": sigs[0][1], "d2": sigs[0][2]})(mods[i])
            if parents[i]:
                if dsl:
                    mods[parents[i] - 1].submodules["m%d" % (i + 1)] = final[i]
                else:
                    mods[parents[i] - 1].add_subfragment(final[i], "m%d" % (i + 1))
        top = final[0]
        # DSL route: every signal is a port of the design; Fragment route: the signals are internal
        ports = [sigs[0]] + (sigs[1:] if dsl else []) + [d1.clk, d1.rst, d2.clk, d2.rst] + extra_ports
        if dsl:
            text = rtlil.convert(top, ports=ports)
            if "module" not in text:
                raise MachineryError("rtlil.convert returned no module")
        elif route == "fragc":
            if "module" not in rtlil.convert(top, ports=ports):
                raise MachineryError("rtlil.convert returned no module")
        else:
            build_netlist(top, ports=ports)
        return "ok", "-"
    except MachineryError:
        raise
    except Exception as e:      # noqa: BLE001  (every exception class is an observation here)
        return _classify(e)


def render(cfg):
    """One line of amaranth-like text for a configuration (violation messages, samples)."""
    names = ["x"] + ["s%d" % (i + 1) for i in range(len(cfg["ws"]))]

    def op(a, n):
        return "%s[%d:%d]" % (names[a[0]], a[1], a[1] + n)
    out = []
    for r in cfg["drv"]:
        n = r["hi"] - r["lo"]
        lhs = "%s[%d:%d]" % (names[r["s"]], r["lo"], r["hi"])
        if r["k"] not in DOMAINS:
            out.append("m%d: %s(o=%s)" % (r["m"], r["k"], lhs))
            continue
        f = r["f"]
        if f == "const":
            e = "1"
        elif f == "slice":
            e = op(r["a"], n)
        elif f == "not":
            e = "~" + op(r["a"], n)
        elif f in ("and", "or", "xor", "add", "eq", "lt"):
            e = "%s %s %s" % (op(r["a"], n), {"and": "&", "or": "|", "xor": "^", "add": "+", "eq": "==", "lt": "<"}[f], op(r["b"], n))
        elif f == "cat":
            e = "Cat(%s, %s)" % (op(r["a"], 1), op(r["b"], n - 1))
        elif f in ("notcat", "andcat", "orcat", "xorcat", "muxcat"):
            cc = "Cat(%s, %s)" % (op(r["a"], 1), op(r["b"], n - 1))
            e = {"notcat": "~%s", "andcat": "%s & x[0:{n}]", "orcat": "%s | x[0:{n}]", "xorcat": "%s ^ x[0:{n}]",
                 "muxcat": "Mux(x[2], %s, x[0:{n}])"}[f].replace("{n}", str(n)) % cc
        elif f == "shl":
            e = "%s << %s" % (op(r["a"], n), op(r["b"], 1))
        elif f in ("any", "xorr"):
            e = "%s.%s()" % (op(r["a"], n), {"any": "any", "xorr": "xor"}[f])
        elif f == "bsel":
            e = "%s.bit_select(%s, 1)" % (op(r["a"], n), op(r["b"], 1))
        elif f == "mux":
            e = "Mux(%s, %s, x[0:%d])" % (op(r["a"], 1), op(r["b"], n), n)
        else:
            e = "Mux(%s, x[0:%d], %s)" % (op(r["a"], 1), n, op(r["b"], n))
        c = r["c"]

        def tst(q):
            return "%s[%d]" % (names[q[0]], q[1]) if len(q) == 2 else names[q[0]]
        if len(c) == 4 and c[1] == 1:
            pre = "[" + " / ".join(("If" if j == 0 else "Elif") + "(%s)" % tst(q) if q else "Else" for j, q in enumerate(c[3])) \
                + "].branch%d: " % c[0]
        elif len(c) == 4:
            pre = "[Switch(%s) " % names[c[2]] + " / ".join("Case('%s')" % "".join(PAT[v] for v in reversed(q)) for q in c[3]) \
                + "].branch%d: " % c[0]
        else:
            pre = "" if not c else "If(%s): " % tst(c)
        out.append("m%d.d.%s += %s%s.eq(%s)" % (r["m"], r["k"], pre, lhs, e))
    return "%s ws=%s { %s }" % (cfg["shape"], list(cfg["ws"]), "; ".join(out))


def _has_lib(cfg):
    return any(r["k"] in ("memory_read_data", "iobuffer_i") and r["lo"] == 0 and 0 < r["hi"] == cfg["ws"][r["s"] - 1]
               for r in cfg["drv"])


def _orders(n):
    import itertools
    return [list(p) for p in itertools.permutations(range(n))]


def check_config(cfg, perms=False, cat=False):
    """All routes for one configuration: list of (route, statement order, allowed set, class, layer).
    Program order matters to the oracle (dead assignments), so the DSL route uses the order of the record sequence
    (allowed set `exp`) and the Fragment route the reversed order (allowed set `expr`, computed by TLC on Reverse(drv))."""
    n = len(cfg["drv"])
    fwd = list(range(n))
    rev = fwd[::-1]
    obs = [("dsl", fwd, cfg["exp"]) + build(cfg, "dsl", fwd), ("frag", rev, cfg["expr"]) + build(cfg, "frag", rev)]
    if _has_lib(cfg):
        obs.append(("lib", fwd, cfg["exp"]) + build(cfg, "lib", fwd))
    if cat:
        for ri in (False, True):
            sfx = "cat+ri" if ri else "cat"
            obs.append(("dsl" + sfx, fwd, cfg["exp"]) + build(cfg, "dsl", fwd, cat=True, ri=ri))
            obs.append(("frag" + sfx, rev, cfg["expr"]) + build(cfg, "frag", rev, cat=True, ri=ri))
        obs.append(("dsl+ri", fwd, cfg["exp"]) + build(cfg, "dsl", fwd, ri=True))
        obs.append(("dslcatlast", fwd, cfg["exp"]) + build(cfg, "dsl", fwd, cat="last"))      # only the last target via Cat
    if perms and cfg.get("ofree") and n >= 2:
        # no driver assigns a bit twice: TLC has checked (PermutationInvariance) that `exp` is the allowed set for every
        # statement order, so every order is built: all of them through the DSL + rtlil.convert, every other one through
        # the Fragment API + build_netlist / rtlil.convert alternately
        for j, o in enumerate(_orders(n)[:24]):
            if o != fwd:
                obs.append(("dsl", o, cfg["exp"]) + build(cfg, "dsl", o))
            if j % 2 == 1 and o != rev:
                r2 = "fragc" if j % 4 == 1 else "frag"
                obs.append((r2, o, cfg["exp"]) + build(cfg, r2, o))
        obs.append(("fragc", fwd, cfg["exp"]) + build(cfg, "fragc", fwd))
    return obs


def _state_to_cfg(st, parents):
    drv = tuple(dict(r) if not isinstance(r, dict) else r for r in st["drv"])
    return {"shape": str(st["shape"]), "ws": tuple(st["ws"]), "drv": drv, "parents": tuple(parents[str(st["shape"])]),
            "exp": sorted(str(x) for x in st["exp"]), "expr": sorted(str(x) for x in st["expr"]), "ofree": bool(st["ofree"])}


def _worker(job):
    path, lo, hi, parents, perms, cat = job
    out = {"n": 0, "mism": [], "fps": [], "classes": {}, "layers": {}, "exp": {}, "sample": {}, "routes": 0}
    with warnings.catch_warnings():
        warnings.simplefilter("ignore")
        for st in expr_replay.iter_states_range(path, lo, hi):
            cfg = _state_to_cfg(st, parents)
            out["n"] += 1
            text = render(cfg)
            out["fps"].append(hash(text))
            ek = "|".join(cfg["exp"])
            out["exp"][ek] = out["exp"].get(ek, 0) + 1
            for route, order, allowed, cls, layer in check_config(cfg, perms, cat):
                out["routes"] += 1
                out["classes"][cls] = out["classes"].get(cls, 0) + 1
                if cls == "driver_conflict" and route in ("dsl", "frag", "lib"):
                    lk = route + ":" + layer
                    out["layers"][lk] = out["layers"].get(lk, 0) + 1
                if cls not in allowed:
                    if len(out["mism"]) < 60:
                        out["mism"].append({"config": cfg, "text": text, "route": route, "order": order,
                                            "actual": cls, "detail": layer, "expected": allowed})
                    else:
                        out["mism"].append({"text": text, "route": route, "actual": cls, "expected": allowed, "short": True})
            if ek not in out["sample"] and len(cfg["drv"]) >= 2:
                out["sample"][ek] = {"config": text, "expected": cfg["exp"]}
    return out


def _parents_from(r):
    for v in r.printed():
        try:
            val = tlaval.parse(v)
        except tlaval.ParseError:
            continue
        if isinstance(val, tuple) and len(val) == 2 and val[0] == "parents":
            return {str(k): tuple(p) for k, p in val[1].items()}
    raise MachineryError("the specification did not print its hierarchy table")


def report(ctx, stage, mm):
    key = {"actual": mm["actual"], "expected": mm["expected"], "route": mm["route"], "config": mm["text"]}
    what = ("unexpected exception" if mm["actual"].startswith("other:") else
            "false rejection" if mm["expected"] == ["ok"] else
            "missed rejection" if mm["actual"] == "ok" else "wrong error class")
    ctx.violation(key, "%s [%s route, stage %s]: %s\n  amaranth answered %s%s; Drivers.tla allows %s" % (
        what, mm["route"], stage, mm["text"], mm["actual"],
        (" (%s)" % mm.get("detail")) if mm.get("detail") not in (None, "-") else "", mm["expected"]),
        replay=None if mm.get("short") else {"stage": stage, "mismatch": mm})


def run_tlc(ctx, name, ins):
    dump = os.path.join(ctx.tmp, "drv_" + name)
    args = ("-dump", dump) + (("-coverage", "1") if name == COVERAGE_STAGE else ())
    return ctx.tlc("Drivers", stage="mc/" + name, cfg_text=CFG.format(**ins), workers=5 if ctx.thorough else 2, args=args,
                   timeout=3000), dump + ".dump"


def run_stage(ctx, name, r, path, totals):
    parents = _parents_from(r)
    jobs = [(path, lo, hi, parents, name in PERM_STAGES, name in CAT_STAGES) for lo, hi in expr_replay.split_dump(path, 64)]
    res = pmap(_worker, jobs)
    os.unlink(path)
    n = sum(x["n"] for x in res)
    if n != r.distinct:
        raise MachineryError("stage %s: replayed %d configurations, TLC enumerated %d" % (name, n, r.distinct))
    agg = {"classes": {}, "layers": {}, "exp": {}}
    for x in res:
        for fld in agg:
            for k, v in x[fld].items():
                agg[fld][k] = agg[fld].get(k, 0) + v
                totals[fld][k] = totals[fld].get(k, 0) + v
        for fp in x["fps"]:
            ctx.case((name, fp))
        for mm in x["mism"]:
            report(ctx, name, mm)
        for smp in x["sample"].values():
            if not any(isinstance(s, dict) and s.get("expected") == smp["expected"] for s in ctx.cov["samples"]):
                ctx.sample(smp)
    routes = sum(x["routes"] for x in res)
    ctx.cov["stages"]["replay/" + name] = {"configurations": n, "designs_built": routes, "expected_sets": agg["exp"],
                                           "observed_classes": agg["classes"], "conflict_rejected_by": agg["layers"]}
    ctx.cov["traces_validated_against_impl"] += routes
    return r


def run(ctx):
    th = ctx.thorough
    totals = {"classes": {}, "layers": {}, "exp": {}}
    sts = stages(th)
    # import amaranth once, before the worker pools fork (otherwise every worker of every stage imports it again)
    import amaranth.hdl, amaranth.hdl._mem, amaranth.hdl._ir, amaranth.back.rtlil, amaranth.lib.memory, amaranth.lib.io  # noqa: E401,F401
    # the TLC runs are independent: start them together (JVM start-up dominates the small ones)
    # quick: small state spaces, 2-worker JVMs (cheap start-up mode of harness/tlc.py), all at once; thorough: 5 workers, 3 at once
    with ThreadPoolExecutor(3 if th else len(sts)) as ex:
        futs = [(name, ex.submit(run_tlc, ctx, name, ins)) for name, ins in sts]
        tlc_res = [(name,) + f.result() for name, f in futs]
    for name, r, path in tlc_res:
        run_stage(ctx, name, r, path, totals)
        if name == "explicit":
            if r.distinct < 30:
                raise MachineryError("explicit stage enumerated only %d configurations" % r.distinct)
        if name == COVERAGE_STAGE:
            ctx.require_actions(r, ["Next"], stage=name)
    # vacuity guards: every expected set and every rejecting layer must have occurred
    for ek in ("ok", "driver_conflict", "comb_cycle", "comb_cycle|driver_conflict"):
        if totals["exp"].get(ek, 0) == 0:
            raise MachineryError("vacuous run: no configuration with expected outcome set {%s}" % ek)
    for lk in ("dsl:dsl", "dsl:netlist", "frag:netlist"):
        if totals["layers"].get(lk, 0) == 0 and not ctx.violations:
            raise MachineryError("vacuous run: no driver conflict was rejected by %s" % lk)
    # seeded oracle errors must violate a theorem
    mut1 = inst('{"child"}', "W3", "VocabPlaceFew", 2, mutant="conflict_per_signal")
    ctx.tlc("Drivers", stage="mc/mutant-conflict-per-signal", cfg_text=CFG.format(**mut1), workers=2,
            expect_violation="DisjointNeverConflict")
    mut3 = inst('{"top"}', "W3", "VocabBranchQ", 1, maxrich=1, mutant="branch_own_test_only")
    ctx.tlc("Drivers", stage="mc/mutant-branch-own-test-only", cfg_text=CFG.format(**mut3), workers=2,
            expect_violation="ChainPriority")
    mut2 = inst('{"top"}', "W3", "VocabChain", 2, mutant="cycle_per_signal")
    ctx.tlc("Drivers", stage="mc/mutant-cycle-per-signal", cfg_text=CFG.format(**mut2), workers=2,
            expect_violation="ForwardOnlyNoCycle")
    # binding demo: a corrupted expectation must be noticed by the comparison
    demo = {"shape": "top", "ws": (2,), "parents": (0,), "exp": ["ok"], "expr": ["ok"],
            "drv": ({"m": 1, "k": "comb", "s": 1, "lo": 0, "hi": 1, "f": "not", "a": (1, 0), "b": (), "c": ()},)}
    with warnings.catch_warnings():
        warnings.simplefilter("ignore")
        got = [o[3] for o in check_config(demo)]
    if got != ["comb_cycle", "comb_cycle"]:
        raise MachineryError("binding demo: s1[0].eq(~s1[0]) was classified %r" % (got,))
    ctx.cov["stages"]["binding-demo"] = {"config": render(demo), "corrupted_expectation": ["ok"], "observed": got, "rejected": True}
    ctx.cov["exhaustive"] = True
    ctx.cov["rule"] = ("case = one configuration (hierarchy shape, signal widths, set of driver records) = one TLC state; all "
                       "states of every stage are built with amaranth through the Module DSL and through the Fragment API "
                       "(plus lib.memory / lib.io variants where a primitive output covers a whole signal); distinct = "
                       "distinct rendered configurations per stage; trivial prefixes (0 or 1 record) are kept")
    ctx.assume("bounds: <= 3 modules, 1-2 signals of 2-3 bits (explicit cases up to 4), <= 2-4 driver records per stage; "
               "statement order within a design is the order of the record sequence for the DSL route and its reverse for "
               "the Fragment route (TLC computes the allowed outcomes for both orders)")
    ctx.assume("a cycle that runs only through dead assignments (always overridden by a later unconditional assignment of the "
               "same module and domain) may be rejected or accepted: amaranth drops leading whole-range unconditional "
               "assignments but keeps partial ones")
    ctx.assume("not generated (outside the property statement): two primitive outputs on one bit; signed operands; zero-width "
               "I/O ports; a branch statement overridden by an unconditional statement of the same driver")
    ctx.assume("chains (If/Elif/Else, Switch/Case): a statement in branch i depends on the bits tested by branches 1..i (must "
               "be rejected when that closes a loop); amaranth feeds every bit of the tested value to every branch, so a loop "
               "only through a LATER test or through a switched bit no pattern looks at may be rejected or accepted")
    ctx.assume("no constant folding was observed in the netlist (s[0].eq(s[0] & 0) is reported as a cycle), so every "
               "generated construct is a structural dependency")


def replay(ctx, rep):
    m = rep["replay"]["mismatch"]
    cfg = m["config"]
    cfg["drv"] = tuple({k: (tuple(v) if isinstance(v, list) else v) for k, v in r.items()} for r in cfg["drv"])
    cfg["ws"] = tuple(cfg["ws"])
    print("configuration:", render(cfg))
    print("Drivers.tla allows:", m["expected"])
    rc = 0
    with warnings.catch_warnings():
        warnings.simplefilter("ignore")
        rt = m["route"]
        base = "frag" if rt.startswith("fragcat") else "dsl" if rt.startswith("dslcat") or rt == "dsl+ri" else rt
        cls, layer = build(cfg, base, m.get("order"), cat="last" if rt == "dslcatlast" else "cat" in rt, ri=rt.endswith("+ri"))
    print("amaranth (%s route): %s %s" % (m["route"], cls, layer))
    if cls not in m["expected"]:
        print("VIOLATION property=C06 replay=(same)")
        rc = 1
    return rc
