"""C09 — elaboration, simulation and build plans are reproducible.

spec:   ElabOrder  (targeting model: elaboration as construction of sequences from collections; set iterations are
                    picked in every order; invariant OutputIndependentOfPickOrder; the named sensitivity
                    "missing_domains" is switched by SortedDomains)
        Repro      (history monitor Observe(key, config, digest): SameKeySameDigest, ResetRestoresInit,
                    ExtractMatchesPlan; MonitorExact) and ReproTrace (the monitor run over recorded histories)
stages: target     TLC on ElabOrder: the invariant holds with SortedDomains, the counterexample without (mutant /
                   non-vacuity), hypothetical set iterations -> which design features the catalogue must contain;
                   the model's own design family is rebuilt on the real Fragment.prepare() and compared (coverage)
        monitor    TLC on Repro: the monitor is exact; faulty producers violate the named invariants
        histories  real histories from fresh interpreters with different PYTHONHASHSEED (and one repeated seed):
                   (a) rtlil.convert of a catalogue of designs aimed at the sensitive features: first / same object
                       again / rebuilt, per interpreter;
                   (b) simulations: fresh run, fresh rerun, reset() + rerun, partial run + reset() + rerun; engine state
                       right after reset() against a fresh engine; testbench view of the state at time 0;
                   (c) build plans: files, digest(), archive() (also under a shifted wall clock), extract();
                   all logged as Observe events, validated by TLC (ReproTrace)
        binding    a history with one corrupted digest must be rejected
The TLA+ content for this property is a monitor and a targeting model (LEVEL = exploration): the strength lies in the
choice of designs and of the varied configurations, the verdict is the monitor's."""
import hashlib
import io as _io
import json
import os
import subprocess
import sys
import time

from ..common import MachineryError, VERIF, REPO

LEVEL = "exploration"

# =================================================================================================================
# (a) catalogue of design builders.  Every builder is deterministic and returns (design, ports); `ports` may be None
#     (components with a signature).  The builders run in child interpreters (see _child_main), always from this
#     file, so that the `src` attributes of the RTLIL are the same in every interpreter.
# =================================================================================================================
F_IMP = "implicit_domains>=2"
F_CLASH = "name_clash"
F_ANON = "anon_submodules"
F_XHIER = "cross_hierarchy"
F_WRAP = "wrappers"
F_MEM = "memory"
F_INST = "instance"
F_LIB = "lib"
F_PLAIN = "plain"

CATALOGUE = {}


def design(name, *features):
    def deco(fn):
        assert name not in CATALOGUE
        CATALOGUE[name] = (fn, features)
        return fn
    return deco


def _counter(m, domain, width, name):
    from amaranth.hdl import Signal
    c = Signal(width, name=name)
    m.d[domain] += c.eq(c + 1)
    return c


@design("imp2_one_module", F_IMP)
def _d_imp2_one_module():
    from amaranth.hdl import Module, Signal
    m = Module()
    a = Signal(4)
    o = Signal(4)
    x = _counter(m, "foo", 4, "x")
    y = _counter(m, "bar", 4, "y")
    m.d.comb += o.eq(x ^ y ^ a)
    return m, [a, o]


@design("imp3_one_module", F_IMP)
def _d_imp3_one_module():
    from amaranth.hdl import Module, Signal
    m = Module()
    o = Signal(3)
    x = _counter(m, "foo", 3, "x")
    y = _counter(m, "bar", 3, "y")
    z = _counter(m, "baz", 3, "z")
    m.d.comb += o.eq(x + y + z)
    return m, [o]


@design("imp4_one_module", F_IMP)
def _d_imp4_one_module():
    from amaranth.hdl import Module, Signal, Cat
    m = Module()
    o = Signal(8)
    cs = [_counter(m, d, 2, "c_" + d) for d in ("pix", "usb", "eth", "sys")]
    m.d.comb += o.eq(Cat(*cs))
    return m, [o]


@design("imp_sync_plus_one", F_IMP)
def _d_imp_sync_plus_one():
    from amaranth.hdl import Module, Signal
    m = Module()
    o = Signal(4)
    x = _counter(m, "sync", 4, "x")
    y = _counter(m, "aux", 4, "y")
    m.d.comb += o.eq(x & y)
    return m, [o]


@design("imp1_sync_only", F_PLAIN)
def _d_imp1_sync_only():
    from amaranth.hdl import Module, Signal
    m = Module()
    o = Signal(4)
    x = _counter(m, "sync", 4, "x")
    m.d.comb += o.eq(x)
    return m, [o]


@design("imp2_spread_named", F_IMP, F_XHIER)
def _d_imp2_spread_named():
    from amaranth.hdl import Module, Signal
    m = Module()
    o = Signal(4)
    m.submodules.left = l = Module()
    m.submodules.right = r = Module()
    x = _counter(l, "ldom", 4, "x")
    y = _counter(r, "rdom", 4, "y")
    m.d.comb += o.eq(x - y)
    return m, [o]


@design("imp3_spread_nested", F_IMP, F_XHIER)
def _d_imp3_spread_nested():
    from amaranth.hdl import Module, Signal
    m = Module()
    o = Signal(4)
    m.submodules.a = a = Module()
    a.submodules.b = b = Module()
    b.submodules.c = c = Module()
    x = _counter(a, "da", 4, "x")
    y = _counter(b, "db", 4, "y")
    z = _counter(c, "dc", 4, "z")
    m.d.comb += o.eq(x ^ y ^ z)
    return m, [o]


@design("imp4_spread_anon", F_IMP, F_ANON, F_XHIER)
def _d_imp4_spread_anon():
    from amaranth.hdl import Module, Signal, Cat
    m = Module()
    o = Signal(8)
    cs = []
    for d in ("north", "south", "east", "west"):
        s = Module()
        cs.append(_counter(s, d, 2, "c"))            # four signals called "c", one per anonymous submodule
        m.submodules += s
    m.d.comb += o.eq(Cat(*cs))
    return m, [o]


@design("imp2_clocksignal_only", F_IMP)
def _d_imp2_clocksignal_only():
    from amaranth.hdl import Module, Signal, ClockSignal, ResetSignal
    m = Module()
    o = Signal(2)
    m.d.comb += o.eq(ClockSignal("fast") ^ ResetSignal("slow"))
    return m, [o]


@design("imp2_domain_renamer", F_IMP, F_WRAP)
def _d_imp2_domain_renamer():
    from amaranth.hdl import Module, Signal, DomainRenamer
    m = Module()
    o = Signal(4)
    s1 = Module()
    x = _counter(s1, "sync", 4, "x")
    s2 = Module()
    y = _counter(s2, "sync", 4, "y")
    m.submodules.s1 = DomainRenamer("vid")(s1)
    m.submodules.s2 = DomainRenamer({"sync": "aud"})(s2)
    m.d.comb += o.eq(x | y)
    return m, [o]


@design("imp3_inserters", F_IMP, F_WRAP)
def _d_imp3_inserters():
    from amaranth.hdl import Module, Signal, DomainRenamer, ResetInserter, EnableInserter
    m = Module()
    o = Signal(4)
    rst = Signal()
    en = Signal()
    s1 = Module()
    x = _counter(s1, "p", 4, "x")
    s2 = Module()
    y = _counter(s2, "q", 4, "y")
    s3 = Module()
    z = _counter(s3, "sync", 4, "z")
    m.submodules.s1 = ResetInserter({"p": rst})(s1)
    m.submodules.s2 = EnableInserter({"q": en})(s2)
    m.submodules.s3 = ResetInserter(rst)(EnableInserter(en)(DomainRenamer("r")(s3)))
    m.d.comb += o.eq(x + y + z)
    return m, [rst, en, o]


@design("imp2_memory_ports", F_IMP, F_MEM, F_LIB)
def _d_imp2_memory_ports():
    from amaranth.hdl import Module, Signal
    from amaranth.lib.memory import Memory
    m = Module()
    m.submodules.mem = mem = Memory(shape=8, depth=4, init=[1, 2, 3, 4])
    wp = mem.write_port(domain="wr")
    rp = mem.read_port(domain="rd")
    a = Signal(2)
    d = Signal(8)
    we = Signal()
    o = Signal(8)
    m.d.comb += [wp.addr.eq(a), wp.data.eq(d), wp.en.eq(we), rp.addr.eq(a), o.eq(rp.data)]
    return m, [a, d, we, o]


@design("imp2_async_fifo", F_IMP, F_LIB)
def _d_imp2_async_fifo():
    from amaranth.lib.fifo import AsyncFIFO
    f = AsyncFIFO(width=4, depth=4, r_domain="rside", w_domain="wside")
    return f, [f.w_data, f.w_en, f.w_rdy, f.r_data, f.r_en, f.r_rdy]


@design("imp2_ff_synchronizer", F_IMP, F_LIB)
def _d_imp2_ff_synchronizer():
    from amaranth.hdl import Module, Signal
    from amaranth.lib.cdc import FFSynchronizer
    m = Module()
    i = Signal()
    o = Signal()
    r = Signal()
    m.d.src += r.eq(i)
    m.submodules.sync = FFSynchronizer(r, o, o_domain="dst")
    return m, [i, o]


@design("imp3_pulse_and_reset_sync", F_IMP, F_LIB, F_ANON)
def _d_imp3_pulse_and_reset_sync():
    from amaranth.hdl import Module, Signal, ClockDomain
    from amaranth.lib.cdc import PulseSynchronizer, ResetSynchronizer
    m = Module()
    arst = Signal()
    m.domains.core = ClockDomain(async_reset=True)
    m.submodules += ResetSynchronizer(arst, domain="core")
    m.submodules += (ps := PulseSynchronizer("tx", "rx"))
    m.submodules += (ps2 := PulseSynchronizer("rx", "aux"))
    m.d.comb += ps2.i.eq(ps.o)
    return m, [arst, ps.i, ps2.o]


@design("imp2_fsm_domains", F_IMP)
def _d_imp2_fsm_domains():
    from amaranth.hdl import Module, Signal
    m = Module()
    go = Signal()
    busy = Signal()
    t = Signal(3)
    with m.FSM(domain="ctl"):
        with m.State("IDLE"):
            with m.If(go):
                m.next = "RUN"
        with m.State("RUN"):
            m.d.comb += busy.eq(1)
            m.d.dat += t.eq(t + 1)
            with m.If(t == 5):
                m.next = "IDLE"
    return m, [go, busy]


@design("imp3_user_port_named_like_clock", F_IMP, F_CLASH)
def _d_imp3_user_port_named_like_clock():
    # a user port that is called like the clock of an implicitly created domain: the "$n" suffix goes to
    # whichever is named second, and n is the number of names assigned so far
    from amaranth.hdl import Module, Signal
    m = Module()
    fake = Signal(name="b_clk")
    o = Signal(3)
    x = _counter(m, "a", 3, "x")
    y = _counter(m, "b", 3, "y")
    z = _counter(m, "c", 3, "z")
    m.d.comb += o.eq(x + y + z + fake)
    return m, [fake, o]


@design("clash_signals_one_module", F_CLASH)
def _d_clash_signals_one_module():
    from amaranth.hdl import Module, Signal, ClockDomain
    m = Module()
    m.domains.sync = ClockDomain()
    i = Signal(4, name="d")
    acc = i
    for k in range(6):
        s = Signal(4, name="d")
        (m.d.sync if k % 2 else m.d.comb).__iadd__(s.eq(acc + k))
        acc = s
    o = Signal(4, name="q")
    m.d.comb += o.eq(acc)
    return m, [i, o]


@design("clash_ports", F_CLASH)
def _d_clash_ports():
    from amaranth.hdl import Module, Signal
    m = Module()
    ins = [Signal(2, name="p") for _ in range(4)]
    outs = [Signal(2, name="p") for _ in range(3)]
    for k, o in enumerate(outs):
        m.d.comb += o.eq(ins[k] + ins[k + 1])
    return m, ins + outs


@design("clash_across_hierarchy", F_CLASH, F_XHIER, F_ANON)
def _d_clash_across_hierarchy():
    from amaranth.hdl import Module, Signal, ClockDomain
    m = Module()
    m.domains.sync = ClockDomain()
    i = Signal(4, name="v")
    o = Signal(4, name="v")
    prev = i
    for k in range(4):
        s = Module()
        t = Signal(4, name="v")
        u = Signal(4, name="v")
        s.d.sync += t.eq(prev)
        s.d.comb += u.eq(t ^ k)
        if k % 2:
            m.submodules += s
        else:
            m.submodules["v" if k == 0 else "w"] = s          # a submodule called like a signal
        prev = u
    m.d.comb += o.eq(prev)
    return m, [i, o]


def _elab_classes():
    from amaranth.hdl import Elaboratable, Module, Signal

    class Adder(Elaboratable):
        def __init__(self, w):
            self.a = Signal(w)
            self.b = Signal(w)
            self.o = Signal(w + 1)

        def elaborate(self, platform):
            m = Module()
            m.d.comb += self.o.eq(self.a + self.b)
            return m

    class Reg(Elaboratable):
        def __init__(self, w):
            self.d = Signal(w)
            self.q = Signal(w)

        def elaborate(self, platform):
            m = Module()
            m.d.sync += self.q.eq(self.d)
            return m
    return Adder, Reg


@design("anon_elaboratables", F_ANON, F_XHIER, F_CLASH)
def _d_anon_elaboratables():
    from amaranth.hdl import Module, Signal, ClockDomain
    Adder, Reg = _elab_classes()
    m = Module()
    m.domains.sync = ClockDomain()
    i = Signal(4)
    o = Signal(8)
    cur = i
    for k in range(3):
        ad = Adder(len(cur))
        rg = Reg(len(cur) + 1)
        m.submodules += ad
        m.submodules += rg
        m.d.comb += [ad.a.eq(cur), ad.b.eq(k + 1), rg.d.eq(ad.o)]
        cur = rg.q
    m.d.comb += o.eq(cur)
    return m, [i, o]


@design("anon_raw_fragments", F_ANON, F_XHIER)
def _d_anon_raw_fragments():
    from amaranth.hdl import Fragment, Signal, ClockDomain
    top = Fragment()
    top.add_domains(ClockDomain("sync"))
    i = Signal(3, name="i")
    prev = i
    for k in range(4):
        f = Fragment()
        s = Signal(3, name="s%d" % k)
        f.add_statements("sync" if k % 2 else "comb", s.eq(prev + 1))
        top.add_subfragment(f, None if k != 2 else "named")
        prev = s
    o = Signal(3, name="o")
    top.add_statements("comb", o.eq(prev))
    return top, [i, o]


@design("cross_hierarchy_siblings", F_XHIER)
def _d_cross_hierarchy_siblings():
    from amaranth.hdl import Module, Signal, ClockDomain
    m = Module()
    m.domains.sync = ClockDomain()
    bus = Signal(8)
    sel = Signal(2)
    o = Signal(8)
    m.submodules.a = a = Module()
    a.submodules.aa = aa = Module()
    m.submodules.b = b = Module()
    b.submodules.bb = bb = Module()
    t = Signal(8)
    u = Signal(8)
    aa.d.sync += t.eq(bus + sel)
    bb.d.comb += u.eq(t ^ bus)             # t travels aa -> a -> top -> b -> bb
    a.d.comb += o.eq(u)                    # u travels back
    return m, [bus, sel, o]


@design("wrappers_declared_domains", F_WRAP)
def _d_wrappers_declared_domains():
    from amaranth.hdl import Module, Signal, ClockDomain, DomainRenamer, ResetInserter, EnableInserter
    m = Module()
    m.domains.sync = ClockDomain()
    m.domains.alt = ClockDomain(async_reset=True)
    m.domains.nrst = ClockDomain(reset_less=True)
    rst = Signal()
    en = Signal()
    o = Signal(4)
    subs = []
    for k, wrap in enumerate([DomainRenamer("alt"), ResetInserter(rst), EnableInserter(en),
                              lambda e: DomainRenamer("nrst")(EnableInserter(en)(e)),
                              lambda e: ResetInserter({"alt": rst})(DomainRenamer({"sync": "alt"})(e))]):
        s = Module()
        subs.append(_counter(s, "sync", 4, "c%d" % k))
        m.submodules["w%d" % k] = wrap(s)
    acc = subs[0]
    for s in subs[1:]:
        acc = acc ^ s
    m.d.comb += o.eq(acc)
    return m, [rst, en, o]


@design("memories_declared_domains", F_MEM, F_LIB)
def _d_memories_declared_domains():
    from amaranth.hdl import Module, Signal, ClockDomain, signed
    from amaranth.lib.memory import Memory
    m = Module()
    m.domains.sync = ClockDomain()
    m.domains.other = ClockDomain()
    m.submodules.m0 = m0 = Memory(shape=signed(6), depth=5, init=[-1, 2, -3])
    m.submodules.m1 = m1 = Memory(shape=8, depth=8, init=range(8), attrs={"ram_style": "block"})
    a = Signal(3)
    d = Signal(8)
    we = Signal(2)
    o0 = Signal(signed(6))
    o1 = Signal(8)
    o2 = Signal(8)
    w0 = m0.write_port()
    r0 = m0.read_port(domain="comb")
    w1 = m1.write_port(granularity=4, domain="other")
    r1 = m1.read_port(transparent_for=(), domain="other")
    r2 = m1.read_port(domain="sync")
    m.d.comb += [w0.addr.eq(a), w0.data.eq(d[:6]), w0.en.eq(we[0]), r0.addr.eq(a), o0.eq(r0.data),
                 w1.addr.eq(a), w1.data.eq(d), w1.en.eq(we), r1.addr.eq(a), o1.eq(r1.data),
                 r2.addr.eq(a + 1), o2.eq(r2.data)]
    return m, [a, d, we, o0, o1, o2]


@design("instances", F_INST)
def _d_instances():
    from amaranth.hdl import Module, Signal, Instance, ClockSignal, ClockDomain, IOPort
    m = Module()
    m.domains.sync = ClockDomain()
    i = Signal(4)
    o = Signal(4)
    t = Signal(4)
    pad = IOPort(3, name="pad")
    m.submodules.u0 = Instance("BLACKBOX", p_WIDTH=4, p_NAME="x", p_SCALE=1.5, a_keep=1,
                               i_clk=ClockSignal(), i_d=i, o_q=t)
    m.submodules += Instance("BLACKBOX", p_WIDTH=4, i_clk=ClockSignal(), i_d=t, o_q=o, io_pad=pad[:2])
    m.submodules += Instance("OTHER", i_a=o[0], io_pad=pad[2])
    return m, [i, o]


@design("lib_sync_fifos", F_LIB)
def _d_lib_sync_fifos():
    from amaranth.hdl import Module, ClockDomain
    from amaranth.lib.fifo import SyncFIFO, SyncFIFOBuffered
    m = Module()
    m.domains.sync = ClockDomain()
    m.submodules.a = a = SyncFIFO(width=5, depth=3)
    m.submodules.b = b = SyncFIFOBuffered(width=5, depth=4)
    m.d.comb += [b.w_data.eq(a.r_data), b.w_en.eq(a.r_rdy), a.r_en.eq(b.w_rdy)]
    return m, [a.w_data, a.w_en, a.w_rdy, b.r_data, b.r_en, b.r_rdy, b.level]


@design("lib_async_fifos_declared", F_LIB)
def _d_lib_async_fifos_declared():
    from amaranth.hdl import Module, ClockDomain
    from amaranth.lib.fifo import AsyncFIFO, AsyncFIFOBuffered
    m = Module()
    m.domains.read = ClockDomain()
    m.domains.write = ClockDomain()
    m.submodules.a = a = AsyncFIFO(width=3, depth=8)
    m.submodules.b = b = AsyncFIFOBuffered(width=3, depth=8, r_domain="write", w_domain="read")
    m.d.comb += [b.w_data.eq(a.r_data), b.w_en.eq(a.r_rdy), a.r_en.eq(b.w_rdy)]
    return m, [a.w_data, a.w_en, a.w_rdy, b.r_data, b.r_en, b.r_rdy]


@design("lib_cdc_declared", F_LIB, F_ANON)
def _d_lib_cdc_declared():
    from amaranth.hdl import Module, Signal, ClockDomain
    from amaranth.lib.cdc import FFSynchronizer, AsyncFFSynchronizer, ResetSynchronizer, PulseSynchronizer
    m = Module()
    m.domains.sync = ClockDomain()
    m.domains.other = ClockDomain()
    i = Signal(3)
    o = Signal(3)
    a = Signal()
    ao = Signal()
    m.submodules += FFSynchronizer(i, o, stages=3, init=5)
    m.submodules += AsyncFFSynchronizer(a, ao, o_domain="other", async_edge="neg")
    m.submodules += ResetSynchronizer(a, domain="other")
    m.submodules.ps = ps = PulseSynchronizer("sync", "other")
    return m, [i, o, a, ao, ps.i, ps.o]


@design("lib_crc", F_LIB)
def _d_lib_crc():
    from amaranth.hdl import Module, ClockDomain
    from amaranth.lib import crc
    m = Module()
    m.domains.sync = ClockDomain()
    m.submodules.crc = p = crc.catalog.CRC16_CCITT_FALSE(data_width=8).create()
    return m, [p.start, p.data, p.valid, p.crc, p.match_detected]


@design("lib_component_signature", F_LIB)
def _d_lib_component_signature():
    from amaranth.hdl import Module
    from amaranth.lib import wiring, stream
    from amaranth.lib.wiring import In, Out

    class Pipe(wiring.Component):
        i: In(stream.Signature(8))
        o: Out(stream.Signature(8))
        flags: Out(3).array(2)

        def elaborate(self, platform):
            m = Module()
            with m.If(self.o.ready | ~self.o.valid):
                m.d.sync += [self.o.payload.eq(self.i.payload + 1), self.o.valid.eq(self.i.valid)]
            m.d.comb += self.i.ready.eq(self.o.ready | ~self.o.valid)
            m.d.comb += [self.flags[0].eq(self.o.payload[:3]), self.flags[1].eq(self.o.payload[3:6])]
            return m
    return Pipe(), None


@design("lib_io_buffers", F_LIB, F_ANON)
def _d_lib_io_buffers():
    from amaranth.hdl import Module, Signal, ClockDomain, IOPort
    from amaranth.lib import io
    m = Module()
    m.domains.sync = ClockDomain()
    pads = IOPort(4, name="pads")
    clkp = IOPort(1, name="clkp")
    port = io.SingleEndedPort(pads, direction="io")
    m.submodules += (b0 := io.Buffer("io", port))
    m.submodules += (b1 := io.FFBuffer("i", io.SingleEndedPort(clkp, invert=True, direction="i")))
    o = Signal(4)
    oe = Signal()
    i = Signal(4)
    m.d.comb += [b0.o.eq(o), b0.oe.eq(oe), i.eq(b0.i ^ b1.i.replicate(4))]
    return m, [o, oe, i]


@design("data_views_print_assert", F_PLAIN)
def _d_data_views_print_assert():
    import enum as py_enum
    from amaranth.hdl import Module, Signal, ClockDomain, Print, Assert, Format, unsigned
    from amaranth.lib import data, enum

    class Op(enum.Enum, shape=2):
        NOP = 0
        ADD = 1
        SUB = 2

    class Cmd(data.Struct):
        op: Op
        a: unsigned(3)
        b: data.ArrayLayout(unsigned(2), 2)
    m = Module()
    m.domains.sync = ClockDomain()
    c = Signal(Cmd)
    r = Signal(4)
    with m.Switch(c.op):
        with m.Case(Op.ADD):
            m.d.sync += r.eq(c.a + c.b[0])
        with m.Case(Op.SUB):
            m.d.sync += r.eq(c.a - c.b[1])
        with m.Default():
            m.d.sync += r.eq(0)
    m.d.sync += Print(Format("r={:04b} op={}", r, c.op))
    m.d.comb += Assert(r < 15, Format("r too big: {}", r))
    return m, [c.as_value(), r]


@design("attrs_and_aliases", F_PLAIN)
def _d_attrs_and_aliases():
    """Several named signals for the same nets (plain aliases, an enumeration-shaped one), some carrying attributes:
    converting must not leave anything behind in the design objects."""
    from amaranth.hdl import Module, Signal, ClockDomain
    from amaranth.lib import enum

    class Mode(enum.Enum, shape=2):
        IDLE = 0
        RUN = 1
        HALT = 2
    m = Module()
    m.domains.sync = ClockDomain()
    a, b = Signal(4), Signal(4)
    mix = Signal(4)
    dbg = Signal(4, attrs={"keep": 1, "mark": "probe"})
    dbg2 = Signal(4, attrs={"mark": "other"})
    mode = Signal(Mode)
    raw = Signal(2, attrs={"fsm_encoding": "none"})
    acc = Signal(4, attrs={"ram_style": "x"})
    m.d.comb += [mix.eq(a ^ b), dbg.eq(mix), dbg2.eq(dbg), raw.eq(a[:2]), mode.eq(raw)]
    m.d.sync += acc.eq(acc + mix)
    sub = Module()
    tap = Signal(4, name="mix", attrs={"keep": 1})
    sub.d.comb += tap.eq(acc)
    m.submodules.sub = sub
    return m, [a, b, dbg2, mode.as_value(), tap]


@design("arrays_and_switches", F_PLAIN, F_CLASH)
def _d_arrays_and_switches():
    from amaranth.hdl import Module, Signal, Array, Mux, Cat, ClockDomain
    m = Module()
    m.domains.sync = ClockDomain()
    regs = Array(Signal(4, name="reg") for _ in range(5))
    idx = Signal(3)
    d = Signal(4)
    o = Signal(4)
    we = Signal()
    with m.If(we):
        m.d.sync += regs[idx].eq(d)
    with m.Elif(idx.matches("1--")):
        m.d.sync += Cat(regs[0], regs[1]).eq(Cat(regs[1], regs[0]))
    m.d.comb += o.eq(Mux(idx[0], regs[idx], ~regs[idx]))
    return m, [idx, d, we, o]


# ---- seeded random hierarchical designs ("gen_<seed>") ------------------------------------------------------------
_GEN_DOMAINS = ["sync", "pix", "usb", "eth", "aud", "mem", "io", "dsp"]
_GEN_NAMES = ["s", "t", "data", "q", "v"]


def random_design(seed):
    """A random module tree: registers in up to four clock domains (some declared, most not), signal names from a
    small pool (clashes), named and anonymous submodules, wrappers, values crossing the hierarchy.
    Returns (design, ports, info)."""
    import random
    from amaranth.hdl import Module, Signal, ClockDomain, DomainRenamer, EnableInserter, ResetInserter
    rng = random.Random(seed)
    doms = rng.sample(_GEN_DOMAINS, rng.randint(1, 4))
    declared = [d for d in doms if rng.random() < 0.3]
    top = Module()
    for d in declared:
        top.domains += ClockDomain(d, reset_less=rng.random() < 0.3)
    inputs = [Signal(rng.randint(1, 4), name=rng.choice(_GEN_NAMES)) for _ in range(2)]
    en = Signal(name="en")
    avail = list(inputs)
    used = set()
    info = {"anon": 0, "wrapped": 0, "modules": 0}

    def control(m):
        # one control-flow construct (Switch / If chain / FSM) whose branches drive registers in several domains that
        # the enclosing block may not have used yet: the order of the per-domain statements it produces is part of
        # the elaboration result
        kind = rng.choice(["switch", "if", "fsm"])
        n = rng.randint(2, 4)
        test = rng.choice(avail)
        tgts = []
        for _ in range(n):
            d = rng.choice(doms + ["comb"])
            tgts.append((Signal(rng.randint(1, 4), name=rng.choice(_GEN_NAMES)), d, rng.choice(avail)))
            if d != "comb":
                used.add(d)
        if kind == "switch":
            with m.Switch(test):
                for k, (s, d, a) in enumerate(tgts):
                    with (m.Case(k % (1 << len(test))) if k + 1 < n or k >= (1 << len(test)) else m.Default()):
                        m.d[d] += s.eq(a)
        elif kind == "if":
            for k, (s, d, a) in enumerate(tgts):
                with (m.If(test[0]) if k == 0 else m.Elif(a.any()) if k + 1 < n else m.Else()):
                    m.d[d] += s.eq(a)
        else:
            fd = rng.choice(doms)
            used.add(fd)
            with m.FSM(domain=fd, name="fsm"):
                for k, (s, d, a) in enumerate(tgts):
                    with m.State("S%d" % k):
                        m.d[d] += s.eq(a)
                        with m.If(test[0]):
                            m.next = "S%d" % ((k + 1) % n)
        avail.extend(s for s, _d, _a in tgts)

    def fill(m, depth):
        info["modules"] += 1
        pre = rng.random()
        if pre < 0.35:
            control(m)
        for _ in range(rng.randint(1, 3)):
            s = Signal(rng.randint(1, 4), name=rng.choice(_GEN_NAMES),
                       attrs=rng.choice([None, None, {"keep": 1}, {"mark": "m%d" % len(avail)}]))
            d = rng.choice(doms + ["comb"])
            a, b = rng.choice(avail), rng.choice(avail)
            m.d[d] += s.eq(rng.choice([a + b, a ^ b, ~a, a & b, a]))
            if d != "comb":
                used.add(d)
            avail.append(s)
        if 0.35 <= pre < 0.55:
            control(m)
        if depth < 2:
            for k in range(rng.randint(0, 3 if depth == 0 else 2)):
                sub = Module()
                fill(sub, depth + 1)
                w = rng.random()
                if w < 0.12:
                    sub = EnableInserter({d: en for d in doms[:1]})(sub)
                    info["wrapped"] += 1
                elif w < 0.2:
                    sub = ResetInserter({d: en for d in doms[-1:]})(sub)
                    info["wrapped"] += 1
                if rng.random() < 0.5:
                    m.submodules += sub
                    info["anon"] += 1
                else:
                    m.submodules["u%d" % k] = sub
    fill(top, 0)
    outs = avail[-rng.randint(1, 3):]
    ports = inputs + [en] + [o for o in outs if all(o is not i for i in inputs)]
    info["implicit"] = sorted(used - set(declared))
    return top, ports, info


def _builder(name):
    if name.startswith("gen_"):
        seed = int(name[4:])
        return lambda: random_design(seed)[:2]
    return CATALOGUE[name][0]


def features_of(name):
    if name.startswith("gen_"):
        import warnings
        with warnings.catch_warnings():
            warnings.simplefilter("ignore")
            info = random_design(int(name[4:]))[2]
        f = []
        if len(info["implicit"]) >= 2:
            f.append(F_IMP)
        f.append(F_CLASH)
        if info["anon"]:
            f.append(F_ANON)
        if info["wrapped"]:
            f.append(F_WRAP)
        return tuple(f) + (F_XHIER,)
    return CATALOGUE[name][1]


# ---- designs of the ElabOrder family, as printed by TLC (see spec/ElabOrder.tla) ---------------------------------
def build_model_design(rec):
    """rec: the design record of ElabOrder (sigs, declared, ports, frags) -> (top Fragment, ports, signals)."""
    from amaranth.hdl import Fragment, Signal, ClockDomain
    sigs = [Signal(name=n) for n in rec["sigs"]]
    frags = []
    for fr in rec["frags"]:
        f = Fragment()
        for dom, lhs, rhs in fr["stmts"]:
            f.add_statements(dom, sigs[lhs - 1].eq(sigs[rhs - 1]))
        frags.append(f)
    for k, fr in enumerate(rec["frags"]):
        if fr["parent"]:
            frags[fr["parent"] - 1].add_subfragment(frags[k], fr["name"] or None)
    for d in rec["declared"]:
        frags[0].add_domains(ClockDomain(d))
    return frags[0], [sigs[p - 1] for p in rec["ports"]], sigs, frags


def elab_output(rec):
    """The output of the real elaboration in the vocabulary of ElabOrder.Out (created, ports, wires, subnames)."""
    top, ports, sigs, frags = build_model_design(rec)
    dsn = top.prepare(ports=ports)
    dom_sorted = ["bar", "baz", "foo", "sync"]
    ids = {}
    for k, s in enumerate(sigs):
        ids[id(s)] = k + 1
    for name, cd in top.domains.items():
        ids[id(cd.clk)] = 100 + 2 * (dom_sorted.index(name) + 1)
        if cd.rst is not None:
            ids[id(cd.rst)] = 101 + 2 * (dom_sorted.index(name) + 1)
    declared = set(rec["declared"])
    created = [d for d in top.domains if d not in declared]
    out_ports = [[ids[id(sig)], name] for name, sig, _dir in dsn.ports]
    # fragments after DomainLowerer are new objects: walk both trees in parallel
    order = []

    def walk(fr):
        order.append(fr)
        for sub, _n, _s in fr.subfragments:
            walk(sub)
    walk(dsn.fragment)
    wires = []
    subnames = []
    for k, fr in enumerate(order):
        info = dsn.fragments[fr]
        wires.append([[ids[id(s)], n] for s, n in info.signal_names.items()])
        subnames.append([[order.index(sub) + 1, dsn.fragments[sub].name[-1]] for sub, _n, _s in fr.subfragments])
    return {"created": created, "ports": out_ports, "wires": wires, "subnames": subnames}


# =================================================================================================================
# (b) simulations
# =================================================================================================================
SIMS = {}


def simulation(name):
    def deco(fn):
        SIMS[name] = fn
        return fn
    return deco


class SimCase:
    """sim: the Simulator; obs: dict of lists filled by the testbenches (cleared by the harness before each run);
    state: signals whose value at time 0 must be their declared initial value; mems: MemoryData objects;
    go(sim): runs the simulation to its end; part(sim): runs only a first part of it."""
    def __init__(self, sim, obs, state, mems, go, part):
        self.sim, self.obs, self.state, self.mems, self.go, self.part = sim, obs, state, mems, go, part


def _lcg(seed):
    x = seed & 0xffffffff
    while True:
        x = (x * 1103515245 + 12345) & 0x7fffffff
        yield x >> 8


@simulation("two_domains_memory_process")
def _s_two_domains_memory_process():
    from amaranth.hdl import Module, Signal, ClockDomain, Period
    from amaranth.lib.memory import Memory
    from amaranth.sim import Simulator
    m = Module()
    m.domains.sync = ClockDomain()
    m.domains.slow = ClockDomain()
    m.submodules.mem = mem = Memory(shape=8, depth=8, init=[7, 6, 5, 4, 3])
    wp = mem.write_port()
    rp = mem.read_port(domain="slow")
    cnt = Signal(8, init=3)
    inc = Signal(4, init=1)
    raddr = Signal(3, init=2)
    mix = Signal(8)                     # driven by a user process
    acc = Signal(8, init=0x55)
    m.d.sync += cnt.eq(cnt + inc)
    m.d.comb += [wp.addr.eq(cnt[:3]), wp.data.eq(cnt ^ mix), wp.en.eq(cnt[0]), rp.addr.eq(raddr)]
    m.d.slow += [raddr.eq(raddr + 3), acc.eq(acc + rp.data)]
    sim = Simulator(m)
    sim.add_clock(Period(ns=10))
    sim.add_clock(Period(ns=37), phase=Period(ns=4), domain="slow")
    obs = {"fast": [], "slow": [], "t0": []}

    async def mixer(ctx):
        async for c, a in ctx.changed(cnt, acc):
            ctx.set(mix, (c * 3 + a) & 0xff)

    async def tb_fast(ctx):
        obs["t0"].append([ctx.elapsed_time().femtoseconds, [ctx.get(s) for s in (cnt, inc, raddr, acc)],
                          [ctx.get(mem.data[i]) for i in range(8)]])
        g = _lcg(11)
        for k in range(60):
            ctx.set(inc, next(g) % 16)
            _, _, c, mx = await ctx.tick().sample(cnt, mix)
            obs["fast"].append([ctx.elapsed_time().femtoseconds, c, mx, ctx.get(mem.data[k % 8])])
        await ctx.delay(Period(ns=3))
        ctx.set(mem.data[1], 0xAA)
        obs["fast"].append([ctx.elapsed_time().femtoseconds, ctx.get(mem.data[1]), ctx.get(acc)])

    async def tb_slow(ctx):
        async for _, _, a, r in ctx.tick("slow").sample(acc, raddr):
            obs["slow"].append([ctx.elapsed_time().femtoseconds, a, r, ctx.get(rp.data)])

    sim.add_process(mixer)
    sim.add_testbench(tb_fast)
    sim.add_testbench(tb_slow, background=True)
    return SimCase(sim, obs, [cnt, inc, raddr, acc], [mem.data], lambda s: s.run(), lambda s: s.run_until(Period(ns=173)))


@simulation("sync_fifo_buffered")
def _s_sync_fifo_buffered():
    from amaranth.hdl import Period
    from amaranth.lib.fifo import SyncFIFOBuffered
    from amaranth.sim import Simulator
    f = SyncFIFOBuffered(width=6, depth=5)
    sim = Simulator(f)
    sim.add_clock(Period(ns=8))
    obs = {"main": [], "t0": []}

    async def tb(ctx):
        obs["t0"].append([ctx.elapsed_time().femtoseconds, [ctx.get(s) for s in (f.w_en, f.r_en, f.w_data, f.level)], []])
        g = _lcg(5)
        for k in range(80):
            v = next(g)
            ctx.set(f.w_en, v & 1)
            ctx.set(f.r_en, (v >> 1) & 1 & (k > 10))
            ctx.set(f.w_data, (v >> 2) & 63)
            await ctx.tick()
            obs["main"].append([ctx.elapsed_time().femtoseconds] + [ctx.get(s) for s in (f.w_rdy, f.r_rdy, f.r_data, f.level)])

    sim.add_testbench(tb)
    return SimCase(sim, obs, [f.w_en, f.r_en, f.w_data, f.level], [], lambda s: s.run(), lambda s: s.run_until(Period(ns=100)))


@simulation("async_fifo_two_clocks")
def _s_async_fifo_two_clocks():
    from amaranth.hdl import Module, ClockDomain, Period
    from amaranth.lib.fifo import AsyncFIFO
    from amaranth.sim import Simulator
    m = Module()
    m.domains.read = ClockDomain()
    m.domains.write = ClockDomain()
    m.submodules.f = f = AsyncFIFO(width=8, depth=8)
    sim = Simulator(m)
    sim.add_clock(Period(ns=10), domain="write")
    sim.add_clock(Period(ns=13), phase=Period(ns=1), domain="read")
    obs = {"w": [], "r": [], "t0": []}

    async def writer(ctx):
        obs["t0"].append([ctx.elapsed_time().femtoseconds, [ctx.get(s) for s in (f.w_en, f.w_data, f.r_en)], []])
        g = _lcg(77)
        for k in range(50):
            v = next(g)
            ctx.set(f.w_data, v & 255)
            ctx.set(f.w_en, (v >> 8) % 3 != 0)
            _, _, rdy = await ctx.tick("write").sample(f.w_rdy)
            obs["w"].append([ctx.elapsed_time().femtoseconds, rdy, ctx.get(f.w_level)])

    async def reader(ctx):
        g = _lcg(3)
        ctx.set(f.r_en, 0)
        async for _, _, rdy, data in ctx.tick("read").sample(f.r_rdy, f.r_data):
            obs["r"].append([ctx.elapsed_time().femtoseconds, rdy, data if rdy else None])
            ctx.set(f.r_en, next(g) & 1)

    sim.add_testbench(writer)
    sim.add_testbench(reader, background=True)
    return SimCase(sim, obs, [f.w_en, f.w_data, f.r_en], [], lambda s: s.run(), lambda s: s.run_until(Period(ns=222)))


@simulation("testbench_writes_memory_run_until")
def _s_testbench_writes_memory_run_until():
    from amaranth.hdl import Module, Signal, ClockDomain, Period, signed
    from amaranth.lib.memory import Memory
    from amaranth.sim import Simulator
    m = Module()
    m.domains.sync = ClockDomain(async_reset=True)
    m.submodules.a = a = Memory(shape=signed(5), depth=4, init=[-3, 4])
    m.submodules.b = b = Memory(shape=4, depth=3, init=[9, 8, 7])
    ra = a.read_port(domain="comb")
    rb = b.read_port()
    wb = b.write_port()
    ptr = Signal(2, init=1)
    tot = Signal(signed(8), init=-2)
    m.d.comb += [ra.addr.eq(ptr), rb.addr.eq(ptr), wb.addr.eq(ptr), wb.data.eq(tot[:4]), wb.en.eq(tot[0])]
    m.d.sync += [ptr.eq(ptr + 1), tot.eq(tot + ra.data - rb.data)]
    sim = Simulator(m)
    sim.add_clock(Period(ns=20), phase=Period(ns=7))
    obs = {"main": [], "t0": [], "bg": []}

    async def tb(ctx):
        obs["t0"].append([ctx.elapsed_time().femtoseconds, [ctx.get(s) for s in (ptr, tot)],
                          [[ctx.get(a.data[i]) for i in range(4)], [ctx.get(b.data[i]) for i in range(3)]]])
        for k in range(25):
            await ctx.tick()
            if k % 6 == 5:
                ctx.set(a.data[k % 4], (k * 5) % 16 - 8)
            if k == 13:
                ctx.set(tot, -100)
            obs["main"].append([ctx.elapsed_time().femtoseconds, ctx.get(ptr), ctx.get(tot), ctx.get(ra.data), ctx.get(rb.data)])

    async def bg(ctx):
        while True:
            await ctx.delay(Period(ns=33))
            obs["bg"].append([ctx.elapsed_time().femtoseconds, ctx.get(tot)])

    sim.add_testbench(tb)
    sim.add_testbench(bg, background=True)
    return SimCase(sim, obs, [ptr, tot], [a.data, b.data], lambda s: s.run_until(Period(ns=700)), lambda s: s.run_until(Period(ns=310)))


@simulation("comb_only_delays")
def _s_comb_only_delays():
    from amaranth.hdl import Module, Signal, Period
    from amaranth.sim import Simulator
    m = Module()
    a = Signal(4, init=9)
    b = Signal(4)
    o = Signal(5)
    mirror = Signal(5, init=3)          # driven by a user process in the documented comb-replacement pattern
    m.d.comb += o.eq(a + b)
    sim = Simulator(m)
    obs = {"main": [], "t0": []}

    async def tb(ctx):
        obs["t0"].append([ctx.elapsed_time().femtoseconds, [ctx.get(a), ctx.get(b)], []])
        g = _lcg(9)
        for k in range(30):
            ctx.set(a, next(g) % 16)
            await ctx.delay(Period(ps=next(g) % 700 + 1))
            ctx.set(b, next(g) % 16)
            obs["main"].append([ctx.elapsed_time().femtoseconds, ctx.get(o), ctx.get(mirror)])

    async def watcher(ctx):
        async for v, in ctx.changed(o):
            ctx.set(mirror, v ^ 0x1f)

    sim.add_testbench(tb)
    sim.add_process(watcher)
    return SimCase(sim, obs, [a, b], [], lambda s: s.run(), lambda s: s.run_until(Period(ns=3)))


def _all_signals(sim):
    """Every signal of the elaborated design, in a deterministic order (internal API; None if unavailable)."""
    try:
        out = []
        seen = set()
        for info in sim._design.fragments.values():
            for s in info.signal_names:
                if id(s) not in seen:
                    seen.add(id(s))
                    out.append(s)
        return out
    except AttributeError:
        return None


def engine_state(case):
    """Engine-level snapshot: current and next value of every design signal, every memory row, pending writes,
    simulation time.  Uses private attributes of the Python engine; returns None if they are not there."""
    try:
        st = case.sim._engine._state
        sigs = _all_signals(case.sim)
        if sigs is None:
            return None
        vals = []
        for s in sigs:
            slot = st.slots[st.get_signal(s)]
            vals.append([s.name, slot.curr, slot.next])
        mems = []
        for md in case.mems:
            slot = st.slots[st.get_memory(md)]
            mems.append([list(slot.data), sorted(slot.write_queue.items())])
        return {"signals": vals, "memories": mems, "now": st.timeline.now, "pending": len(st.pending),
                "wakers": len(st.timeline.wakers)}
    except AttributeError:
        return None


def _declared_t0(case):
    mems = [[_plain(v) for v in md.init] for md in case.mems]
    return [0, [s.init for s in case.state], mems if len(mems) != 1 else mems[0]]


def _plain(v):
    return v if isinstance(v, int) else int(v)


def _clear(obs):
    obs.pop("exception", None)
    for v in obs.values():
        del v[:]


def _dig(obj):
    return hashlib.sha256(json.dumps(obj, sort_keys=True, default=repr).encode()).hexdigest()


class _Watchdog(Exception):
    pass


def _go(fn, case, limit=40):
    """Run (part of) a simulation; an exception is an observation like any other, and so is not terminating
    (the simulations of this file take well under a second)."""
    import signal

    def on_alarm(signum, frame):
        raise _Watchdog("no termination within %d s" % limit)
    old = signal.signal(signal.SIGALRM, on_alarm)
    signal.alarm(limit)
    try:
        fn(case.sim)
    except Exception as e:
        case.obs["exception"] = [type(e).__name__, str(e)[:200]]
    finally:
        signal.alarm(0)
        signal.signal(signal.SIGALRM, old)


def _trace(case):
    return json.loads(json.dumps(case.obs))


def _t0(case):
    return case.obs["t0"][0] if case.obs.get("t0") else None


def run_sim_history(name):
    """One simulation history: list of (kind, phase, digest, payload)."""
    ev = []
    mk = SIMS[name]
    # fresh simulator: engine state before anything ran, then a complete run
    c1 = mk()
    ev.append(("state_at_time_0", "declared", _declared_t0(c1)))
    s0 = engine_state(c1)
    if s0 is not None:
        ev.append(("init_state", "fresh_engine", s0))
    _go(c1.go, c1)
    if "exception" in c1.obs:
        raise RuntimeError("the first run of simulation %s raised %r" % (name, c1.obs["exception"]))
    ev.append(("sim_trace", "first", _trace(c1)))
    ev.append(("state_at_time_0", "first", _t0(c1)))
    # a second fresh simulator
    c2 = mk()
    s0b = engine_state(c2)
    if s0b is not None:
        ev.append(("init_state", "second_fresh_engine", s0b))
    _go(c2.go, c2)
    ev.append(("sim_trace", "rerun", _trace(c2)))
    # reset() after a complete run
    _clear(c1.obs)
    _go(lambda s: s.reset(), c1)
    s1 = engine_state(c1)
    if s1 is not None:
        ev.append(("post_reset_state", "after_reset", s1))
    _go(c1.go, c1)
    ev.append(("sim_trace", "after_reset", _trace(c1)))
    ev.append(("state_at_time_0", "after_reset", _t0(c1)))
    # reset() in the middle of a run, twice
    c3 = mk()
    _go(c3.part, c3)
    _clear(c3.obs)
    _go(lambda s: s.reset(), c3)
    s3 = engine_state(c3)
    if s3 is not None:
        ev.append(("post_reset_state", "after_partial_run_and_reset", s3))
    _go(c3.part, c3)
    _clear(c3.obs)
    _go(lambda s: s.reset(), c3)
    _go(c3.go, c3)
    ev.append(("sim_trace", "after_partial_run_and_reset", _trace(c3)))
    ev.append(("state_at_time_0", "after_partial_run_and_reset", _t0(c3)))
    return [(k, ph, _dig(p), p) for k, ph, p in ev]


# =================================================================================================================
# (c) build plans
# =================================================================================================================
PLANS = {}


def plan(name, *features):
    def deco(fn):
        PLANS[name] = (fn, features)
        return fn
    return deco


def _ice40(extra_domains=()):
    from amaranth.hdl import Module, ClockDomain, ClockSignal
    from amaranth.build import Resource, Pins, Clock, Attrs, Subsignal
    from amaranth.lib import io
    from amaranth.vendor import SiliconBluePlatform

    class Plat(SiliconBluePlatform):
        device = "iCE40HX8K"
        package = "CT256"
        default_clk = "clk12"
        default_rst = "rst"
        resources = [
            Resource("clk12", 0, Pins("J3", dir="i"), Clock(12e6), Attrs(GLOBAL=True, IO_STANDARD="SB_LVCMOS")),
            Resource("clk_pix", 0, Pins("J4", dir="i"), Clock(25e6)),
            Resource("clk_usb", 0, Pins("J5", dir="i"), Clock(48e6)),
            Resource("clk_eth", 0, Pins("J6", dir="i"), Clock(50e6)),
            Resource("rst", 0, Pins("K3", dir="i")),
            Resource("led", 0, Pins("B5", dir="o")),
            Resource("led", 1, Pins("B4", dir="o")),
            Resource("led", 2, Pins("A2", dir="o")),
            Resource("btn", 0, Pins("C1", dir="i"), Attrs(PULLUP=1)),
            Resource("bus", 0, Subsignal("d", Pins("A1 A3 A4 A6", dir="io")), Subsignal("oe", Pins("A5", dir="o"))),
            Resource("diff", 0, Pins("D1", dir="o"), Attrs(IO_STANDARD="SB_LVCMOS")),
        ]
        connectors = []

        def create_missing_domain(self, name):
            if name in extra_domains:
                m = Module()
                clk_io = self.request("clk_" + name, dir="-")
                m.submodules.buf = buf = io.Buffer("i", clk_io)
                m.domains += ClockDomain(name, reset_less=True)
                m.d.comb += ClockSignal(name).eq(buf.i)
                return m
            return super().create_missing_domain(name)
    return Plat()


def _ecp5():
    from amaranth.build import Resource, Pins, Clock, Attrs
    from amaranth.vendor import LatticePlatform

    class Plat(LatticePlatform):
        device = "LFE5U-25F"
        package = "BG381"
        speed = "6"
        default_clk = "clk25"
        resources = [
            Resource("clk25", 0, Pins("P3", dir="i"), Clock(25e6), Attrs(IO_TYPE="LVCMOS33")),
            Resource("led", 0, Pins("U16", dir="o"), Attrs(IO_TYPE="LVCMOS33", DRIVE="4")),
            Resource("led", 1, Pins("N16", dir="o"), Attrs(IO_TYPE="LVCMOS33")),
            Resource("btn", 0, Pins("T1", dir="i"), Attrs(IO_TYPE="LVCMOS33", PULLMODE="UP")),
        ]
        connectors = []
    return Plat()


def _blinky(leds=1, domains=("sync",), use_bus=False, extra_file=False):
    from amaranth.hdl import Elaboratable, Module, Signal

    class Blinky(Elaboratable):
        def elaborate(self, platform):
            m = Module()
            btn = platform.request("btn", 0)
            acc = btn.i
            for k, d in enumerate(domains):
                led = platform.request("led", k)
                ctr = Signal(6 + k, name="ctr")
                m.d[d] += ctr.eq(ctr + 1)
                m.d.comb += led.o.eq(ctr[-1] ^ acc)
                acc = ctr[0]
            if use_bus:
                bus = platform.request("bus", 0)
                m.d.comb += [bus.d.o.eq(acc.replicate(4)), bus.d.oe.eq(bus.oe.o), bus.oe.o.eq(bus.d.i.any())]
            if extra_file:
                platform.add_file("extra/notes.txt", "hello\n")
                platform.add_file("blob.bin", bytes(range(16)))
            return m
    return Blinky()


@plan("ice40_blinky", F_PLAIN)
def _p_ice40_blinky():
    return _ice40(), _blinky()


@plan("ice40_bus_and_extra_files", F_PLAIN)
def _p_ice40_bus_and_extra_files():
    return _ice40(), _blinky(use_bus=True, extra_file=True)


@plan("ecp5_blinky", F_PLAIN)
def _p_ecp5_blinky():
    return _ecp5(), _blinky(leds=2)


@plan("ice40_platform_creates_two_domains", F_IMP)
def _p_ice40_platform_creates_two_domains():
    return _ice40(("pix", "usb")), _blinky(domains=("pix", "usb"))


@plan("ice40_platform_creates_three_domains_and_sync", F_IMP)
def _p_ice40_platform_creates_three_domains_and_sync():
    return _ice40(("pix", "usb", "eth")), _blinky(domains=("sync", "pix", "usb"), use_bus=True)


def _files_digest(files):
    h = hashlib.sha256()
    for name in sorted(files):
        c = files[name]
        if isinstance(c, str):
            c = c.encode("utf-8")
        h.update(name.encode("utf-8") + b"\0" + str(len(c)).encode() + b"\0" + c)
    return h.hexdigest()


def _per_file(files):
    return {n: hashlib.sha256(c.encode("utf-8") if isinstance(c, str) else c).hexdigest()[:12] for n, c in files.items()}


def _listing(root):
    out = {}
    for dp, dn, fn in os.walk(root):
        for f in fn:
            p = os.path.join(dp, f)
            with open(p, "rb") as fh:
                out[os.path.relpath(p, root).replace(os.sep, "/")] = fh.read()
        for d in dn:
            if not os.listdir(os.path.join(dp, d)):
                out[os.path.relpath(os.path.join(dp, d), root).replace(os.sep, "/") + "/"] = b""
    return out


def run_plan_history(name, scratch):
    """One build-plan history: list of (kind, phase, digest, payload-summary)."""
    import shutil
    mk = PLANS[name][0]
    ev = []
    plans = []
    for phase in ("first", "rebuilt"):
        plat, top = mk()
        p = plat.build(top, do_build=False)
        plans.append(p)
        ev.append(("plan_files", phase, _files_digest(p.files), _per_file(p.files)))
        ev.append(("plan_digest", phase, p.digest().hex(), None))
    ev.append(("plan_digest", "same_object_again", plans[0].digest().hex(), None))
    for phase, p in (("first", plans[0]), ("same_object_again", plans[0]), ("rebuilt", plans[1])):
        buf = _io.BytesIO()
        p.archive(buf)
        ev.append(("archive_bytes", phase, hashlib.sha256(buf.getvalue()).hexdigest(), len(buf.getvalue())))
    real_time = time.time
    try:                                   # the same archive made three days and seven seconds later
        time.time = lambda: real_time() + 3 * 86400 + 7
        buf = _io.BytesIO()
        plans[0].archive(buf)
        ev.append(("archive_bytes", "shifted_clock", hashlib.sha256(buf.getvalue()).hexdigest(), len(buf.getvalue())))
    finally:
        time.time = real_time
    for phase, p in (("first", plans[0]), ("rebuilt", plans[1])):
        root = os.path.join(scratch, "x_%s_%s" % (name, phase))
        shutil.rmtree(root, ignore_errors=True)
        cwd = os.getcwd()
        p.extract(root)
        if os.getcwd() != cwd:
            raise RuntimeError("extract changed the working directory")
        ls = _listing(root)
        ev.append(("extract_listing", phase, _files_digest(ls), _per_file(ls)))
        shutil.rmtree(root, ignore_errors=True)
    # a plan that grows after its digest / archive were taken: the digest and the archive always describe the files
    # the plan holds NOW (compared with a freshly prepared plan that received the same file before any digest call)
    extra = ("zz_note.txt", "added after the digest was taken\n")
    plans[0].add_file(*extra)
    plat, top = mk()
    p3 = plat.build(top, do_build=False)
    p3.add_file(*extra)
    for phase, p in (("digest_then_add", plans[0]), ("add_only", p3)):
        ev.append(("plan_files_extended", phase, _files_digest(p.files), _per_file(p.files)))
        ev.append(("plan_digest_extended", phase, p.digest().hex(), None))
        buf = _io.BytesIO()
        p.archive(buf)
        ev.append(("archive_bytes_extended", phase, hashlib.sha256(buf.getvalue()).hexdigest(), len(buf.getvalue())))
    return ev


# =================================================================================================================
# child interpreter
# =================================================================================================================
def convert_history(name, outdir=None):
    import warnings
    from amaranth.back import rtlil
    fn = _builder(name)
    ev = []
    with warnings.catch_warnings():
        warnings.simplefilter("ignore")
        d, ports = fn()
        t1 = rtlil.convert(d, ports=ports)
        ev.append(("rtlil", "first", hashlib.sha256(t1.encode()).hexdigest(), _port_lines(t1)))
        try:
            t2 = rtlil.convert(d, ports=ports)
            ev.append(("rtlil", "same_object_again", hashlib.sha256(t2.encode()).hexdigest(), _port_lines(t2)))
        except Exception as e:          # an exception is an observation too (it differs from the first text)
            msg = "exception " + type(e).__name__ + ": " + str(e)[:200]
            ev.append(("rtlil", "same_object_again", hashlib.sha256(msg.encode()).hexdigest(), [msg]))
        d3, ports3 = fn()
        t3 = rtlil.convert(d3, ports=ports3)
        ev.append(("rtlil", "rebuilt", hashlib.sha256(t3.encode()).hexdigest(), _port_lines(t3)))
    if outdir:
        with open(os.path.join(outdir, name + ".il"), "w") as f:
            f.write(t1)
    return ev


def _port_lines(text):
    """Port declarations of the top module, in order (for the description of a violation)."""
    out = []
    for ln in text.split("\n"):
        ln = ln.strip()
        if ln.startswith("module ") and out:
            break
        if ln.startswith("wire ") and (" input " in ln or " output " in ln or " inout " in ln):
            out.append(ln.split()[-1])
        elif ln.startswith("module "):
            out.append(ln)
    return out


def _child_main():
    import warnings
    warnings.simplefilter("ignore")
    job = json.load(open(os.environ["C09_JOB"]))
    out = {"rtlil": {}, "sim": {}, "plan": {}, "model": [], "hashseed": os.environ.get("PYTHONHASHSEED"), "errors": []}
    os.makedirs(job["outdir"], exist_ok=True)
    for name in job.get("rtlil", []):
        try:
            out["rtlil"][name] = convert_history(name, job["outdir"])
        except Exception as e:
            import traceback
            out["errors"].append(["rtlil", name, traceback.format_exc()[-1500:]])
    for name in job.get("sim", []):
        try:
            out["sim"][name] = run_sim_history(name)
        except Exception as e:
            import traceback
            out["errors"].append(["sim", name, traceback.format_exc()[-1500:]])
    for name in job.get("plan", []):
        try:
            out["plan"][name] = run_plan_history(name, job["outdir"])
        except Exception as e:
            import traceback
            out["errors"].append(["plan", name, traceback.format_exc()[-1500:]])
    for rec in job.get("model", []):
        try:
            out["model"].append(elab_output(rec))
        except Exception as e:
            import traceback
            out["errors"].append(["model", json.dumps(rec.get("feat")), traceback.format_exc()[-1500:]])
    with open(job["result"], "w") as f:
        json.dump(out, f, default=repr)


# =================================================================================================================
# parent: TLC stages, children, histories, verdicts
# =================================================================================================================
CFG_ELAB = """SPECIFICATION Spec
CONSTANTS SortedDomains = {sorted}
 AsSet = {asset}
 PickBudget = 1
 MaxImplicit = {maximp}
 SpreadChoices = {spread}
 ClashChoices = {clash}
 AnonChoices = {anon}
 Emit = {emit}
{invs}
CHECK_DEADLOCK FALSE
"""

CFG_REPRO = """SPECIFICATION Spec
CONSTANTS Designs = {{"d"}}
 Kinds = {kinds}
 Procs = {procs}
 SeedOf <- SeedOfDef
 Phases = {phases}
 Digests = {{1, 2}}
 MaxObs = {maxobs}
 Mutant = "{mutant}"
{invs}
CHECK_DEADLOCK FALSE
"""

CFG_TRACE = """SPECIFICATION Spec
INVARIANT AcceptedIsReproducible
CHECK_DEADLOCK FALSE
"""

BOTH = "{TRUE, FALSE}"
KINDS_SAME = '{"rtlil", "sim_trace"}'
KINDS_LINK = '{"init_state", "post_reset_state", "plan_files", "extract_listing"}'


def _inv(*names):
    return "\n".join("INVARIANT " + n for n in names)


def _plainv(v):
    if isinstance(v, dict):
        return {k: _plainv(x) for k, x in v.items()}
    if isinstance(v, (tuple, list)):
        return [_plainv(x) for x in v]
    return v


def _emitted(r):
    """DESIGN and OUT values printed by ElabOrder: ({featkey: design}, {featkey: [out, ...]})."""
    from .. import tlaval
    designs, outs = {}, {}
    for txt in r.printed():
        head = txt.lstrip("< \n")
        if head.startswith('"DESIGN"'):
            v = tlaval.parse(txt)
            d = _plainv(v[1])
            designs[json.dumps(d["feat"], sort_keys=True)] = d
        elif head.startswith('"OUT"'):
            v = tlaval.parse(txt)
            o = _plainv(v[2])
            lst = outs.setdefault(json.dumps(_plainv(v[1]), sort_keys=True), [])
            if o not in lst:
                lst.append(o)
    return designs, outs


def stage_target(ctx):
    """TLC on ElabOrder.  Returns (family designs, canonical outputs, all outputs of the unsorted construction)."""
    from concurrent.futures import ThreadPoolExecutor
    OI, NI, WF = "OutputIndependentOfPickOrder", "NamesIndependentOfPickOrder", "WellFormed"
    full = dict(maximp=3, spread=BOTH, clash=BOTH, anon=BOTH, emit="FALSE", asset="{}")
    hyp = dict(full, sorted="TRUE", maximp=1, spread="{FALSE}")     # hypothetical sets: a smaller family is enough
    jobs = [
        # name, cfg parameters, invariants, expected violation, actions that must fire
        ("sorted", dict(full, sorted="TRUE", emit="TRUE"), (OI, NI, WF), None, ["PickOrdered", "Advance"]),
        ("unsorted-all-outputs", dict(full, sorted="FALSE", emit="TRUE"), (WF,), None, ["PickOrdered", "PickFromSet", "Advance"]),
        ("mutant-unsorted-domains", dict(full, sorted="FALSE"), (OI,), OI, None),
        ("unsorted-at-most-1-implicit", dict(full, sorted="FALSE", maximp=1), (OI, NI, WF), None, ["PickFromSet"]),
        ("hyp-used-signals-order", dict(hyp, asset='{"used_signals"}'), (OI,), OI, None),
        ("hyp-used-signals-names-no-clash", dict(hyp, asset='{"used_signals"}', clash="{FALSE}"), (NI, WF), None, ["PickFromSet"]),
        ("hyp-used-signals-names-clash", dict(hyp, asset='{"used_signals"}', clash="{TRUE}"), (NI,), NI, None),
        ("hyp-subfragments-order", dict(hyp, asset='{"subfragments"}'), (OI,), OI, None),
        ("hyp-subfragments-names-named", dict(hyp, asset='{"subfragments"}', clash="{FALSE}", anon="{FALSE}"), (NI, WF), None, ["PickFromSet"]),
        ("hyp-subfragments-names-anon", dict(hyp, asset='{"subfragments"}', clash="{FALSE}", anon="{TRUE}"), (NI,), NI, None),
        ("hyp-stmt-domains-order", dict(hyp, asset='{"stmt_domains"}'), (OI,), OI, None),
        ("hyp-stmt-domains-names", dict(hyp, asset='{"stmt_domains"}'), (NI, WF), None, ["PickFromSet"]),
    ]

    def one(j):
        name, par, invs, expect, acts = j
        return ctx.tlc("ElabOrder", stage="target/" + name, cfg_text=CFG_ELAB.format(invs=_inv(*invs), **par), workers=2,
                       expect_violation=expect, count=expect is None, args=("-coverage", "1") if expect is None else (),
                       timeout=900)
    with ThreadPoolExecutor(6) as ex:
        res = list(ex.map(one, jobs))
    for j, r in zip(jobs, res):
        if j[4]:
            ctx.require_actions(r, j[4], "target/" + j[0])
    designs, canon = _emitted(res[0])
    _d2, alls = _emitted(res[1])
    if len(designs) != 32 or set(canon) != set(designs) or any(len(v) != 1 for v in canon.values()) or set(alls) != set(designs):
        raise MachineryError("ElabOrder did not print its family (%d designs, %d canonical outputs)" % (len(designs), len(canon)))
    ctx.cov["targeting"] = {
        "missing_domains (set difference, real)": "order sensitive iff >= 2 implicitly created domains: port list, hence RTLIL bytes",
        "used_signals (hypothetical set)": "declaration order with >= 2 signals; the assignment of $n suffixes only with name clashes",
        "subfragments (hypothetical set)": "cell order with >= 2 submodules; names only with anonymous submodules (U$n) or clashes",
        "stmt_domains (hypothetical set)": "cell order in fragments driving >= 2 domains; never the names",
        "catalogue must therefore contain": [F_IMP, F_CLASH, F_ANON, F_XHIER],
    }
    return designs, {k: v[0] for k, v in canon.items()}, alls


def stage_monitor(ctx):
    from concurrent.futures import ThreadPoolExecutor
    th = ctx.thorough
    P3, P2 = "{0, 1, 2}", "{0, 1}"
    PH2, PH1 = '{"first", "rerun"}', '{"first"}'
    ALL = ("SameKeySameDigest", "ResetRestoresInit", "ExtractMatchesPlan", "MonitorExact")
    jobs = [
        ("same-key", dict(kinds=KINDS_SAME, procs=P3, phases=PH2, maxobs=4 if th else 3, mutant=""), ALL, None),
        ("links", dict(kinds=KINDS_LINK, procs=P2, phases=PH1, maxobs=4 if th else 3, mutant=""), ALL, None),
        ("any-producer-same-key", dict(kinds=KINDS_SAME, procs=P3, phases=PH2, maxobs=3, mutant="any"), ("MonitorExact",), None),
        ("any-producer-links", dict(kinds=KINDS_LINK, procs=P2, phases=PH1, maxobs=4 if th else 3, mutant="any"), ("MonitorExact",), None),
        ("mutant-hash-seed", dict(kinds=KINDS_SAME, procs=P3, phases=PH1, maxobs=3, mutant="hash_seed_dependent"), ("SameKeySameDigest",), "SameKeySameDigest"),
        ("mutant-rerun", dict(kinds=KINDS_SAME, procs=P2, phases=PH2, maxobs=3, mutant="rerun_dependent"), ("SameKeySameDigest",), "SameKeySameDigest"),
        ("mutant-reset", dict(kinds=KINDS_LINK, procs=P2, phases=PH1, maxobs=3, mutant="reset_leaves_state"), ("ResetRestoresInit",), "ResetRestoresInit"),
        ("mutant-extract", dict(kinds=KINDS_LINK, procs=P2, phases=PH1, maxobs=3, mutant="extract_skips_file"), ("ExtractMatchesPlan",), "ExtractMatchesPlan"),
    ]

    def one(j):
        name, par, invs, expect = j
        return ctx.tlc("Repro", stage="monitor/" + name, cfg_text=CFG_REPRO.format(invs=_inv(*invs), **par), workers=2,
                       expect_violation=expect, count=expect is None, args=("-coverage", "1") if expect is None else (),
                       timeout=1800)
    with ThreadPoolExecutor(6) as ex:
        res = list(ex.map(one, jobs))
    for j, r in zip(jobs, res):
        if j[3] is None:
            ctx.require_actions(r, ["Observe"], "monitor/" + j[0])


_CHILD = "import sys; sys.path.insert(0, %r); from harness.props import c09; c09._child_main()"


def run_children(ctx, seeds, job, tag):
    """One fresh interpreter per entry of `seeds` (proc = position); returns the list of their results."""
    from concurrent.futures import ThreadPoolExecutor

    def one(args):
        p, seed = args
        d = os.path.join(ctx.tmp, "%s_p%d" % (tag, p))
        os.makedirs(d, exist_ok=True)
        jp = os.path.join(d, "job.json")
        rp = os.path.join(d, "result.json")
        with open(jp, "w") as f:
            json.dump(dict(job, outdir=d, result=rp), f)
        env = {"PATH": os.environ.get("PATH", "/usr/bin:/bin"), "PYTHONHASHSEED": str(seed), "PYTHONPATH": REPO,
               "VERIF_REPO": REPO, "C09_JOB": jp, "HOME": d, "TMPDIR": d, "AMARANTH_VERIF": "1"}
        pr = subprocess.run([sys.executable, "-c", _CHILD % VERIF], env=env, cwd=d, stdout=subprocess.PIPE,
                            stderr=subprocess.STDOUT, text=True, timeout=2400)
        if pr.returncode != 0 or not os.path.exists(rp):
            raise MachineryError("child interpreter %d (PYTHONHASHSEED=%s) failed:\n%s" % (p, seed, pr.stdout[-3000:]))
        res = json.load(open(rp))
        if res["hashseed"] != str(seed):
            raise MachineryError("child interpreter did not get its hash seed")
        res["dir"] = d
        return res
    with ThreadPoolExecutor(min(len(seeds), 8)) as ex:
        out = list(ex.map(one, list(enumerate(seeds))))
    errs = [(p, e) for p, r in enumerate(out) for e in r["errors"]]
    if errs:
        raise MachineryError("%d builder(s) failed in child interpreters; first: interpreter %d, %s %s\n%s" % (
            len(errs), errs[0][0], errs[0][1][0], errs[0][1][1], errs[0][1][2]))
    return out


class _Intern:
    def __init__(self):
        self.d = {}

    def __call__(self, digest):
        return self.d.setdefault(digest, len(self.d) + 1)


def build_histories(results, seeds, names):
    """Observe events in the order: interpreter 0 (all its phases), interpreter 1, ...  One history per
    (family, design).  Returns (histories for TLC, meta)."""
    intern = _Intern()
    hs, meta = [], []
    for fam in ("rtlil", "sim", "plan"):
        for name in names[fam]:
            events, raw = [], []
            for p, (res, seed) in enumerate(zip(results, seeds)):
                for ev in res[fam][name]:
                    kind, phase, digest = ev[0], ev[1], ev[2]
                    events.append({"design": name, "kind": kind, "proc": p, "seed": seed, "phase": phase,
                                   "digest": intern(digest)})
                    raw.append((p, seed, kind, phase, digest, ev[3] if len(ev) > 3 else None))
            hs.append({"events": events})
            meta.append({"family": fam, "name": name, "raw": raw})
    return hs, meta


def _first_difference(a, b):
    la, lb = a.split("\n"), b.split("\n")
    for i, (x, y) in enumerate(zip(la, lb)):
        if x != y:
            return "line %d: %r  vs  %r" % (i + 1, x.strip()[:100], y.strip()[:100])
    return "lengths differ: %d vs %d lines" % (len(la), len(lb))


def _describe(m, step, clause, results):
    raw = m["raw"]
    p, seed, kind, phase, digest, payload = raw[step - 1]
    firsts = [r for r in raw if r[2] == kind]
    if clause.startswith("reset_") or clause.startswith("extract_"):
        partner = {"post_reset_state": "init_state", "init_state": "post_reset_state", "extract_listing": "plan_files",
                   "plan_files": "extract_listing"}[kind]
        firsts = [r for r in raw if r[2] == partner]
    f = firsts[0]
    per_seed = {}
    for r in raw:
        if r[2] == kind:
            per_seed.setdefault(r[4][:10], []).append("p%d/seed%s/%s" % (r[0], r[1], r[3]))
    txt = "%s %s: clause %s: observation %s of interpreter %d (PYTHONHASHSEED=%s, phase %s) has digest %s, but %s of interpreter %d " \
          "(PYTHONHASHSEED=%s, phase %s) had %s.  %d distinct digest(s) of %s in this history: %s" % (
              m["family"], m["name"], clause, kind, p, seed, phase, digest[:12], f[2], f[0], f[1], f[3], f[4][:12],
              len(per_seed), kind, json.dumps(per_seed)[:600])
    if m["family"] == "rtlil":
        txt += "\n  top-level ports there: %s\n  top-level ports here:  %s" % (f[5], payload)
        try:
            a = open(os.path.join(results[f[0]]["dir"], m["name"] + ".il")).read()
            b = open(os.path.join(results[p]["dir"], m["name"] + ".il")).read()
            if a != b:
                txt += "\n  first difference of the two RTLIL texts: " + _first_difference(a, b)
        except OSError:
            pass
    elif isinstance(payload, dict) and isinstance(f[5], dict) and m["family"] == "plan":
        diff = sorted(n for n in set(payload) | set(f[5]) if payload.get(n) != f[5].get(n))
        txt += "\n  files that differ (name: there / here): %s" % ", ".join("%s: %s / %s" % (n, f[5].get(n, "absent"), payload.get(n, "absent")) for n in diff)
    elif payload is not None and f[5] is not None and kind != "sim_trace":
        txt += "\n  there: %s\n  here:  %s" % (json.dumps(f[5])[:400], json.dumps(payload)[:400])
    elif kind == "sim_trace":
        for k in sorted(set(payload) | set(f[5])):
            here, there = payload.get(k, []), f[5].get(k, [])
            if here != there:
                i = next((i for i, (x, y) in enumerate(zip(here, there)) if x != y), min(len(here), len(there)))
                txt += "\n  testbench %r: observation %d differs: there %s, here %s" % (k, i, there[i:i + 1], here[i:i + 1])
                break
    return txt


def _feature(fam, name):
    fs = features_of(name) if fam == "rtlil" else PLANS[name][1] if fam == "plan" else ("simulation",)
    return F_IMP if F_IMP in fs else fs[0]


def judge(ctx, results, seeds, names, stage):
    from .. import tracecheck
    hs, meta = build_histories(results, seeds, names)
    verdicts = tracecheck.validate(ctx, "ReproTrace", hs, stage, cfg=CFG_TRACE)
    rej = []
    summary = {}
    for v, m, h in zip(verdicts, meta, hs):
        for e in h["events"]:
            ctx.case((m["family"], m["name"], e["kind"], e["proc"], e["phase"]))
        if v[0] == "REJ":
            key = {"clause": v[2], "design": m["name"], "feature": _feature(m["family"], m["name"])}
            k2 = "%s / %s" % (key["clause"], key["feature"])
            summary[k2] = summary.get(k2, 0) + 1
            rej.append((summary[k2] > 1, m["name"].startswith("gen_"), len(rej), key, m, v))
    # one of every kind first, the hand-written catalogue before the generated designs (only the first 50 are described)
    for _dup, _gen, _i, key, m, v in sorted(rej, key=lambda r: r[:3]):
        ctx.violation(key, _describe(m, v[1], v[2], results),
                      replay={"family": m["family"], "name": m["name"], "seeds": seeds, "clause": v[2]})
    ctx.cov["rejected_histories_by_clause_and_feature"] = summary
    return hs, meta, verdicts


def model_agreement(ctx, results, designs, canon, alls):
    """Coverage only: the real Fragment.prepare() on the designs of ElabOrder's family against the model's outputs."""
    keys = sorted(designs)
    n = in_model = eq_canon = 0
    first_bad = None
    for res in results:
        for k, real in zip(keys, res["model"]):
            n += 1
            proj = lambda o: {f: o[f] for f in ("created", "ports", "wires", "subnames")}
            if any(proj(o) == real for o in alls[k]):
                in_model += 1
            elif first_bad is None:
                first_bad = {"design": json.loads(k), "real": real}
            if proj(canon[k]) == real:
                eq_canon += 1
    ctx.cov["model_agreement"] = {
        "what": "port list, created domains, wire names per fragment, submodule names of Fragment.prepare() on the 32 designs of "
                "ElabOrder's family, in every child interpreter",
        "elaborations": n, "output_is_one_of_the_models_outputs (SortedDomains=FALSE)": in_model,
        "output_equals_canonical (SortedDomains=TRUE)": eq_canon}
    if first_bad is not None:
        ctx.notes.append("ElabOrder disagrees with the code on a family design (coverage note, not a violation): %s" % json.dumps(first_bad)[:800])


def run(ctx):
    designs, canon, alls = stage_target(ctx)
    stage_monitor(ctx)
    stage_histories(ctx, designs, canon, alls)


def stage_histories(ctx, designs, canon, alls):
    th = ctx.thorough
    seeds = [0, 0] + (list(range(1, 16)) if th else [1, 2, 3])        # interpreters 0 and 1 share a hash seed
    if ctx.seed:
        seeds = seeds[:2] + [1000 * ctx.seed + s for s in seeds[2:]]
    n_gen = 600 if th else 16
    gen0 = 1000 * ctx.seed
    names = {"rtlil": sorted(CATALOGUE) + ["gen_%d" % (gen0 + k) for k in range(n_gen)], "sim": sorted(SIMS), "plan": sorted(PLANS)}
    have = {}
    for n in names["rtlil"]:
        for f in features_of(n):
            have[f] = have.get(f, 0) + 1
    for f in ctx.cov["targeting"]["catalogue must therefore contain"]:
        if have.get(f, 0) < 5:
            raise MachineryError("the design catalogue does not aim at feature %s (only %d designs)" % (f, have.get(f, 0)))
    ctx.cov["catalogue_features"] = have
    job = dict(names, model=[designs[k] for k in sorted(designs)])
    results = run_children(ctx, seeds, job, "hist")
    if not all(any(e[0] == "post_reset_state" for e in results[0]["sim"][n]) for n in names["sim"]):
        ctx.notes.append("engine-level state was not available: ResetRestoresInit judged on the testbench view only")
    model_agreement(ctx, results, designs, canon, alls)
    hs, meta, verdicts = judge(ctx, results, seeds, names, "histories")
    ctx.cov["stages"]["histories/validate"].update({
        "interpreters": len(seeds), "hash_seeds": sorted(set(seeds)), "rtlil_designs": len(names["rtlil"]),
        "simulations": len(names["sim"]), "build_plans": len(names["plan"]),
        "observe_events": sum(len(h["events"]) for h in hs), "rejected_histories": sum(v[0] == "REJ" for v in verdicts)})
    ctx.sample({"history": meta[0]["family"] + ":" + meta[0]["name"], "events": hs[0]["events"][:5]})
    k = next(i for i, m in enumerate(meta) if m["family"] == "sim")
    ctx.sample({"history": "sim:" + meta[k]["name"], "events": hs[k]["events"][:10]})
    k = next(i for i, m in enumerate(meta) if m["family"] == "plan")
    ctx.sample({"history": "plan:" + meta[k]["name"], "events": hs[k]["events"][:11]})

    # ---------------- binding demonstration: corrupted histories must be rejected --------------------------------
    from .. import tracecheck
    bad = []
    want = []
    big = 1 << 20
    for fam, kind, clause in (("rtlil", "rtlil", "rtlil_differs"), ("sim", "post_reset_state", "reset_does_not_restore_initial_state"),
                              ("sim", "sim_trace", "sim_trace_differs"), ("plan", "extract_listing", "extract_differs_from_planned_files"),
                              ("plan", "archive_bytes", "archive_bytes_differs")):
        src = next((h for h, m, v in zip(hs, meta, verdicts) if m["family"] == fam and v[0] == "ACC"
                    and any(e["kind"] == kind for e in h["events"])), None)
        if src is None:
            continue
        ev = [dict(e) for e in src["events"]]
        idx = [i for i, e in enumerate(ev) if e["kind"] == kind]
        if kind in ("post_reset_state", "extract_listing"):        # a producer that is consistently wrong
            for i in idx:
                ev[i]["digest"] = big
        else:                                                      # one observation differs
            ev[idx[len(idx) // 2]]["digest"] = big
        bad.append({"events": ev})
        want.append(clause)
    if len(bad) < 3 and not ctx.violations and not ctx.known_hits:
        raise MachineryError("binding demo: not enough accepted histories to corrupt (%d)" % len(bad))
    if bad:
        vs = tracecheck.validate(ctx, "ReproTrace", bad, "binding-demo", cfg=CFG_TRACE, count_states=False)
        ctx.cov["traces_validated_against_impl"] -= len(bad)
        for v, w in zip(vs, want):
            if v[0] != "REJ" or not str(v[2]).startswith(w):
                raise MachineryError("binding demo: corrupted history not rejected as %s: %r" % (w, v))
        ctx.cov["stages"]["binding-demo/validate"]["corrupted_rejected"] = [list(map(str, v)) for v in vs]

    ctx.cov["exhaustive"] = False
    ctx.cov["rule"] = ("case = one Observe event = (design, artefact kind, interpreter, phase); all distinct.  RTLIL: %d catalogue designs + %d "
                       "seeded random designs x %d interpreters x {first, same object again, rebuilt}; simulations: %d x %d interpreters x "
                       "{fresh, fresh again, reset+rerun, partial run+reset+rerun}; build plans: %d x %d interpreters"
                       % (len(CATALOGUE), n_gen, len(seeds), len(SIMS), len(seeds), len(PLANS), len(seeds)))
    ctx.assume("RTLIL `src` attributes are part of the compared bytes: every interpreter builds the designs from the same source file")
    ctx.assume("the state right after reset() is read through private attributes of the Python engine (slots, timeline); "
               "the testbench view at time 0 is compared in addition (public API)")
    ctx.assume("observations made inside user processes are not compared (spurious wake-ups are documented as unspecified); "
               "processes only drive signals, testbenches observe")
    ctx.assume("wall-clock independence of archive() is probed by shifting time.time() by three days inside one interpreter "
               "and by the different start times of the interpreters")


def replay(ctx, rep):
    r = rep["replay"]
    fam, name, seeds = r["family"], r["name"], r["seeds"]
    names = {"rtlil": [], "sim": [], "plan": []}
    names[fam] = [name]
    results = run_children(ctx, seeds, dict(names, model=[]), "replay")
    hs, meta, verdicts = judge(ctx, results, seeds, names, "replay")
    print("replay verdict:", verdicts[0])
    for e, raw in zip(hs[0]["events"], meta[0]["raw"]):
        print("  Observe(<<%s, %s>>, interpreter %d seed %s %s) = %s" % (name, e["kind"], e["proc"], e["seed"], e["phase"], raw[4][:16]))
    import shutil
    if verdicts[0][0] == "REJ":
        print(ctx.violations[0][1] if ctx.violations else "(known finding)")
        print("VIOLATION property=C09 replay=(same)")
        shutil.rmtree(ctx.tmp, ignore_errors=True)
        return 1
    shutil.rmtree(ctx.tmp, ignore_errors=True)
    return 0
