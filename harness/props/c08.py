"""C08 — simulation results do not depend on process scheduling order; testbench/timing semantics.

spec:   AmSim (kernel: TbStep / AdvanceTime / RunProc(any ready process) / Commit / Converged), MC_AmSim (scripts).
stages: mc      every design of the family (all truth tables of 3 processes x initial register value) x scripts x
                EVERY order of running the ready processes: ScheduleIndependent, SetReturnsSettled, NoTimeTravel;
                the unique observation sequence of each (design, script) is printed by TLC at the end of the script
        mutant  processes reading queued values must violate ScheduleIndependent
        replay  each (design, script) is run on the real simulator under seeded permutations of the ready-process set
                and of the active-trigger set, as RTL fragments and with two fragments replaced by user processes
                (guide patterns); every run must reproduce TLC's observation sequence (values, tick samples and
                elapsed femtoseconds)"""
import os

from ..common import pmap, MachineryError
from .. import sim_replay, tlaval

LEVEL = "model_checking"

CFG = """SPECIFICATION Spec
CONSTANTS ScriptSets <- {scripts}
 Fns <- {fns}
 SyncFns <- {sfns}
 Period = {period}
 Phase = {phase}
 InitVals = {{0, 1}}
 Mutant = "{mutant}"
INVARIANT ScheduleIndependent
INVARIANT SetReturnsSettled
INVARIANT ClockTimes
INVARIANT TbOrder
PROPERTY NoTimeTravel
CONSTRAINT TimeBound
CHECK_DEADLOCK FALSE
"""


def run(ctx):
    th = ctx.thorough
    # (period, phase); the phase may exceed the period: the first toggle is at the phase, whatever its size
    # a phase of 0: the first edges of both clock domains fall on t = 0, the instant the testbenches start at
    clocks = [(10, 5), (14, 0), (6, 13), (14, 3), (6, 6), (4, 9)] if th else [(10, 5), (14, 0), (6, 13)]
    n_perm = 8 if th else 3
    total = 0
    for (period, phase) in clocks:
        full = (period, phase) == clocks[0]
        r = ctx.tlc("MC_AmSim", stage="mc/kernel-p%d-ph%d" % (period, phase),
                    cfg_text=CFG.format(scripts=os.environ.get("VERIF_C08_SETS") or ("AllScriptSets" if th else "QuickScriptSets"), fns="CombFns" if (full or th) else "FewFns", sfns="SyncFnsAll" if (full and th) else "SyncFnsFew", period=period, phase=phase, mutant=""),
                    workers=16, args=("-coverage", "1"), timeout=3000)
        ctx.require_actions(r, ["TbStep", "TbIdle", "AdvanceTime", "RunProc", "Commit", "Converged"])
        done = {}
        for txt in r.printed():
            if '"DONE"' not in txt[:12]:
                continue
            v = tlaval.parse(txt)
            key = (tuple(sorted(v[1].items())), v[2])
            if key in done and done[key] != v[3]:
                raise MachineryError("AmSim predicts two different observation sequences for one design and script")
            done[key] = v[3]
        if not done:
            raise MachineryError("no DONE lines printed by TLC")
        ctx.cov["stages"]["mc/kernel-p%d-ph%d" % (period, phase)]["designs_x_scripts"] = len(done)
        keys = sorted(done)
        if not th and len(keys) > 3000:
            keys = ctx.rng.sample(keys, 3000)
        jobs = []
        for key in keys:
            fn = dict(key[0])
            seeds = [ctx.rng.getrandbits(32) for _ in range(n_perm)]
            jobs.append((fn, key[1], done[key], period, phase, [None] + seeds, ("rtl", "proc")))
        res = pmap(sim_replay.replay_case, jobs, chunksize=16)
        for job, mm in zip(jobs, res):
            ctx.case((tuple(sorted(job[0].items())), job[1], period, phase))
            total += 1
            for m in mm:
                key = {"variant": m["variant"], "permuted": m["perm_seed"] is not None,
                       "testbenches": len(m["script"]),
                       "kind": m["actual"][m["first_difference_at"]][1] if m["first_difference_at"] < len(m["actual"]) else "missing"}
                ctx.violation(key, "design %s (%s), period %d phase %d, process order seed %s: observation %d differs: expected %s, got %s"
                              % (m["fn"], m["variant"], period, phase, m["perm_seed"], m["first_difference_at"],
                                 m["expected"][m["first_difference_at"]:m["first_difference_at"] + 1],
                                 m["actual"][m["first_difference_at"]:m["first_difference_at"] + 1]),
                              replay={**m, "period": period, "phase": phase})
        ctx.sample({"design": jobs[0][0], "period_fs": period, "phase_fs": phase, "script": [list(o) for o in jobs[0][1]],
                    "observations": [list(o) for o in jobs[0][2]], "runs": "unpermuted + %d seeded permutations x {rtl, proc}" % n_perm})
    ctx.cov["traces_validated_against_impl"] += total * (n_perm + 1) * 2
    ctx.tlc("MC_AmSim", stage="mc/mutant-read-pending",
            cfg_text=CFG.format(scripts="OneScriptSet", fns="FewFns", sfns="SyncFnsFew", period=10, phase=5, mutant="read_pending"),
            workers=4, expect_violation="ScheduleIndependent")
    ctx.tlc("MC_AmSim", stage="mc/mutant-reverse-tb",
            cfg_text=CFG.format(scripts="TwoTbSets", fns="FewFns", sfns="SyncFnsFew", period=10, phase=5, mutant="reverse_tb"),
            workers=4, expect_violation="TbOrder")
    ctx.cov["exhaustive"] = False
    ctx.cov["rule"] = ("case = (design = truth tables of the 3 processes + initial register value, script, clock period/phase); "
                       "each replayed unpermuted and under seeded permutations of the ready-process and trigger sets, as RTL and "
                       "with user processes; all distinct")
    ctx.assume("Print ordering across fragments, number of spurious wake-ups and user processes sharing Python state are excluded (documented as order dependent)")
    ctx.assume("the design family has 4 kernel processes (2 comb fragments, 1 sync fragment, 1 clock generator) and one testbench")


def replay(ctx, rep):
    m = rep["replay"]
    got = sim_replay.run(m["fn"], [[tuple(o) for o in sc] for sc in m["script"]], m["period"], m["phase"], variant=m["variant"], perm_seed=m["perm_seed"], unit=m.get("time_unit", "fs"))
    print("expected:", m["expected"])
    print("actual:  ", [list(o) for o in got])
    if [list(o) for o in got] != m["expected"]:
        print("VIOLATION property=C08 replay=(same)")
        return 1
    return 0
