"""Shared machinery for all checks: context, verdicts, known findings, evidence, process pool."""
import hashlib
import json
import multiprocessing
import os
import random
import shutil
import sys
import time
import traceback

VERIF = os.path.dirname(os.path.dirname(os.path.abspath(__file__)))
REPO = os.environ.get("VERIF_REPO", "/repo")
if REPO not in sys.path:
    sys.path.insert(0, REPO)

from . import tlc as _tlc  # noqa: E402


class MachineryError(Exception):
    pass


def load_findings():
    p = os.path.join(VERIF, "known_findings.json")
    if not os.path.exists(p):
        return {"known": [], "fixed": []}
    return json.load(open(p))


def _match(entry, prop, key):
    if entry.get("property") != prop:
        return False
    for k, v in entry.get("match", {}).items():
        if key.get(k) != v:
            return False
    return True


class Ctx:
    def __init__(self, prop, tier, seed, level):
        self.prop = prop
        self.tier = tier
        self.thorough = tier == "thorough"
        self.seed = seed
        self.level = level
        self.rng = random.Random(seed)
        self.t0 = time.time()
        self.tmp = _tlc.scratch("verif.%s." % prop)
        shutil.copytree(_tlc.SPEC, os.path.join(self.tmp, "spec"),
                        ignore=shutil.ignore_patterns("states", "*.old", "*_TTrace_*"))
        self.violations = []      # (key, description, replay)
        self.known_hits = {}      # finding id -> count
        self.cov = {"states": 0, "transitions": 0, "traces_validated_against_impl": 0,
                    "evaluations": 0, "distinct_nontrivial": 0, "samples": [], "stages": {}}
        self.assumptions = []
        self._findings = load_findings()
        self._distinct = set()
        self.notes = []

    # ---- TLC -----------------------------------------------------------------------------
    def tlc(self, module, stage=None, count=True, expect_violation=None, **kw):
        """Run TLC; accumulate state counts. A violated invariant on the *model* is a machinery/spec
        failure (the spec must satisfy its own properties), unless expect_violation names it
        (mutant configurations used to show non-vacuity)."""
        kw.setdefault("workdir", self.tmp)
        r = _tlc.run(module, **kw)
        st = self.cov["stages"].setdefault(stage or module, {})
        st.update({"tlc_states": r.distinct, "tlc_generated": r.generated, "tlc_wall_s": round(r.wall, 2)})
        if r.coverage:
            st["actions"] = {k: v[1] for k, v in r.coverage.items()}
        if expect_violation is not None:
            if r.violated != expect_violation:
                raise MachineryError("mutant model %s: expected violation of %s, got %r\n%s" %
                                     (module, expect_violation, r.violated, r.out[-2000:]))
            st["mutant_violates"] = expect_violation
            return r
        if r.violated is not None:
            raise MachineryError("the specification %s violates its own property %s:\n%s" %
                                 (module, r.violated, r.out[-6000:]))
        if count:
            self.cov["states"] += r.distinct
            self.cov["transitions"] += r.generated
        return r

    def require_actions(self, r, names, stage=""):
        """Vacuity guard: every named action must have fired at least once (needs -coverage 1)."""
        for n in names:
            if r.coverage.get(n, (0, 0))[1] == 0:
                raise MachineryError("vacuous model run %s: action %s never taken (coverage=%r)" %
                                     (stage, n, r.coverage))

    # ---- verdicts ------------------------------------------------------------------------
    def violation(self, key, desc, replay=None):
        """Report that the real code breaks the property on a specific input (key: dict)."""
        for e in self._findings.get("known", []):
            if _match(e, self.prop, key):
                self.known_hits.setdefault(e["id"], [e, 0])[1] += 1
                return "known"
        if len(self.violations) < 50:
            self.violations.append((key, desc, replay))
        else:
            self.violations.append((key, None, None))
        return "violation"

    def case(self, fingerprint, nontrivial=True):
        self.cov["evaluations"] += 1
        if nontrivial:
            h = fingerprint if isinstance(fingerprint, (int, str)) else repr(fingerprint)
            if len(self._distinct) < 2_000_000:
                self._distinct.add(hash(h))

    def add_cases(self, evaluations, distinct):
        self.cov["evaluations"] += evaluations
        self.cov["_extra_distinct"] = self.cov.get("_extra_distinct", 0) + distinct

    def sample(self, s):
        if len(self.cov["samples"]) < 6:
            self.cov["samples"].append(s)

    def assume(self, s):
        if s not in self.assumptions:
            self.assumptions.append(s)

    # ---- finishing -----------------------------------------------------------------------
    def finish(self):
        cov = self.cov
        cov["distinct_nontrivial"] = len(self._distinct) + cov.pop("_extra_distinct", 0)
        if not cov["samples"]:
            cov["samples"] = ["(none recorded)"]
        ev = {
            "property_id": self.prop, "tier": self.tier, "seed": self.seed, "level": self.level,
            "coverage": cov, "assumptions": self.assumptions,
            "wall_s": round(time.time() - self.t0, 2), "violations": len(self.violations),
        }
        if self.known_hits:
            ev["known_findings_hit"] = {k: v[1] for k, v in self.known_hits.items()}
        if self.notes:
            ev["notes"] = self.notes
        os.makedirs(os.path.join(VERIF, "evidence"), exist_ok=True)
        with open(os.path.join(VERIF, "evidence", self.prop + ".json"), "w") as f:
            json.dump(ev, f, indent=1, default=_jd)
            f.write("\n")
        for fid, (e, n) in sorted(self.known_hits.items()):
            print("KNOWN-FINDING: property=%s %s [%s; %d occurrence(s) this run]" % (self.prop, e["what"], fid, n))
        rc = 0
        if self.violations:
            rdir = os.path.join(VERIF, "replays")
            os.makedirs(rdir, exist_ok=True)
            shown = 0
            seen = set()
            for key, desc, replay in self.violations:
                if desc is None:
                    continue
                h = hashlib.sha1(json.dumps(key, sort_keys=True, default=_jd).encode()).hexdigest()[:10]
                if h in seen:
                    continue
                seen.add(h)
                path = os.path.join(rdir, "%s_%s.json" % (self.prop, h))
                with open(path, "w") as f:
                    json.dump({"property": self.prop, "key": key, "description": desc, "replay": replay},
                              f, indent=1, default=_jd)
                if shown < 10:
                    print("VIOLATION property=%s replay=%s" % (self.prop, path))
                    print("  " + desc.replace("\n", "\n  ")[:1500])
                    shown += 1
            print("%s: %d violation(s)" % (self.prop, len(self.violations)))
            rc = 1
        else:
            print("%s: OK tier=%s states=%d transitions=%d impl_traces=%d evaluations=%d distinct=%d wall=%.1fs" % (
                self.prop, self.tier, cov["states"], cov["transitions"], cov["traces_validated_against_impl"],
                cov["evaluations"], cov["distinct_nontrivial"], time.time() - self.t0))
        shutil.rmtree(self.tmp, ignore_errors=True)
        return rc


def _jd(o):
    if isinstance(o, (set, frozenset)):
        return sorted(o, key=repr)
    if isinstance(o, range):
        return list(o)
    if isinstance(o, bytes):
        return o.hex()
    return repr(o)


# ---- process pool --------------------------------------------------------------------------
class _ItemTimeout(Exception):
    pass


def _item_timeout(signum, frame):
    raise _ItemTimeout("work item still running after %s s (hanging implementation or harness?)" % ITEM_TIMEOUT)


ITEM_TIMEOUT = int(os.environ.get("VERIF_ITEM_TIMEOUT", "3000"))


def _wrap(args):
    fn, a = args
    import signal
    armed = False
    try:
        # no work item of any check legitimately runs this long; never wait forever on a looping implementation
        if not signal.getsignal(signal.SIGALRM) or signal.getsignal(signal.SIGALRM) is signal.SIG_DFL:
            signal.signal(signal.SIGALRM, _item_timeout)
            signal.alarm(ITEM_TIMEOUT)
            armed = True
        return ("ok", fn(a))
    except Exception:
        return ("err", traceback.format_exc())
    finally:
        if armed:
            signal.alarm(0)
            signal.signal(signal.SIGALRM, signal.SIG_DFL)


def _worker_init():
    # `check` installs a Python-level SIGTERM handler (scratch cleanup); a pool worker must die at once when its pool
    # terminates it - a Python-level handler is only run at the next bytecode and can be missed while blocked in a lock
    import signal
    signal.signal(signal.SIGTERM, signal.SIG_DFL)


def make_pool(procs=None):
    """A worker pool forked NOW.  A check that runs helper threads (TLC runs in a ThreadPoolExecutor) creates its pool
    before starting them and hands it to pmap(pool=...): forking a multi-threaded process can deadlock the child."""
    ctx = multiprocessing.get_context("fork")
    return ctx.Pool(procs or (os.cpu_count() or 4), initializer=_worker_init)


def pmap(fn, items, procs=None, chunksize=1, pool=None):
    """Map fn over items in forked worker processes; machinery exceptions are re-raised."""
    items = list(items)
    if not items:
        return []
    procs = procs or min(len(items), os.cpu_count() or 4)
    if pool is not None and not os.environ.get("VERIF_SERIAL"):
        res = pool.map(_wrap, [(fn, a) for a in items], chunksize=chunksize)
    elif procs <= 1 or os.environ.get("VERIF_SERIAL"):
        res = [_wrap((fn, a)) for a in items]
    else:
        ctx = multiprocessing.get_context("fork")
        with ctx.Pool(procs, initializer=_worker_init) as pool:
            res = pool.map(_wrap, [(fn, a) for a in items], chunksize=chunksize)
    out = []
    for st, v in res:
        if st == "err":
            raise MachineryError("worker failed:\n" + v)
        out.append(v)
    return out


def chunks(seq, n):
    seq = list(seq)
    return [seq[i:i + n] for i in range(0, len(seq), n)]
