"""Run TLC on a specification in /verif/spec and collect its statistics."""
import os
import re
import shutil
import subprocess
import tempfile
import time

VERIF = os.path.dirname(os.path.dirname(os.path.abspath(__file__)))
SPEC = os.path.join(VERIF, "spec")
JAR = "/opt/veriftools/tla/tla2tools.jar:/opt/veriftools/tla/CommunityModules-deps.jar"


class TlcError(Exception):
    """Machinery failure (TLC crashed, spec error, timeout) -> exit code 2."""


class TlcResult:
    def __init__(self, out, rc, wall):
        self.out = out
        self.rc = rc
        self.wall = wall
        self.generated = 0
        self.distinct = 0
        self.violated = None      # name of violated invariant / property, or None
        self.coverage = {}        # action name -> (distinct, total)
        m = None
        for m in re.finditer(r"(\d+) states generated, (\d+) distinct states found", out):
            pass
        if m:
            self.generated = int(m.group(1))
            self.distinct = int(m.group(2))
        m = re.search(r"Invariant (\S+) is violated", out)
        if m:
            self.violated = m.group(1)
        m2 = re.search(r"Action property (\S+) is violated|Temporal properties were violated|line \d+.*is violated", out)
        if m2 and not self.violated:
            self.violated = m2.group(1) or "temporal"
        if "Deadlock reached" in out and not self.violated:
            self.violated = "Deadlock"
        if "The postcondition has failed" in out or "Postcondition" in out and "violated" in out:
            self.violated = self.violated or "POSTCONDITION"
        for m in re.finditer(r"<(\w+) line \d+, col \d+ to line \d+, col \d+ of module \w+[^>]*>: (\d+):(\d+)", out):
            name = m.group(1)
            d, t = int(m.group(2)), int(m.group(3))
            pd, pt = self.coverage.get(name, (0, 0))
            self.coverage[name] = (pd + d, pt + t)

    @property
    def ok(self):
        return self.rc == 0 and self.violated is None

    def printed(self):
        """Values printed with PrintT / Print, one TLA+ value text per entry (bracket matched)."""
        return _printed_values(self.out)


def _printed_values(out):
    vals = []
    lines = out.split("\n")
    i = 0
    n = len(lines)
    while i < n:
        ln = lines[i]
        if ln.startswith("<<") or ln.startswith("[") or ln.startswith('"') or ln.startswith("{") or ln.startswith("("):
            buf = ln
            while _depth(buf) > 0 and i + 1 < n:
                i += 1
                buf += "\n" + lines[i]
            vals.append(buf)
        i += 1
    return vals


def _depth(s):
    d = 0
    instr = False
    j = 0
    while j < len(s):
        c = s[j]
        if instr:
            if c == "\\":
                j += 1
            elif c == '"':
                instr = False
        else:
            if c == '"':
                instr = True
            elif s.startswith("<<", j):
                d += 1
                j += 1
            elif s.startswith(">>", j):
                d -= 1
                j += 1
            elif c in "[{(":
                d += 1
            elif c in "]})":
                d -= 1
        j += 1
    return d


def scratch(prefix="verif."):
    return tempfile.mkdtemp(prefix=prefix, dir=os.environ.get("VERIF_TMP", "/tmp"))


def run(module, cfg_text=None, cfg_file=None, workdir=None, workers=None, args=(), env=None,
        timeout=1800, extra_files=None, heap="8g", deque=False, check=True):
    """Run TLC on spec/<module>.tla. The spec directory is copied into workdir (so generated files
    and metadirs never land in /verif). Returns TlcResult. Raises TlcError on machinery failure."""
    own = workdir is None
    if own:
        workdir = scratch()
    sd = os.path.join(workdir, "spec")
    if not os.path.isdir(sd):
        shutil.copytree(SPEC, sd, ignore=shutil.ignore_patterns("states", "*.old", "*_TTrace_*"))
    for name, text in (extra_files or {}).items():
        with open(os.path.join(sd, name), "w") as f:
            f.write(text)
    if cfg_text is not None:
        cfg_file = tempfile.mkstemp(prefix=module + "_", suffix=".cfg", dir=sd)[1]
        with open(cfg_file, "w") as f:
            f.write(cfg_text)
    elif cfg_file is not None and not os.path.isabs(cfg_file):
        cfg_file = os.path.join(sd, cfg_file)
    meta = tempfile.mkdtemp(prefix="meta.", dir=workdir)
    if workers is None:
        workers = os.cpu_count() or 4
    jopts = ["-XX:+UseSerialGC" if workers <= 4 else "-XX:+UseParallelGC", "-Xmx" + heap, "-XX:TieredStopAtLevel=1"
             ] if workers <= 2 else ["-XX:+UseParallelGC", "-XX:ParallelGCThreads=%d" % min(8, workers), "-Xmx" + heap]
    jopts.append("-Xss256m")     # recursive operators over netlists / traces need a deep Java stack
    jopts.append("-Djava.io.tmpdir=" + meta)      # TLC's own temporary directories go with the scratch directory
    if deque:
        jopts.append("-Dtlc2.tool.queue.IStateQueue=StateDeque")
    cmd = ["java"] + jopts + ["-cp", JAR, "tlc2.TLC", "-metadir", meta, "-noGenerateSpecTE"]
    cmd += ["-workers", str(workers)]
    if cfg_file:
        cmd += ["-config", cfg_file]
    cmd += list(args)
    cmd += [module + ".tla"]
    e = dict(os.environ)
    e.pop("JAVA_TOOL_OPTIONS", None)
    if env:
        e.update({k: str(v) for k, v in env.items()})
    t0 = time.time()
    try:
        p = subprocess.run(cmd, cwd=sd, env=e, stdout=subprocess.PIPE, stderr=subprocess.STDOUT,
                           timeout=timeout, text=True, errors="replace")
    except subprocess.TimeoutExpired as ex:
        subprocess.run(["pkill", "-f", meta], check=False)
        raise TlcError("TLC timeout after %ss on %s" % (timeout, module))
    finally:
        shutil.rmtree(meta, ignore_errors=True)
    res = TlcResult(p.stdout, p.returncode, time.time() - t0)
    if check:
        bad = None
        for pat in ("Parsing or semantic analysis failed", "TLC threw an unexpected exception",
                    "Error: The spec", "java.lang.OutOfMemoryError", "was not found", "Unknown operator",
                    "Error: TLC threw", "Error: Evaluating", "Error: In evaluation", "The exception was a",
                    "Error: Attempted to", "Error: The first argument", "Error: The second argument"):
            if pat in p.stdout:
                bad = pat
                break
        if bad or (p.returncode not in (0, 12, 13) and res.violated is None):
            first = p.stdout.find("Error:")
            head = p.stdout[first:first + 800] + "\n...\n" if 0 <= first < len(p.stdout) - 4000 else ""
            raise TlcError("TLC failed on %s (rc=%s, %s):\n%s%s" % (module, p.returncode, bad, head, p.stdout[-4000:]))
    if own:
        res.workdir = None
        shutil.rmtree(workdir, ignore_errors=True)
    else:
        res.workdir = workdir
    return res


def sany(module):
    p = subprocess.run(["java", "-cp", JAR, "tla2sany.SANY", module + ".tla"], cwd=SPEC,
                       stdout=subprocess.PIPE, stderr=subprocess.STDOUT, text=True)
    ok = p.returncode == 0 and "Semantic errors" not in p.stdout and "Parse Error" not in p.stdout \
        and "Fatal errors" not in p.stdout and "*** Errors" not in p.stdout
    return ok, p.stdout
