"""Replay of AmSim behaviours on the real simulator under permuted process scheduling orders (C08).

The design family is the one of spec/AmSim.tla: x = F1(a,b), y = F2(x,b) (comb), r <= F3(y,a) at posedge clk, with the
three functions given as 4-entry truth tables; variant "rtl" builds all three as separate fragments, variant "proc"
replaces F2 and F3 by user processes written exactly as the simulator guide describes (changed() / tick().sample())."""
import random

from amaranth.hdl import Signal, Const, Cat, Module, ClockDomain, Period, signed
from amaranth.sim import Simulator


def tt(t, i, j):
    return (t >> (i + 2 * j)) & 1


class ShuffledSet(set):
    """A set whose iteration order is a seeded random permutation, different on every iteration."""
    rng = None

    def __iter__(self):
        items = list(set.__iter__(self))
        items.sort(key=id)
        self.rng.shuffle(items)
        return iter(items)


UNITS = {"fs": 1, "ps": 1000, "ns": 1000000, "us": 1000000000}


def run(fn, script, period, phase, variant="rtl", perm_seed=None, reset_midway=False, unit="fs"):
    """Returns the observation list in the format of AmSim's `obs`.  AmSim's time unit is rendered as one `unit`
    (every Period is built as Period(<unit>=n) and observed times are divided back), so the exactness of simulated
    time is exercised at the magnitudes of real designs too."""
    K = UNITS[unit]

    def P(n):
        return Period(**{unit: n})

    def T(ctx):
        fs = ctx.elapsed_time().femtoseconds
        return fs // K if fs % K == 0 else fs / K
    f1, f2, f3, f4, r0, q0 = fn["P1"], fn["P2"], fn["P3"], fn["P4"], fn["R0"], fn["Q0"]
    x0 = tt(f1, 0, 0)
    y0 = tt(f2, x0, 0)
    a = Signal(name="a")
    b = Signal(name="b")
    x = Signal(name="x", init=x0)
    y = Signal(name="y", init=y0)
    r = Signal(name="r", init=r0)
    q = Signal(name="q", init=q0)
    m = Module()
    m.domains.sync = cd = ClockDomain("sync")
    m1 = Module()
    m1.d.comb += x.eq(Const(f1, 4).bit_select(Cat(a, b), 1))
    m.submodules.m1 = m1
    if variant == "rtl":
        m2 = Module()
        m2.d.comb += y.eq(Const(f2, 4).bit_select(Cat(x, b), 1))
        m.submodules.m2 = m2
        m3 = Module()
        m3.d.sync += r.eq(Const(f3, 4).bit_select(Cat(y, q), 1))
        m.submodules.m3 = m3
    m4 = Module()
    m4.d.sync += q.eq(Const(f4, 4).bit_select(Cat(r, a), 1))
    m.submodules.m4 = m4
    # derived state (AmSim!Val): one register whose two bits are driven by two different fragments, and a memory row
    # with two write ports in two clock domains whose edges coincide; both mirror (r, q)
    from amaranth.lib.memory import Memory
    m.domains.sync2 = ClockDomain("sync2")
    # (signed: its value is stored sign-extended, and each of the two fragments updates one bit of it)
    rq = Signal(signed(2), name="rq", init=r0 + 2 * q0 - (4 if q0 else 0))
    nr = Const(f3, 4).bit_select(Cat(y, q), 1)
    nq = Const(f4, 4).bit_select(Cat(r, a), 1)
    m5 = Module()
    m5.d.sync += rq[0].eq(nr)
    m.submodules.m5 = m5
    m6 = Module()
    m6.d.sync += rq[1].eq(nq)
    m.submodules.m6 = m6
    # one signed combinational signal whose bits are driven by two fragments (AmSim!Val("xy") = x + 2 * y)
    xy = Signal(signed(2), name="xy", init=x0 + 2 * y0 - (4 if y0 else 0))
    m7 = Module()
    m7.d.comb += xy[0].eq(Const(f1, 4).bit_select(Cat(a, b), 1))
    m.submodules.m7 = m7
    m8 = Module()
    m8.d.comb += xy[1].eq(Const(f2, 4).bit_select(Cat(x, b), 1))      # (reads x, not xy: it is not woken by changes of xy)
    m.submodules.m8 = m8
    mem = Memory(shape=2, depth=2, init=[r0 + 2 * q0])
    m.submodules.mem = mem
    w1 = mem.write_port(domain="sync", granularity=1)
    w2 = mem.write_port(domain="sync2", granularity=1)
    m.d.comb += [w1.addr.eq(0), w1.data.eq(Cat(nr, 0)), w1.en.eq(1),
                 w2.addr.eq(0), w2.data.eq(Cat(0, nq)), w2.en.eq(2)]
    sim = Simulator(m)
    sim.add_clock(P(period), phase=P(phase))
    sim.add_clock(P(period), phase=P(phase), domain="sync2")
    if variant == "proc":
        async def p2(ctx):
            async for xv, bv in ctx.changed(x, b):
                ctx.set(y, tt(f2, xv, bv))

        async def p3(ctx):
            async for clk_edge, rst_v, yv, qv in ctx.tick().sample(y, q):
                if rst_v:
                    ctx.set(r, r0)
                elif clk_edge:
                    ctx.set(r, tt(f3, yv, qv))
        sim.add_process(p2)
        sim.add_process(p3)
    sigs = {"a": a, "b": b, "x": x, "y": y, "r": r, "q": q, "rq": rq, "mem": mem.data[0], "xy": xy}
    obs = []

    def make_tb(idx, ops):
        async def tb(ctx):
            for op in ops:
                k = op[0]
                if k == "set":
                    ctx.set(sigs[op[1]], op[2])
                elif k == "get":
                    v = ctx.get(sigs[op[1]])
                    if op[1] in ("rq", "xy"):      # the model speaks of the bit pattern; anything but the canonical signed value is reported as is
                        v = v & 3 if -2 <= v <= 1 else ("not a value of signed(2)", v)
                    obs.append((idx, "get", op[1], v))
                elif k == "time":
                    obs.append((idx, "time", T(ctx)))
                elif k == "tick":
                    _, _, yv, rv, qv = await ctx.tick().sample(y, r, q)
                    obs.append((idx, "tick", T(ctx), yv, rv, qv))
                elif k == "repeat":
                    yv, rv, qv = await ctx.tick().sample(y, r, q).repeat(op[1])
                    obs.append((idx, "tick", T(ctx), yv, rv, qv))
                elif k == "until":
                    yv, rv, qv = await ctx.tick().sample(y, r, q).until(sigs[op[1]])
                    obs.append((idx, "tick", T(ctx), yv, rv, qv))
                elif k == "delay":
                    await ctx.delay(P(op[1]))
                elif k == "changed":
                    await ctx.changed(sigs[op[1]])
                    obs.append((idx, "fired", T(ctx), op[1], ctx.get(sigs[op[1]])))
                elif k == "edge":
                    await ctx.edge(sigs[op[1]], op[2])
                    obs.append((idx, "fired", T(ctx), op[1], ctx.get(sigs[op[1]])))
        return tb

    # `script` is a tuple of scripts: one testbench each, added in this order
    for idx, ops in enumerate(script):
        sim.add_testbench(make_tb(idx + 1, ops))
    if perm_seed is not None:
        eng = sim._engine
        rng = random.Random(perm_seed)
        procs = ShuffledSet(eng._processes)
        procs.rng = rng
        eng._processes = procs
        trigs = ShuffledSet(eng._active_triggers)
        trigs.rng = rng
        eng._active_triggers = trigs
    sim.run()
    return obs


class Hang(Exception):
    pass


_HANGS = [0]


class watchdog:
    """A simulation that does not finish within `seconds` is an observation too (the model's behaviours are finite)."""
    def __init__(self, seconds):
        self.seconds = seconds

    def _fire(self, signum, frame):
        raise Hang("simulation still running after %d CPU seconds" % self.seconds)

    # CPU seconds of this process (ITIMER_PROF), not wall-clock: a starved process on a loaded machine is not a hang
    def __enter__(self):
        import signal
        self.old = signal.signal(signal.SIGPROF, self._fire)
        signal.setitimer(signal.ITIMER_PROF, self.seconds)

    def __exit__(self, *exc):
        import signal
        signal.setitimer(signal.ITIMER_PROF, 0)
        signal.signal(signal.SIGPROF, self.old)
        return False


def replay_case(job):
    fn, script, expected, period, phase, seeds, variants = job
    out = []
    for variant in variants:
        for seed in seeds:
            unit = ("fs", "ps", "ns", "us")[(seed or 0) % 4]
            if _HANGS[0] >= 2:           # this worker has already reported hanging simulations: do not wait for more
                return out
            try:
                with watchdog(20):
                    got = run(fn, script, period, phase, variant=variant, perm_seed=seed, unit=unit)
            except Hang as e:
                _HANGS[0] += 1
                got = [("exception", "Hang", str(e))]
            except Exception as e:
                got = [("exception", type(e).__name__, str(e)[:200])]
            if [tuple(o) for o in got] != [tuple(o) for o in expected]:
                first = next((i for i, (g, e) in enumerate(zip(got, expected)) if tuple(g) != tuple(e)), min(len(got), len(expected)))
                out.append({"fn": fn, "variant": variant, "perm_seed": seed, "time_unit": unit, "first_difference_at": first,
                            "expected": [list(o) for o in expected], "actual": [list(o) for o in got], "script": [[list(o) for o in sc] for sc in script]})
                break
    return out
