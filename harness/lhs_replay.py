"""C05 write side: replay of AmLhsCases (TLC-enumerated testbench writes) with ctx.set on the real simulator."""
import os

from .common import pmap, MachineryError
from . import expr_replay

CFG = """SPECIFICATION Spec
CONSTANTS Written <- WrittenQ
INVARIANT InRange
INVARIANT Frame
INVARIANT WriteBackIdentity
CHECK_DEADLOCK FALSE
"""


def _worker(job):
    from amaranth.hdl import Signal, Module, signed, unsigned
    from amaranth.sim import Simulator
    from . import stmt_replay
    path, lo, hi, storage = job
    cases = [st["c"] for st in expr_replay.iter_states_range(path, lo, hi)]
    out = {"n": len(cases), "mism": [], "fps": [], "sample": None}
    if not cases:
        return out
    inp = stmt_replay.Inputs()
    m = Module()
    dummy = Signal()
    if storage == "signal":
        sigs = {i: Signal(stmt_replay.SIG_SHAPES[i], name="s%d" % i) for i in (1, 2, 3)}
        m.d.comb += dummy.eq(inp.a[0] ^ sigs[1][0])
    else:
        # the same three storage elements as rows of simulated memories (row 1 of a 2-row memory each); rows are
        # assignable values for a testbench exactly like signals
        from amaranth.lib.memory import Memory
        sigs = {}
        for i in (1, 2, 3):
            mem = Memory(shape=stmt_replay.SIG_SHAPES[i], depth=2, init=[])
            m.submodules["mem%d" % i] = mem
            rp = mem.read_port(domain="comb")
            m.d.comb += rp.addr.eq(inp.a[0])
            sigs[i] = mem.data[1]
        m.d.comb += dummy.eq(inp.a[0])
    sim = Simulator(m)

    async def tb(ctx):
        for c in cases:
            r = "%s%s := %d  (a=%d, before=%s)" % ("" if storage == "signal" else "[memory rows] ", stmt_replay.render_target(c["t"]), c["v"], c["a"], list(c["st"]))
            out["fps"].append(hash(r))
            for i in (1, 2, 3):
                ctx.set(sigs[i], c["st"][i - 1])
            ctx.set(inp.a, c["a"])
            try:
                tgt = stmt_replay.target(c["t"], sigs, inp)
                ctx.set(tgt, c["v"])
                got = [ctx.get(sigs[i]) for i in (1, 2, 3)]
            except Exception as e:
                got = "%s: %s" % (type(e).__name__, str(e)[:200])
            exp = list(c["exp"])
            if out["sample"] is None and c["t"]["k"] not in ("sig",):
                out["sample"] = {"write": r, "after": exp}
            if got != exp and len(out["mism"]) < 100:
                out["mism"].append({"write": r, "storage": storage, "target_kind": c["t"]["k"], "expected": exp, "actual": got})

    sim.add_testbench(tb)
    sim.run()
    return out


def run_stage(ctx, prop, sides=("tbset",)):
    dump = os.path.join(ctx.tmp, "lhscases")
    r = ctx.tlc("MC_AmLhsCases", stage="mc/lhs-cases", cfg_text=CFG, workers=16, args=("-dump", dump))
    path = dump + ".dump"
    res = pmap(_worker, [(path, lo, hi, storage) for storage in ("signal", "memory") for lo, hi in expr_replay.split_dump(path, 32)])
    os.unlink(path)
    n = sum(x["n"] for x in res)
    if n != 2 * r.distinct:
        raise MachineryError("lhs cases: replayed %d, TLC enumerated %d" % (n, r.distinct))
    for x in res:
        for fp in x["fps"]:
            ctx.case(fp)
        for m in x["mism"]:
            key = {"side": "tbset", "storage": m["storage"], "target_kind": m["target_kind"], "write": m["write"]}
            if isinstance(m["actual"], str):
                key["error"] = m["actual"].split(":")[0]
            ctx.violation(key, "ctx.set: %s: signals (s1, s2, s3) afterwards %r, AmLhs says %r" % (m["write"], m["actual"], m["expected"]), replay=m)
    if res[0]["sample"]:
        ctx.sample({"stage": "lhs-cases", **res[0]["sample"]})
    ctx.cov["stages"]["replay/lhs-cases"] = {"writes_replayed": n}
    ctx.cov["traces_validated_against_impl"] += n
