------------------------------- MODULE Drivers -------------------------------
(* Property C06: a design is rejected with a driver conflict iff some signal bit has two distinct  *)
(* drivers, rejected with a combinational cycle whenever some signal bit combinationally depends    *)
(* on itself, and accepted otherwise (guide: "Every signal bit ... driven by exactly one domain",   *)
(* "Combinational feedback loops are prohibited"; properties.jsonl C06).                            *)
(*                                                                                                  *)
(* A configuration is                                                                               *)
(*   shape   hierarchy: "top" | "child" (top+child) | "sib" (top + 2 siblings) | "chain" (3 deep)   *)
(*   ws      widths of the signals 1..Len(ws); signal 0 is the free input x of width XW             *)
(*   drv     sequence of driver records                                                             *)
(*             m      module (1 = top)                                                              *)
(*             k      "comb" | "d1" | "d2"  (an assignment statement in that domain of module m)    *)
(*                    | "instance_output" | "memory_read_data" | "iobuffer_i" (an output of a       *)
(*                      primitive placed in module m)                                               *)
(*             s, lo, hi   the driven bit range  s[lo:hi]  (hi = lo: zero width)                    *)
(*             f, a, b     right-hand side: a construct over operands <<signal, offset>>, the       *)
(*                         operand value being signal[offset : offset + n] for a target of n bits,  *)
(*                         clipped at the signal's width (Python slicing)                           *)
(*             c      enclosing condition: <<>> none | <<s, o>> If(s[o]) | <<s>> If(s) (the word)    *)
(*                    | <<i, kind, s, tests>>: the statement stands in branch i of a chain           *)
(*                        kind 1: If(tests[1]) / Elif(tests[2]) / ... (a test <<>> is Else, last)    *)
(*                        kind 2: Switch(signal s) with Case patterns tests[j], one entry per bit of  *)
(*                                s, least significant first: 0, 1, or 2 for "-" (all 2: Default)     *)
(*                      all branch records of a configuration share the chain and the module         *)
(* The builder machine adds records in increasing vocabulary order, so TLC's reachable states are    *)
(* exactly the subsets (up to MaxDrv records) of the vocabulary, each carrying the sets `exp` /      *)
(* `expr` of outcome classes the real tool may answer with when the statements are written in the    *)
(* order of drv / in the reverse order.  The harness builds every state with amaranth (both orders). *)
(* Outcome classes: "ok" | "driver_conflict" | "comb_cycle".                                          *)
EXTENDS Integers, Sequences, FiniteSets, SequencesExt, TLC

CONSTANTS
    Shapes,          \* hierarchy shapes to enumerate
    SigWs,           \* set of width sequences, e.g. {<<3>>, <<2, 2>>}
    Vocab(_, _),     \* Vocab(shape, ws): the set of driver records to choose from
    MaxDrv,          \* maximal number of records in a configuration
    MaxRich,         \* maximal number of records that are not plain slices / primitive outputs
    Keep(_),         \* further (prefix-closed) restriction on the record sequence of a stage
    UseExplicit,     \* TRUE: the initial states are the hand-written configurations `Explicit`
    Mutant           \* "" | "conflict_per_signal" | "cycle_per_signal" | "branch_own_test_only"   (seeded oracle errors)

VARIABLES shape, ws, drv, last, exp, expr,     \* exp / expr: allowed outcomes in program order drv / Reverse(drv)
          ofree                                \* TRUE: no driver assigns a bit twice, exp holds for EVERY statement order
vars == <<shape, ws, drv, last, exp, expr, ofree>>

XW == 3
Domains == {"comb", "d1", "d2"}
OutKinds == {"instance_output", "memory_read_data", "iobuffer_i"}

Min2(a, b) == IF a < b THEN a ELSE b
Max2(a, b) == IF a > b THEN a ELSE b
Elems(S) == {S[i] : i \in 1..Len(S)}

(* ----------------------------------- hierarchy ----------------------------------- *)
NMods(sh) == CASE sh = "top" -> 1 [] sh = "child" -> 2 [] sh = "sib" -> 3 [] sh = "chain" -> 3
(* parent of every module, 0 for the top *)
Parents(sh) == CASE sh = "top" -> <<0>> [] sh = "child" -> <<0, 1>> [] sh = "sib" -> <<0, 1, 1>> [] sh = "chain" -> <<0, 1, 2>>

(* ------------------------------------ drivers ------------------------------------ *)
W(w, s) == IF s = 0 THEN XW ELSE w[s]
Bits(w) == UNION {{<<s, i>> : i \in 0..(W(w, s) - 1)} : s \in 0..Len(w)}
DrivenBits(r) == {<<r.s, i>> : i \in r.lo..(r.hi - 1)}

(* who drives: all statements of one domain of one module are one driver; every primitive output is its own *)
Ident(d, i) == IF d[i].k \in Domains THEN <<"logic", d[i].m, d[i].k>> ELSE <<"output", i>>

DriversOfBit(d, b) == {Ident(d, i) : i \in {j \in 1..Len(d) : b \in DrivenBits(d[j])}}
DriversOfSig(d, s) == {Ident(d, i) : i \in {j \in 1..Len(d) : d[j].s = s}}

Conflict(w, d) ==
    IF Mutant = "conflict_per_signal"
    THEN \E s \in 1..Len(w) : Cardinality(DriversOfSig(d, s)) >= 2
    ELSE \E b \in Bits(w) : Cardinality(DriversOfBit(d, b)) >= 2

(* --------------------------------- dependencies --------------------------------- *)
(* bits of operand a when n bits are asked for *)
OpBits(w, a, n) == IF a = <<>> THEN <<>> ELSE [i \in 1..Min2(n, W(w, a[1]) - a[2]) |-> <<a[1], a[2] + i - 1>>]
One(S, i) == IF i <= Len(S) THEN {S[i]} ELSE {}

CatBits(w, r, n) == OpBits(w, r.a, 1) \o OpBits(w, r.b, n - 1)

(* Rhs(w, r)[i]: the signal bits result bit i (1-based, least significant first) depends on;      *)
(* Len(Rhs) is the width of the expression; an assignment truncates / zero-extends to the target  *)
Rhs(w, r) ==
    LET n == r.hi - r.lo
        A == OpBits(w, r.a, n)
        B == OpBits(w, r.b, n)
        X == OpBits(w, <<0, 0>>, n)
    IN CASE r.f \in {"const", "out"} -> <<>>
         \* bit-precise constructs: result bit i depends on bit i of the operands only
         [] r.f \in {"slice", "not"} -> [i \in 1..Len(A) |-> {A[i]}]
         [] r.f \in {"and", "or", "xor"} -> [i \in 1..Max2(Len(A), Len(B)) |-> One(A, i) \cup One(B, i)]
         [] r.f = "cat" ->                                   \* Cat(a[o], b[o : o + n - 1])
              LET A1 == OpBits(w, r.a, 1)
                  B1 == OpBits(w, r.b, n - 1) IN
              [i \in 1..(Len(A1) + Len(B1)) |-> IF i <= Len(A1) THEN {A1[i]} ELSE {B1[i - Len(A1)]}]
         \* multi-bit bit-precise cells whose bits have unrelated sources:  ~Cat(..)   Cat(..) ^ x[0:n]  (& |)
         \*   Mux(x[2], Cat(..), x[0:n])     with Cat(..) = Cat(a[o], b[o : o + n - 1])
         [] r.f = "notcat" -> LET C == CatBits(w, r, n) IN [i \in 1..Len(C) |-> {C[i]}]
         [] r.f \in {"andcat", "orcat", "xorcat"} ->
              LET C == CatBits(w, r, n) IN [i \in 1..Max2(Len(C), Len(X)) |-> One(C, i) \cup One(X, i)]
         [] r.f = "muxcat" ->
              LET C == CatBits(w, r, n) IN [i \in 1..Max2(Len(C), Len(X)) |-> {<<0, 2>>} \cup One(C, i) \cup One(X, i)]
         [] r.f = "mux" ->                                   \* Mux(a[o], b[...], x[0:n])
              LET S == OpBits(w, r.a, 1) IN
              [i \in 1..Max2(Len(B), Len(X)) |-> Elems(S) \cup One(B, i) \cup One(X, i)]
         [] r.f = "muxe" ->                                  \* Mux(a[o], x[0:n], b[...])
              LET S == OpBits(w, r.a, 1) IN
              [i \in 1..Max2(Len(B), Len(X)) |-> Elems(S) \cup One(B, i) \cup One(X, i)]
         \* word-level operators: every input bit reaches every output bit
         [] r.f = "add" -> [i \in 1..(Max2(Len(A), Len(B)) + 1) |-> Elems(A) \cup Elems(B)]
         [] r.f \in {"eq", "lt"} -> [i \in 1..1 |-> Elems(A) \cup Elems(B)]
         [] r.f = "shl" ->                                   \* a[...] << b[o]   (one-bit amount)
              LET B1 == OpBits(w, r.b, 1) IN [i \in 1..(Len(A) + 1) |-> Elems(A) \cup Elems(B1)]
         [] r.f \in {"any", "xorr"} -> [i \in 1..1 |-> Elems(A)]                    \* reductions a[...].any() / .xor()
         [] r.f = "bsel" ->                                  \* a[...].bit_select(b[o], 1)
              LET B1 == OpBits(w, r.b, 1) IN [i \in 1..1 |-> Elems(A) \cup Elems(B1)]

TestBits(w, t) ==
    CASE t = <<>> -> {}
      [] Len(t) = 2 -> {<<t[1], t[2]>>}
      [] Len(t) = 1 -> {<<t[1], j>> : j \in 0..(W(w, t[1]) - 1)}
(* Chains select the FIRST branch whose test succeeds: branch i is taken iff its own test succeeds and the  *)
(* tests of branches 1..i-1 all fail, so what is assigned in branch i depends on every bit the tests 1..i   *)
(* look at (a "-" position of a pattern looks at nothing; Else / Default look at nothing of their own).    *)
(* Not specified, and over-approximated by the tool: whether an earlier branch also "depends" on later      *)
(* tests, and on switched bits no pattern looks at -- these edges are in the full graph only.               *)
IsBranch(r) == Len(r.c) = 4
ChainTested(w, c, j) ==
    IF c[2] = 1 THEN TestBits(w, c[4][j])
    ELSE {<<c[3], b>> : b \in {x \in 0..(W(w, c[3]) - 1) : c[4][j][x + 1] # 2}}
BranchBits(w, c, live) ==
    IF live
    THEN IF Mutant = "branch_own_test_only" THEN ChainTested(w, c, c[1])
         ELSE UNION {ChainTested(w, c, j) : j \in 1..c[1]}
    ELSE IF c[2] = 1 THEN UNION {ChainTested(w, c, j) : j \in 1..Len(c[4])}
         ELSE {<<c[3], b>> : b \in 0..(W(w, c[3]) - 1)}
CondBits(w, r, live) == IF IsBranch(r) THEN BranchBits(w, r.c, live) ELSE TestBits(w, r.c)

(* edges <<from, to>> of one record: only combinational assignments create them (a register breaks the path); *)
(* the condition feeds every bit assigned under it                                                           *)
Edges(w, r, live) ==
    IF r.k # "comb" THEN {}
    ELSE LET R == Rhs(w, r)
             n == r.hi - r.lo IN
         UNION {{<<u, <<r.s, r.lo + i - 1>>>> : u \in R[i]} : i \in 1..Min2(n, Len(R))}
           \cup {<<u, v>> : u \in CondBits(w, r, live), v \in DrivenBits(r)}

(* Program order is sequence order.  "The last active assignment wins": the assignment d[i] is dead for bit b  *)
(* when a later unconditional assignment of the same driver covers b.  Whether a dead assignment still counts  *)
(* as a dependency is not specified (the tool drops some and keeps others), so both graphs are kept: the       *)
(* live graph decides what MUST be rejected, the full graph what MAY be.                                        *)
DeadFor(d, i, b) == \E j \in (i + 1)..Len(d) : d[j].k = d[i].k /\ d[j].m = d[i].m /\ d[j].c = <<>> /\ b \in DrivenBits(d[j])
EdgesOf(w, d, i, live) == IF live THEN {e \in Edges(w, d[i], TRUE) : ~DeadFor(d, i, e[2])} ELSE Edges(w, d[i], FALSE)

DepGraphBits(w, d, live) == UNION {EdgesOf(w, d, i, live) : i \in 1..Len(d)}
DepGraph(w, d, live) ==
    IF Mutant = "cycle_per_signal"
    THEN {<<<<e[1][1], 0>>, <<e[2][1], 0>>>> : e \in DepGraphBits(w, d, live)}
    ELSE DepGraphBits(w, d, live)

Succ(E, F) == {e[2] : e \in {x \in E : x[1] \in F}}
RECURSIVE Grow(_, _, _)
Grow(E, F, seen) == LET nw == Succ(E, F) \ seen IN IF nw = {} THEN seen ELSE Grow(E, nw, seen \cup nw)
ReachPlus(E, v) == Grow(E, {v}, {})                 \* nodes reachable in one or more steps
CycleIn(E) == \E v \in {e[1] : e \in E} : v \in ReachPlus(E, v)
Cycle(w, d) == CycleIn(DepGraph(w, d, FALSE))           \* some bit is in its own Reach+
CycleLive(w, d) == CycleIn(DepGraph(w, d, TRUE))        \* ... through assignments that can take effect

(* ------------------------------------ outcome ------------------------------------ *)
(* both a conflict and a cycle: either error may be reported first; a cycle through dead assignments only: *)
(* rejection and acceptance are both allowed                                                               *)
Outcome(w, d) ==
    LET cf == Conflict(w, d)
        cy == Cycle(w, d)
        cl == CycleLive(w, d) IN
    (IF cf THEN {"driver_conflict"} ELSE {}) \cup (IF cy THEN {"comb_cycle"} ELSE {})
        \cup (IF ~cf /\ ~cl THEN {"ok"} ELSE {})

(* ------------------------------- builder machine ------------------------------- *)
IsOut(r) == r.k \in OutKinds
Rich(r) == r.f \notin {"slice", "out"} \/ r.c # <<>>
NRich(d) == Cardinality({i \in 1..Len(d) : Rich(d[i])})
Overlap(r1, r2) == r1.s = r2.s /\ Max2(r1.lo, r2.lo) < Min2(r1.hi, r2.hi)
(* outside the property statement, hence not generated: two primitive outputs on one bit.  Branch records: *)
(* one chain in one module per configuration; a branch statement is never overridden by an unconditional     *)
(* statement of the same driver (so the place of the chain in the program does not matter)                  *)
Admissible(d) ==
    /\ \A i, j \in 1..Len(d) : i < j /\ IsOut(d[i]) /\ IsOut(d[j]) => ~Overlap(d[i], d[j])
    /\ \A i, j \in 1..Len(d) : IsBranch(d[i]) /\ IsBranch(d[j]) =>
            d[i].m = d[j].m /\ d[i].c[2] = d[j].c[2] /\ d[i].c[3] = d[j].c[3] /\ d[i].c[4] = d[j].c[4]
    /\ \A i, j \in 1..Len(d) : IsBranch(d[i]) /\ d[j].c = <<>> /\ d[i].m = d[j].m /\ d[i].k = d[j].k => ~Overlap(d[i], d[j])

(* program order matters only when one driver assigns a bit twice *)
SameDriverOverlap(d) == \E i, j \in 1..Len(d) : i < j /\ d[i].k \in Domains /\ d[i].k = d[j].k /\ d[i].m = d[j].m /\ Overlap(d[i], d[j])

VocSeq == [sh \in Shapes, w \in SigWs |-> SetToSeq(Vocab(sh, w))]
(* the hierarchy table is handed to the harness (which builds the modules) instead of being repeated there *)
ASSUME PrintT(<<"parents", [sh \in {"top", "child", "sib", "chain"} |-> Parents(sh)]>>)

Rec(m, k, s, lo, hi, f, a, b, c) == [m |-> m, k |-> k, s |-> s, lo |-> lo, hi |-> hi, f |-> f, a |-> a, b |-> b, c |-> c]
Out(m, k, s, lo, hi) == Rec(m, k, s, lo, hi, "out", <<>>, <<>>, <<>>)
X0 == <<0, 0>>
Plain(m, k, s, lo, hi, a) == Rec(m, k, s, lo, hi, "slice", a, <<>>, <<>>)

(* hand-written configurations named by the property statement and the test plan *)
Cfg(sh, w, d) == [shape |-> sh, ws |-> w, drv |-> d]
Explicit == {
    \* driven in the child, read in the parent; and the other way round
    Cfg("child", <<2, 2>>, <<Plain(2, "comb", 1, 0, 2, X0), Plain(1, "comb", 2, 0, 2, <<1, 0>>)>>),
    Cfg("child", <<2, 2>>, <<Plain(1, "comb", 1, 0, 2, X0), Plain(2, "comb", 2, 0, 2, <<1, 0>>)>>),
    Cfg("child", <<2, 2>>, <<Plain(2, "comb", 1, 0, 2, <<2, 0>>), Plain(1, "comb", 2, 0, 2, <<1, 0>>)>>),    \* loop across modules
    Cfg("chain", <<2, 2>>, <<Plain(3, "d1", 1, 0, 2, <<2, 0>>), Plain(1, "comb", 2, 0, 2, <<1, 0>>)>>),      \* broken by a register
    \* the same bit driven by comb in two siblings; by d1 in one module and d2 in another; by d1 in both
    Cfg("sib", <<2>>, <<Plain(2, "comb", 1, 0, 1, X0), Plain(3, "comb", 1, 0, 1, X0)>>),
    Cfg("sib", <<2>>, <<Plain(2, "d1", 1, 1, 2, X0), Plain(3, "d2", 1, 1, 2, X0)>>),
    Cfg("chain", <<2>>, <<Plain(1, "d1", 1, 1, 2, X0), Plain(3, "d1", 1, 0, 2, X0)>>),
    Cfg("top", <<2>>, <<Plain(1, "comb", 1, 0, 2, X0), Plain(1, "d1", 1, 1, 2, X0)>>),                        \* one module, two domains
    Cfg("top", <<2>>, <<Plain(1, "comb", 1, 0, 1, X0), Plain(1, "d1", 1, 1, 2, X0)>>),                        \* ... on different bits
    \* logic and a primitive output
    Cfg("top", <<3>>, <<Plain(1, "comb", 1, 1, 3, X0), Out(1, "instance_output", 1, 0, 2)>>),
    Cfg("child", <<3>>, <<Plain(1, "d1", 1, 2, 3, X0), Out(2, "instance_output", 1, 0, 2)>>),
    Cfg("child", <<3>>, <<Plain(2, "comb", 1, 0, 3, X0), Out(1, "memory_read_data", 1, 0, 3)>>),
    Cfg("top", <<3>>, <<Plain(1, "comb", 1, 0, 1, X0), Out(1, "memory_read_data", 1, 1, 3)>>),
    Cfg("top", <<2>>, <<Plain(1, "d2", 1, 0, 1, X0), Out(1, "iobuffer_i", 1, 0, 2)>>),
    Cfg("sib", <<2>>, <<Plain(2, "comb", 1, 0, 1, X0), Out(3, "iobuffer_i", 1, 1, 2)>>),
    \* partially overlapping ranges
    Cfg("child", <<3>>, <<Plain(1, "comb", 1, 0, 2, X0), Plain(2, "comb", 1, 1, 3, X0)>>),
    Cfg("child", <<3>>, <<Plain(2, "comb", 1, 0, 2, X0), Plain(2, "comb", 1, 1, 3, X0)>>),
    Cfg("child", <<4>>, <<Plain(1, "comb", 1, 0, 2, X0), Plain(2, "d1", 1, 2, 4, X0)>>),                      \* bit-disjoint
    \* zero-width ranges never conflict
    Cfg("child", <<2>>, <<Plain(1, "comb", 1, 1, 1, X0), Plain(2, "comb", 1, 0, 2, X0)>>),
    Cfg("child", <<2>>, <<Plain(1, "d1", 1, 0, 0, X0), Plain(1, "comb", 1, 0, 2, X0), Out(2, "instance_output", 1, 2, 2)>>),
    \* bits feeding other bits of the same signal
    Cfg("top", <<3>>, <<Plain(1, "comb", 1, 1, 2, <<1, 0>>), Rec(1, "comb", 1, 2, 3, "not", <<1, 1>>, <<>>, <<>>)>>),
    Cfg("top", <<3>>, <<Plain(1, "comb", 1, 1, 2, <<1, 0>>), Rec(1, "comb", 1, 0, 1, "not", <<1, 1>>, <<>>, <<>>)>>),
    \* two signals: a[0] -> b[0], b[1] -> a[1] is no cycle; a[0] -> b[0] -> a[0] is
    Cfg("top", <<2, 2>>, <<Plain(1, "comb", 2, 0, 1, <<1, 0>>), Plain(1, "comb", 1, 1, 2, <<2, 1>>)>>),
    Cfg("top", <<2, 2>>, <<Plain(1, "comb", 2, 0, 1, <<1, 0>>), Plain(1, "comb", 1, 0, 1, <<2, 0>>)>>),
    \* the same through adders: separate one-bit adders keep the bits apart, a whole-word adder does not
    Cfg("top", <<2, 2>>, <<Rec(1, "comb", 2, 0, 1, "add", <<1, 0>>, X0, <<>>), Rec(1, "comb", 1, 1, 2, "add", <<2, 1>>, X0, <<>>)>>),
    Cfg("top", <<2, 2>>, <<Rec(1, "comb", 2, 0, 2, "add", <<1, 0>>, X0, <<>>), Plain(1, "comb", 1, 1, 2, <<2, 0>>)>>),
    Cfg("top", <<2, 2>>, <<Rec(1, "comb", 2, 0, 2, "add", <<1, 0>>, X0, <<>>), Plain(1, "comb", 1, 0, 1, <<2, 1>>)>>),
    Cfg("top", <<2, 2>>, <<Rec(1, "comb", 2, 0, 2, "and", <<1, 0>>, X0, <<>>), Plain(1, "comb", 1, 1, 2, <<2, 0>>)>>),
    \* conditions: the tested bit feeds what is assigned under it
    Cfg("top", <<2>>, <<Rec(1, "comb", 1, 1, 2, "const", <<>>, <<>>, <<1, 0>>)>>),
    Cfg("top", <<2>>, <<Rec(1, "comb", 1, 0, 1, "const", <<>>, <<>>, <<1, 0>>)>>),
    Cfg("top", <<2>>, <<Rec(1, "d1", 1, 0, 1, "const", <<>>, <<>>, <<1, 0>>)>>),
    \* chains: a later branch depends on the earlier tests (first match wins)
    Cfg("top", <<2, 1>>, <<Rec(1, "comb", 2, 0, 1, "const", <<>>, <<>>, <<1, 1, 0, <<<<1, 0>>, <<>>>>>>),
                           Rec(1, "comb", 1, 0, 1, "const", <<>>, <<>>, <<2, 1, 0, <<<<1, 0>>, <<>>>>>>)>>),     \* If(a[0]): b=1  Else: a[0]=1
    Cfg("top", <<2, 1>>, <<Rec(1, "comb", 2, 0, 1, "const", <<>>, <<>>, <<1, 2, 1, <<<<1, 2>>, <<2, 1>>>>>>),
                           Rec(1, "comb", 1, 0, 1, "const", <<>>, <<>>, <<2, 2, 1, <<<<1, 2>>, <<2, 1>>>>>>)>>),  \* Case("-1"): b=1  Case("1-"): a[0]=1
    Cfg("top", <<2, 1>>, <<Rec(1, "comb", 1, 1, 2, "const", <<>>, <<>>, <<2, 1, 0, <<<<1, 1>>, <<0, 0>>>>>>)>>),  \* If(a[1]): pass  Elif(x[0]): a[1]=1
    Cfg("top", <<2, 1>>, <<Rec(1, "comb", 1, 1, 2, "const", <<>>, <<>>, <<1, 1, 0, <<<<1, 0>>, <<1, 1>>>>>>)>>),  \* If(a[0]): a[1]=1  Elif(a[1]): pass  (either answer)
    Cfg("child", <<2, 1>>, <<Rec(2, "comb", 2, 0, 1, "const", <<>>, <<>>, <<2, 1, 0, <<<<1, 0>>, <<>>>>>>),
                             Plain(1, "comb", 1, 0, 1, <<2, 0>>)>>),                                             \* ... closed through another signal and module
    Cfg("top", <<2>>, <<Rec(1, "d1", 1, 0, 1, "const", <<>>, <<>>, <<2, 1, 0, <<<<1, 0>>, <<>>>>>>)>>),          \* registered: legal
    \* a conflict and a cycle together
    Cfg("child", <<2>>, <<Plain(1, "comb", 1, 0, 1, <<1, 0>>), Plain(2, "comb", 1, 0, 1, X0)>>)
}

Init ==
    IF UseExplicit
    THEN \E c \in Explicit :
            /\ shape = c.shape /\ ws = c.ws /\ drv = c.drv /\ last = 1000
            /\ exp = Outcome(c.ws, c.drv) /\ expr = Outcome(c.ws, Reverse(c.drv))
            /\ ofree = ~SameDriverOverlap(c.drv)
    ELSE /\ shape \in Shapes /\ ws \in SigWs /\ drv = <<>> /\ last = 0
         /\ exp = {"ok"} /\ expr = {"ok"} /\ ofree = TRUE

Add(j) ==
    LET d == Append(drv, VocSeq[shape, ws][j]) IN
    /\ Len(drv) < MaxDrv
    /\ NRich(d) <= MaxRich
    /\ Admissible(d) /\ Keep(d)
    /\ drv' = d /\ last' = j
    /\ exp' = Outcome(ws, d) /\ expr' = Outcome(ws, Reverse(d))
    /\ ofree' = ~SameDriverOverlap(d)
    /\ UNCHANGED <<shape, ws>>

Next == ~UseExplicit /\ \E j \in (last + 1)..Len(VocSeq[shape, ws]) : Add(j)
Spec == Init /\ [][Next]_vars

(* ----------------------------------- theorems ----------------------------------- *)
(* the answer is never empty, and "ok" excludes the errors *)
OutcomeShape ==
    LET cf == Conflict(ws, drv)
        cy == Cycle(ws, drv)
        cl == CycleLive(ws, drv) IN
    /\ exp # {} /\ expr # {}
    /\ "driver_conflict" \in exp <=> cf
    /\ "comb_cycle" \in exp <=> cy
    /\ "ok" \notin exp <=> cf \/ cl
    /\ cl => cy
    /\ ("driver_conflict" \in expr <=> cf) /\ ("comb_cycle" \in expr <=> cy)       \* only liveness depends on the order
(* The verdict does not depend on the order in which the statements were written: the conflict and the full   *)
(* dependency graph never do; the live graph (hence the whole allowed set) does not as soon as no driver       *)
(* assigns a bit twice.  Checked for every permutation of up to 3 records, for rotations and reversal beyond.  *)
Perms(n) == IF n <= 3 THEN Permutations(1..n)
            ELSE {[i \in 1..n |-> ((i + k - 1) % n) + 1] : k \in 0..(n - 1)} \cup {[i \in 1..n |-> n + 1 - i]}
Permuted(d, p) == [i \in 1..Len(d) |-> d[p[i]]]
PermutationInvariance ==
    LET cf == Conflict(ws, drv)
        cy == Cycle(ws, drv) IN
    /\ ofree = ~SameDriverOverlap(drv)
    /\ \A p \in Perms(Len(drv)) :
          LET d == Permuted(drv, p) IN
          /\ Conflict(ws, d) = cf /\ Cycle(ws, d) = cy
          /\ ofree => Outcome(ws, d) = exp
HasBranch(d) == \E i \in 1..Len(d) : IsBranch(d[i])
OrderIrrelevant ==
    ~SameDriverOverlap(drv) => exp = expr /\ (~HasBranch(drv) => CycleLive(ws, drv) = Cycle(ws, drv))
(* first-match priority: what a branch depends on grows with its position and contains its own test; the *)
(* full graph contains the live one                                                                     *)
ChainPriority ==
    \A i \in 1..Len(drv) : IsBranch(drv[i]) =>
        LET c == drv[i].c IN
        /\ ChainTested(ws, c, c[1]) \subseteq BranchBits(ws, c, TRUE)
        /\ \A j \in 1..c[1] : BranchBits(ws, <<j, c[2], c[3], c[4]>>, TRUE) \subseteq BranchBits(ws, c, TRUE)
        /\ BranchBits(ws, c, TRUE) \subseteq BranchBits(ws, c, FALSE)

(* conflicts are about overlapping non-empty bit ranges of different drivers, nothing else: bit-disjoint *)
(* drivers never conflict, overlapping ones always do (interval arithmetic instead of per-bit sets)      *)
DisjointNeverConflict ==
    Conflict(ws, drv) <=> \E i, j \in 1..Len(drv) : i < j /\ Ident(drv, i) # Ident(drv, j) /\ Overlap(drv[i], drv[j])

(* zero-width ranges are irrelevant *)
NonEmpty(d) == SelectSeq(d, LAMBDA r : r.lo < r.hi)
ZeroWidthIrrelevant == Conflict(ws, drv) = Conflict(ws, NonEmpty(drv))

(* renaming modules (any permutation, hence also any re-arrangement of the hierarchy) changes nothing *)
Renamed(d, p) == [i \in 1..Len(d) |-> [d[i] EXCEPT !.m = p[d[i].m]]]
ModuleSymmetry ==
    LET cf == Conflict(ws, drv)
        cl == CycleLive(ws, drv) IN
    \A p \in Permutations(1..NMods(shape)) \ {[i \in 1..NMods(shape) |-> i]} :
        /\ Conflict(ws, Renamed(drv, p)) = cf
        /\ CycleLive(ws, Renamed(drv, p)) = cl          \* (the full graph does not mention modules at all)

(* a second, independent characterisation of cycles: a graph is acyclic iff peeling off nodes without *)
(* incoming edges (from the remaining nodes) exhausts it                                                *)
RECURSIVE Peel(_, _)
Peel(N, E) == LET free == {v \in N : ~\E e \in E : e[2] = v /\ e[1] \in N} IN
              IF free = {} THEN N ELSE Peel(N \ free, E)
CycleIffNotPeelable ==
    LET E == DepGraph(ws, drv, FALSE)
        N == {e[1] : e \in E} \cup {e[2] : e \in E} IN
    Cycle(ws, drv) <=> Peel(N, E) # {}

(* a design in which bits only feed bits of a strictly higher rank (signal-major, bit-minor) has no cycle: *)
(* in particular s[1].eq(s[0]), s[2].eq(~s[1]) is legal although s "depends on itself" as a word           *)
RankOf(b) == 4 * b[1] + b[2]
ForwardOnlyNoCycle ==
    (\A e \in DepGraphBits(ws, drv, FALSE) : RankOf(e[1]) < RankOf(e[2])) => ~Cycle(ws, drv)

(* registers break paths: turning a combinational record into a d1 record never creates a cycle; *)
(* removing a record never creates a conflict or a cycle                                         *)
Without(d, i) == [j \in 1..(Len(d) - 1) |-> IF j < i THEN d[j] ELSE d[j + 1]]
Monotone ==
    LET cf == Conflict(ws, drv)
        cy == Cycle(ws, drv) IN
    \A i \in 1..Len(drv) :
        /\ ~cy => ~Cycle(ws, Without(drv, i))
        /\ ~cf => ~Conflict(ws, Without(drv, i))
        /\ ~cy /\ drv[i].k = "comb" => ~Cycle(ws, [drv EXCEPT ![i].k = "d1"])

(* ---------------------------------- vocabularies ---------------------------------- *)
W3 == {<<3>>}
W22 == {<<2, 2>>}
W3W22 == {<<3>>, <<2, 2>>}
NoWs == {}
AllRanges(wd) == {r \in (0..wd) \X (0..wd) : r[1] <= r[2]}
FewRanges(wd) == {<<0, 2>>, <<1, wd>>, <<wd - 1, wd>>, <<1, 1>>}
MidRanges(wd) == FewRanges(wd) \cup {<<0, 1>>, <<0, wd>>, <<wd, wd>>}

Targets(w, ranges(_)) == UNION {{<<s, rg[1], rg[2]>> : rg \in ranges(w[s])} : s \in 1..Len(w)}

(* placement: who drives which range; right-hand sides are the free input *)
PlaceVocab(sh, w, kinds, ranges(_)) ==
    LET T == Targets(w, ranges) IN
    {Plain(m, k, t[1], t[2], t[3], X0) : m \in 1..NMods(sh), k \in kinds \cap Domains, t \in T}
      \cup {Out(m, k, t[1], t[2], t[3]) : m \in 1..NMods(sh), k \in kinds \cap OutKinds, t \in T}
AllKinds == Domains \cup OutKinds
(* Target forms.  The driven range s[lo:hi] may be written as a slice of a concatenation that reaches into a later  *)
(* part:  Cat(p1, p2, s)[len(p1)+len(p2)+lo : len(p1)+len(p2)+hi]  drives exactly the bits lo..hi-1 of s and nothing *)
(* of p1, p2 (the harness writes every target of stage "cattarget" that way, with and without a ResetInserter        *)
(* around the first fragment -- which adds assignments of the same driver and so changes no identity).              *)
CatSliceBits(pw, a, b) ==            \* bits <<part, index>> selected by Cat(parts of widths pw)[a:b]
    LET Start(k) == IF k = 1 THEN 0 ELSE IF k = 2 THEN pw[1] ELSE pw[1] + pw[2] IN
    {<<k, j - Start(k)>> : k \in 1..3, j \in a..(b - 1)} \cap {q \in (1..3) \X (0..7) : q[2] < pw[q[1]]}
ASSUME \A w1 \in 2..4, w2 \in 2..4, w3 \in 1..4 : \A lo \in 0..w3, hi \in 0..w3 :
          lo <= hi => CatSliceBits(<<w1, w2, w3>>, w1 + w2 + lo, w1 + w2 + hi) = {<<3, i>> : i \in lo..(hi - 1)}
W4 == {<<4>>}
CatRanges(wd) == {<<2, 4>>, <<0, 2>>, <<1, 3>>, <<3, 4>>, <<0, 4>>, <<2, 3>>}
VocabCatTarget(sh, w) == PlaceVocab(sh, w, Domains, CatRanges)

(* quick: all ranges for the small shapes, the characteristic ones for three modules *)
VocabPlaceQ(sh, w) == IF NMods(sh) = 1 THEN PlaceVocab(sh, w, AllKinds, AllRanges)
                      ELSE IF NMods(sh) = 2 THEN PlaceVocab(sh, w, AllKinds, MidRanges) ELSE PlaceVocab(sh, w, AllKinds, FewRanges)
VocabPlaceAll(sh, w) == PlaceVocab(sh, w, AllKinds, AllRanges)
VocabPlaceFew(sh, w) == PlaceVocab(sh, w, AllKinds, FewRanges)
VocabPlaceMid(sh, w) == PlaceVocab(sh, w, AllKinds, MidRanges)

(* dependencies: module of a record is a function of the driven signal (signal 1 in the top, the others *)
(* in the deepest module), so that reading crosses module boundaries but no conflict between modules arises *)
DepMod(sh, s) == IF s = 1 THEN 1 ELSE NMods(sh)
Srcs(w) == UNION {{<<s, o>> : o \in 0..(w[s] - 1)} : s \in 1..Len(w)}
SrcsX(w) == Srcs(w) \cup {X0}
BitRanges(wd) == {<<i, i + 1>> : i \in 0..(wd - 1)}
DepRanges(wd) == BitRanges(wd) \cup {<<0, wd>>}

PlainDeps(sh, w, ranges(_)) ==
    {Plain(DepMod(sh, t[1]), "comb", t[1], t[2], t[3], a) : t \in Targets(w, ranges), a \in SrcsX(w)}
      \cup {Plain(DepMod(sh, t[1]), "d1", t[1], t[2], t[3], a) : t \in Targets(w, ranges), a \in Srcs(w)}

RichDeps(sh, w, ranges(_), second) ==
    LET T == Targets(w, ranges)
        R(t, f, a, b, c) == Rec(DepMod(sh, t[1]), "comb", t[1], t[2], t[3], f, a, b, c) IN
    {R(t, "not", a, <<>>, <<>>) : t \in T, a \in Srcs(w)}
      \cup {R(t, f, a, b, <<>>) : t \in T, f \in {"and", "or", "xor", "add", "eq", "lt"}, a \in Srcs(w), b \in second}
      \cup {R(t, f, a, <<0, 1>>, <<>>) : t \in T, f \in {"mux", "muxe"}, a \in Srcs(w)}
      \cup {R(t, f, X0, b, <<>>) : t \in T, f \in {"mux", "muxe"}, b \in Srcs(w)}
      \cup {R(t, "cat", a, b, <<>>) : t \in {u \in T : u[3] - u[2] >= 2}, a \in SrcsX(w), b \in SrcsX(w)}
      \cup {R(t, "slice", X0, <<>>, c) : t \in T, c \in Srcs(w) \cup {<<s>> : s \in 1..Len(w)}}
      \cup {R(t, "const", <<>>, <<>>, c) : t \in T, c \in Srcs(w)}

(* one construct under test, closed (or not) by plain records *)
VocabDepQ(sh, w) == PlainDeps(sh, w, DepRanges) \cup RichDeps(sh, w, DepRanges, {X0})
VocabDepT(sh, w) == PlainDeps(sh, w, DepRanges) \cup RichDeps(sh, w, DepRanges, SrcsX(w))
(* chains: statements in the branches of one If/Elif/Else or Switch/Case chain, plus plain records closing loops *)
Els == <<>>
ChainsQ(w) ==
    {<<1, 0, <<<<1, 0>>, Els>>>>, <<1, 0, <<<<1, 0>>, X0>>>>, <<1, 0, <<<<1, 1>>, <<1, 0>>>>>>, <<1, 0, <<X0, <<1, 0>>>>>>,
     <<1, 0, <<<<1>>, Els>>>>, <<1, 0, <<<<1, 0>>, X0, Els>>>>}
      \cup (IF w[1] = 3 THEN {<<2, 1, <<<<1, 2, 2>>, <<2, 1, 2>>>>>>, <<2, 1, <<<<2, 1, 2>>, <<2, 2, 2>>>>>>,
                              <<2, 1, <<<<0, 2, 1>>, <<2, 1, 2>>, <<2, 2, 2>>>>>>, <<2, 1, <<<<2, 1, 2>>, <<2, 0, 2>>>>>>}
             ELSE {<<2, 1, <<<<1, 2>>, <<2, 1>>>>>>, <<2, 1, <<<<2, 1>>, <<2, 2>>>>>>})
ChainsT(w) ==
    ChainsQ(w)
      \cup {<<1, 0, <<t1, t2>>>> : t1 \in Srcs(w) \cup {X0, <<1>>}, t2 \in Srcs(w) \cup {X0, <<1>>, Els}}
      \cup {<<1, 0, <<t1, t2, Els>>>> : t1 \in Srcs(w), t2 \in Srcs(w) \cup {X0}}
BranchRecs(sh, w, chains, kinds) ==
    {r \in {Rec(NMods(sh), k, t[1], t[2], t[3], "const", <<>>, <<>>, <<i, ch[1], ch[2], ch[3]>>) :
                k \in kinds, t \in Targets(w, DepRanges), ch \in chains, i \in 1..3} : r.c[1] <= Len(r.c[4])}
ClosingRecs(sh, w) == {Plain(NMods(sh), "comb", t[1], t[2], t[3], a) : t \in Targets(w, DepRanges), a \in SrcsX(w)}
VocabBranchQ(sh, w) == BranchRecs(sh, w, ChainsQ(w), {"comb"}) \cup ClosingRecs(sh, w)
VocabBranchT(sh, w) == BranchRecs(sh, w, ChainsT(w), {"comb", "d1"}) \cup ClosingRecs(sh, w)

(* mixed designs: ONE cluster on signal 1 (a multi-bit bit-precise or word-level cell whose output bits feed     *)
(* other bits of the same signal: downward, upward, or back into themselves through a non-first bit; closed or    *)
(* not by plain records) next to an UNRELATED statement on signal 2 computed from the input x only (word-level,   *)
(* bit-precise, conditional, or a primitive output), in the same or in another module, in every statement order   *)
KeepAll(d) == TRUE
KeepMix(d) == /\ Cardinality({i \in 1..Len(d) : d[i].s = 2}) <= 1
              /\ Cardinality({i \in 1..Len(d) : d[i].s = 1 /\ Rich(d[i])}) <= 1
              /\ Cardinality({i \in 1..Len(d) : d[i].s = 1 /\ ~Rich(d[i])}) <= 1
W32 == {<<3, 2>>}
S1(w) == {<<1, o>> : o \in 0..(w[1] - 1)}
Wide(wd) == {r \in AllRanges(wd) : r[2] - r[1] >= 2}
UnrelatedRecs(sh, w, forms, outs) ==
    LET U(m, f, a, b, c) == Rec(m, "comb", 2, 0, w[2], f, a, b, c) IN
    UNION {{U(m, f, X0, <<0, 1>>, <<>>) : f \in forms \ {"if"}}
             \cup (IF "if" \in forms THEN {U(m, "const", <<>>, <<>>, <<1, 1, 0, <<X0, <<0, 1>>, <<>>>>>>)} ELSE {})
             \cup {Out(m, k, 2, 0, w[2]) : k \in outs} : m \in {1, NMods(sh)}}
ClusterRecs(sh, w, forms, ranges, catops) ==
    LET M == NMods(sh)
        T == {<<1, rg[1], rg[2]>> : rg \in ranges} IN
    {Rec(M, "comb", t[1], t[2], t[3], f, a, X0, <<>>) : t \in T, a \in S1(w), f \in forms \cap {"not", "and", "or", "xor", "add", "eq", "shl"}}
      \cup {Rec(M, "comb", t[1], t[2], t[3], f, a, <<0, 1>>, <<>>) : t \in T, a \in S1(w), f \in forms \cap {"mux"}}
      \cup {Rec(M, "comb", t[1], t[2], t[3], f, X0, b, <<>>) : t \in T, b \in S1(w), f \in forms \cap {"mux", "muxe"}}
      \cup {Rec(M, "comb", t[1], t[2], t[3], f, ab[1], ab[2], <<>>) :
                t \in T, f \in forms \cap {"notcat", "andcat", "orcat", "xorcat", "muxcat"}, ab \in catops}
MixClosers(sh, w) == {Plain(NMods(sh), "comb", 1, rg[1], rg[2], a) : rg \in BitRanges(w[1]), a \in S1(w)}
VocabMixQ(sh, w) ==
    UnrelatedRecs(sh, w, {"add", "eq", "xorr", "mux", "if"}, {"instance_output"})
      \cup ClusterRecs(sh, w, {"not", "xor", "add", "notcat", "muxcat"}, {<<0, 2>>, <<0, 3>>},
                     {<<X0, a>> : a \in S1(w)} \cup {<<a, X0>> : a \in S1(w)})
      \cup MixClosers(sh, w)
VocabMixT(sh, w) ==
    UnrelatedRecs(sh, w, {"add", "eq", "lt", "shl", "any", "xorr", "bsel", "not", "and", "mux", "if"}, OutKinds)
      \cup ClusterRecs(sh, w, {"not", "and", "or", "xor", "mux", "muxe", "add", "eq", "shl", "notcat", "andcat", "orcat", "xorcat", "muxcat"},
                     Wide(w[1]), (S1(w) \cup {X0}) \X (S1(w) \cup {X0}))
      \cup MixClosers(sh, w)

(* longer paths through plain bit-to-bit records *)
VocabChain(sh, w) == PlainDeps(sh, w, BitRanges)
=============================================================================
