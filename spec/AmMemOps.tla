------------------------------ MODULE AmMemOps ------------------------------
(* Semantics of amaranth.lib.memory.Memory (property C11), written from docs/stdlib/memory.rst and the   *)
(* docstrings of Memory.read_port / Memory.write_port / MemoryData.Init / MemoryData.__getitem__:        *)
(*                                                                                                       *)
(*   a memory is an array of `depth` rows of `w` bits holding its declared initial contents (rows not    *)
(*   initialised explicitly are zero); at the active edge of its domain a write port replaces exactly    *)
(*   those granules of the addressed row whose enable bit is set; an asynchronous read port outputs the  *)
(*   addressed row continuously; a synchronous read port whose enable is asserted at its clock edge      *)
(*   captures the addressed row as it was before the edge, except that granules written at that same     *)
(*   edge, to the same address, by a port of its transparency set are captured with the new data; a      *)
(*   disabled port holds.  All ports evaluate the inputs and rows as they were before the event.         *)
(*                                                                                                       *)
(* Left open by the documentation, hence modelled as *unknown* (bit value X, matches anything):          *)
(*   - a read (of either kind) with an address >= depth;                                                 *)
(*   - a bit written by two or more write ports in the same event ("collision");                         *)
(*   - the data captured by a synchronous read port when a write port of a *different* clock domain      *)
(*     updates the row it is reading at a coincident edge ("the behavior is undefined", read_port doc).  *)
(* A write with an address >= depth changes nothing.                                                     *)
(*                                                                                                       *)
(* This module is constant-level.  It contains the semantics twice, on purpose:                          *)
(*   Clause(...)   the declarative contract: a predicate on (state before, event, state after) made of   *)
(*                 quantified per-bit statements, returning the name of the first clause broken or "";   *)
(*   StepRows / StepLat   an operational, deterministic step function (sequential merge of the write     *)
(*                 ports in port order, transparency as a patch of the captured row).                    *)
(* AmMem checks with TLC that the two agree on every reachable state and every event of the explored     *)
(* configurations (and that seeded errors in the step function are caught by the contract); AmMemTrace   *)
(* judges recorded executions of the real Memory with the contract and uses the step function as a       *)
(* second opinion.                                                                                       *)
(*                                                                                                       *)
(* Rows and read-port outputs are sequences of w bits, least-significant first, over {0, 1, X}.          *)
(* A configuration c is the record produced by harness/mem_drive.py:make_cfg:                            *)
(*   [kind, w, ew, n, signed, depth, aw, init, rp : Seq([dom, transp : Seq(write port no.)]),            *)
(*    wp : Seq([dom, gran, gbits, ng])]    -- gbits = number of row bits governed by one enable bit.     *)
(* An event's inputs are inp = <<ra, re, wa, wd, we>> (per-port sequences: read address, read enable,    *)
(* write address, write data as a raw bit pattern, write enable mask); D is the set of rising clocks as  *)
(* a bit mask: 1 = domain "A", 2 = domain "B", 3 = both at the same instant.                             *)
EXTENDS Integers, Sequences, FiniteSets

X == 2                                             \* the unknown bit

Pow2(n) == 2 ^ n
Bit(v, i) == (v \div Pow2(i - 1)) % 2              \* bit i (1-based) of a non-negative integer
Bits(v, w) == [i \in 1..w |-> Bit(v, i)]
Zeros(w) == [i \in 1..w |-> 0]
Unknown(w) == [i \in 1..w |-> X]
Concrete(b) == \A i \in DOMAIN b : b[i] \in {0, 1}
Val(b) == LET f[i \in 0..Len(b)] == IF i = 0 THEN 0 ELSE f[i - 1] + b[i] * Pow2(i - 1) IN f[Len(b)]
Matches(exp, act) == \A i \in DOMAIN exp : exp[i] = X \/ exp[i] = act[i]    \* X matches anything

(* ---- values as the Python API shows them <-> bit patterns ----------------------------------------- *)
InShape(c, v) == IF c.signed THEN -Pow2(c.w - 1) <= v /\ v < Pow2(c.w - 1) ELSE 0 <= v /\ v < Pow2(c.w)
Raw(c, v) == IF v < 0 THEN v + Pow2(c.w) ELSE v                    \* two's complement
Shaped(c, raw) == IF c.signed /\ raw >= Pow2(c.w - 1) THEN raw - Pow2(c.w) ELSE raw
(* an ArrayLayout(unsigned(ew), n) row given as the list of its elements: element 0 in the low bits *)
Pack(c, elems) == LET f[i \in 0..c.n] == IF i = 0 THEN 0 ELSE f[i - 1] + elems[i] * Pow2(c.ew * (i - 1)) IN f[c.n]
DeclRaw(c, v) == IF c.kind = "arr" THEN Pack(c, v) ELSE Raw(c, v)  \* a value handed to init= / ctx.set(row)
DeclOK(c, v) == IF c.kind = "arr" THEN Len(v) = c.n /\ \A i \in 1..c.n : 0 <= v[i] /\ v[i] < Pow2(c.ew)
                ELSE InShape(c, v)

InitRows(c) == [a \in 1..c.depth |-> IF a <= Len(c.init) THEN Bits(DeclRaw(c, c.init[a]), c.w) ELSE Zeros(c.w)]

WellFormed(c) ==
    /\ c.w >= 0 /\ c.depth >= 0 /\ Pow2(c.aw) >= c.depth /\ (c.aw = 0 \/ Pow2(c.aw - 1) < c.depth)
    /\ Len(c.init) <= c.depth /\ \A a \in 1..Len(c.init) : DeclOK(c, c.init[a])
    /\ \A j \in 1..Len(c.wp) : /\ c.wp[j].dom \in {"A", "B"}
                               /\ c.wp[j].gbits >= 1 /\ (c.wp[j].gbits * c.wp[j].ng = c.w \/ c.w = 0)
    /\ \A k \in 1..Len(c.rp) : /\ c.rp[k].dom \in {"comb", "A", "B"}
                               /\ \A t \in 1..Len(c.rp[k].transp) :
                                     /\ c.rp[k].transp[t] \in 1..Len(c.wp)
                                     /\ c.wp[c.rp[k].transp[t]].dom = c.rp[k].dom

(* ---- events --------------------------------------------------------------------------------------- *)
NR(c) == Len(c.rp)
NW(c) == Len(c.wp)
RA(inp) == inp[1]
RE(inp) == inp[2]
WA(inp) == inp[3]
WD(inp) == inp[4]
WE(inp) == inp[5]
Rises(dom, D) == (dom = "A" /\ D % 2 = 1) \/ (dom = "B" /\ (D \div 2) % 2 = 1)
IsSync(c, k) == c.rp[k].dom # "comb"
Transp(c, k) == {c.rp[k].transp[t] : t \in 1..Len(c.rp[k].transp)}

(* enable bit governing row bit i (1-based) of write port j: granule g = (i-1) div gbits <-> bit g of en *)
Enabled(c, inp, j, i) == Bit(WE(inp)[j], ((i - 1) \div c.wp[j].gbits) + 1) = 1
DataBit(inp, j, i) == Bit(WD(inp)[j], i)

(* the write ports that replace bit i of row a (0-based address) in this event *)
Writers(c, D, inp, a, i) == {j \in 1..NW(c) : Rises(c.wp[j].dom, D) /\ WA(inp)[j] = a /\ Enabled(c, inp, j, i)}
(* ... restricted to the transparency set of read port k *)
TWriters(c, D, inp, k, i) == Writers(c, D, inp, RA(inp)[k], i) \cap Transp(c, k)
(* read port k captures at this event *)
Captures(c, D, inp, k) == IsSync(c, k) /\ Rises(c.rp[k].dom, D) /\ RE(inp)[k] = 1
(* a write port of another domain updates the row read port k is reading, at a coincident edge *)
CrossHazard(c, D, inp, k) ==
    \E j \in 1..NW(c) : /\ Rises(c.wp[j].dom, D) /\ c.wp[j].dom # c.rp[k].dom
                        /\ WA(inp)[j] = RA(inp)[k] /\ WE(inp)[j] # 0
One(S) == CHOOSE x \in S : TRUE

(* ---- the contract, declaratively: "" or the name of the first clause broken ------------------------ *)
(* R, L: rows and synchronous read-port outputs before the event; R2, L2: after it.                    *)
BitOK(exp, act) == exp = X \/ exp = act              \* an unknown bit before the event may become anything
Clause(c, D, inp, R, L, R2, L2) ==
    LET depth == c.depth
        w     == c.w
        rowbits == (1..depth) \X (1..w)
        badFrame  == {p \in rowbits : /\ Writers(c, D, inp, p[1] - 1, p[2]) = {}
                                      /\ ~BitOK(R[p[1]][p[2]], R2[p[1]][p[2]])}
        badEffect == {p \in rowbits : LET ws == Writers(c, D, inp, p[1] - 1, p[2]) IN
                                      Cardinality(ws) = 1 /\ R2[p[1]][p[2]] # DataBit(inp, One(ws), p[2])}
        noWriteInRange == \A j \in 1..NW(c) : ~Rises(c.wp[j].dom, D) \/ WA(inp)[j] >= depth \/ WE(inp)[j] = 0
        holders  == {k \in 1..NR(c) : IsSync(c, k) /\ ~Captures(c, D, inp, k)}
        readers  == {k \in 1..NR(c) : Captures(c, D, inp, k) /\ RA(inp)[k] < depth /\ ~CrossHazard(c, D, inp, k)}
        badOld   == {k \in readers : \E i \in 1..w : /\ TWriters(c, D, inp, k, i) = {}
                                                     /\ ~BitOK(R[RA(inp)[k] + 1][i], L2[k][i])}
        (* "the new contents" is itself defined only where exactly one port writes the bit *)
        badNew   == {k \in readers : \E i \in 1..w : LET ws == TWriters(c, D, inp, k, i) IN
                                                     /\ Cardinality(ws) = 1
                                                     /\ Cardinality(Writers(c, D, inp, RA(inp)[k], i)) = 1
                                                     /\ L2[k][i] # DataBit(inp, One(ws), i)}
    IN IF noWriteInRange /\ ~\A a \in 1..depth : Matches(R[a], R2[a])
            THEN "rows_changed_without_an_enabled_write_in_range"
       ELSE IF badFrame # {} THEN "bit_changed_that_no_port_wrote"
       ELSE IF badEffect # {} THEN "enabled_granule_not_replaced_by_write_data"
       ELSE IF \E k \in holders : ~Matches(L[k], L2[k]) THEN "read_port_not_capturing_changed_its_output"
       ELSE IF badOld # {} THEN "sync_read_did_not_capture_the_row_as_before_the_edge"
       ELSE IF badNew # {} THEN "transparent_read_did_not_capture_the_written_data"
       ELSE ""

(* an asynchronous read port's output is a function of the rows and its address *)
AsyncOut(c, R, a) == IF a < c.depth THEN R[a + 1] ELSE Unknown(c.w)

(* direct row access from a testbench *)
TbWriteRows(c, R, i, v) == [R EXCEPT ![i] = Bits(DeclRaw(c, v), c.w)]       \* i: 1-based row number

(* ---- the same semantics, operationally (mut: seeded errors for the non-vacuity runs) ---------------- *)
OpEnabled(c, mut, inp, j, i) ==
    LET g == (i - 1) \div c.wp[j].gbits
        g2 == IF mut = "granule_order_reversed" THEN c.wp[j].ng - 1 - g ELSE g
    IN Bit(WE(inp)[j], g2 + 1) = 1
Merge(c, mut, inp, j, row) == [i \in 1..c.w |-> IF OpEnabled(c, mut, inp, j, i) THEN DataBit(inp, j, i) ELSE row[i]]

StepRows(c, mut, D, inp, R) ==
    LET F[j \in 0..NW(c)] ==
            IF j = 0 THEN R
            ELSE LET a == IF mut = "write_wraps_around" /\ c.depth > 0 THEN WA(inp)[j] % c.depth ELSE WA(inp)[j]
                 IN IF Rises(c.wp[j].dom, D) /\ a < c.depth
                    THEN [F[j - 1] EXCEPT ![a + 1] = Merge(c, mut, inp, j, @)]
                    ELSE F[j - 1]
    IN [a \in 1..c.depth |-> [i \in 1..c.w |->
            IF Cardinality(Writers(c, D, inp, a - 1, i)) >= 2 THEN X ELSE F[NW(c)][a][i]]]

StepLat(c, mut, D, inp, R, L) ==
    [k \in 1..NR(c) |->
        IF ~IsSync(c, k) THEN L[k]
        ELSE IF ~(Rises(c.rp[k].dom, D) /\ (RE(inp)[k] = 1 \/ mut = "read_ignores_enable")) THEN L[k]
        ELSE IF RA(inp)[k] >= c.depth \/ CrossHazard(c, D, inp, k) THEN Unknown(c.w)
        ELSE LET base == IF mut = "read_sees_rows_after_write" THEN StepRows(c, mut, D, inp, R) ELSE R
                 tr   == c.rp[k].transp
                 P[t \in 0..Len(tr)] ==
                    IF t = 0 THEN base[RA(inp)[k] + 1]
                    ELSE IF WA(inp)[tr[t]] = RA(inp)[k] \/ mut = "transparent_for_any_address"
                         THEN Merge(c, mut, inp, tr[t], P[t - 1]) ELSE P[t - 1]
             IN [i \in 1..c.w |-> IF /\ TWriters(c, D, inp, k, i) # {}
                                      /\ Cardinality(Writers(c, D, inp, RA(inp)[k], i)) >= 2
                                   THEN X ELSE P[Len(tr)][i]]]
=============================================================================
