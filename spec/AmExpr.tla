------------------------------- MODULE AmExpr -------------------------------
(* Right-hand-side expressions of the Amaranth language as a typed stack machine.               *)
(* Every documented operator is one action; TLC's reachable states are all programs (postfix    *)
(* operator sequences) up to the bounds, each carrying the shape and the value - for EVERY      *)
(* valuation of the leaf signals - of every stack entry.  Semantics: Python integer and          *)
(* bit-sequence semantics on exact integers with the documented deviations (~ within the shape,  *)
(* // and % by zero give 0, bits above the MSB read 0 / the sign bit).  Shapes: AmShape.         *)
EXTENDS AmShape, TLC

CONSTANTS
    NSig,         \* number of independent raw inputs
    LeafBits,     \* bits of each raw input; valuations = all raw inputs
    LeafShapes,   \* shapes a leaf signal may be declared with (leaf (i, sh) reads raw input i in shape sh)
    Consts,       \* set of [v, sh] constant leaves
    Ops,          \* enabled operator names
    ShAmts,       \* constant shift / rotate amounts
    Idxs,         \* constant indices / slice bounds
    Reps,         \* replication counts
    PartWs,       \* widths for part selects
    PatSets,      \* set of sequences of patterns for matches(); pattern = [k |-> "int", v] | [k |-> "str", w, mask, val]
    MaxLen, MaxStack, MaxW,
    Mode          \* "single": one operator applied to leaves only; "free": any composition

VARIABLES prog, stack
vars == <<prog, stack>>

NV == Pow2(LeafBits * NSig)
Vals == 1..NV
Raw(k, i) == ((k - 1) \div Pow2(LeafBits * (i - 1))) % Pow2(LeafBits)
LeafVal(k, i, sh) == Norm(Raw(k, i) % Pow2(sh.w), sh)

E(sh, f) == [sh |-> sh, v |-> f, c |-> FALSE, p |-> FALSE]  \* c: the entry is a literal constant (Const object)
EC(sh, f) == [sh |-> sh, v |-> f, c |-> TRUE, p |-> FALSE]
(* p: the entry is an array proxy.  Indexing / slicing a proxy is applied to every ELEMENT of the array (guide,    *)
(* "Arrays"), which is not an operation on the selected value, so these spellings are not enabled on proxies.    *)
EP(sh, f) == [sh |-> sh, v |-> f, c |-> FALSE, p |-> TRUE]
Top(n) == stack[Len(stack) - n]               \* Top(0) = last pushed
Pop(n) == SubSeq(stack, 1, Len(stack) - n)
B2I(b) == IF b THEN 1 ELSE 0

Emit(n, e, rec) ==          \* replace the top n entries by e, append rec to the program
    /\ Len(prog) < MaxLen
    /\ (Mode = "single" /\ n > 0) => \A j \in 1..Len(prog) : prog[j].op \in {"PushSig", "PushConst"}
    /\ (Mode = "pair" /\ n > 0) =>
           Cardinality({j \in 1..Len(prog) : prog[j].op \notin {"PushSig", "PushConst"}}) < 2
    /\ e.sh.w <= MaxW
    /\ Len(stack) - n + 1 <= MaxStack
    /\ stack' = Append(Pop(n), e)
    /\ prog' = Append(prog, rec)

(* ------------------------------ leaves ------------------------------ *)
SigCount == Cardinality({j \in 1..Len(prog) : prog[j].op = "PushSig"})
PushSig(i, sh) ==
    /\ "PushSig" \in Ops
    /\ i = SigCount + 1          \* every leaf signal reads its own raw input (independent leaves)
    /\ Emit(0, E(sh, [k \in Vals |-> LeafVal(k, i, sh)]), [op |-> "PushSig", i |-> i, w |-> sh.w, s |-> sh.s])
PushConst(c) ==
    /\ "PushConst" \in Ops
    /\ Emit(0, EC(c.sh, [k \in Vals |-> Norm(c.v, c.sh)]), [op |-> "PushConst", v |-> c.v, w |-> c.sh.w, s |-> c.sh.s])

(* ------------------------------ unary ------------------------------- *)
Un(op, a, x) ==
    CASE op = "Neg" -> -x
      [] op = "Pos" -> x
      [] op = "Inv" -> IF a.s THEN -x - 1 ELSE Pow2(a.w) - 1 - x
      [] op = "Abs" -> AbsI(x)
      [] op \in {"Bool", "Any"} -> B2I(x # 0)
      [] op = "All" -> B2I(UPat(x, a.w) = Pow2(a.w) - 1)
      [] op = "XorR" -> PopCount(x, a.w) % 2
      [] op = "AsSigned" -> FromPat(UPat(x, a.w), Signed(a.w))
      [] op = "AsUnsigned" -> UPat(x, a.w)
Unary(op) ==
    /\ op \in Ops /\ Len(stack) >= 1
    /\ op = "AsSigned" => Top(0).sh.w >= 1
    /\ LET a == Top(0) IN
       Emit(1, IF op = "Pos" THEN a       \* +a is a itself
               ELSE E(OpShape1(op, a.sh), [k \in Vals |-> Un(op, a.sh, a.v[k])]), [op |-> op])

(* ------------------------------ binary ------------------------------ *)
Bin(op, a, b, x, y) ==
    CASE op = "Add" -> x + y
      [] op = "Sub" -> x - y
      [] op = "Mul" -> x * y
      [] op = "FloorDiv" -> IF y = 0 THEN 0 ELSE FloorDiv(x, y)
      [] op = "Mod" -> IF y = 0 THEN 0 ELSE FloorMod(x, y)
      [] op = "Eq" -> B2I(x = y)
      [] op = "Ne" -> B2I(x # y)
      [] op = "Lt" -> B2I(x < y)
      [] op = "Le" -> B2I(x <= y)
      [] op = "Gt" -> B2I(x > y)
      [] op = "Ge" -> B2I(x >= y)
      [] op = "And" -> LET u == Unify(a, b) IN Norm(AndPat(x, y, u.w), u)
      [] op = "Or"  -> LET u == Unify(a, b) IN Norm(OrPat(x, y, u.w), u)
      [] op = "Xor" -> LET u == Unify(a, b) IN Norm(XorPat(x, y, u.w), u)
      [] op = "Shl" -> x * Pow2(y)
      [] op = "Shr" -> IF y >= 30 THEN (IF x < 0 THEN -1 ELSE 0) ELSE x \div Pow2(y)   \* (|x| < 2^30: same value)
Binary(op) ==
    /\ op \in Ops /\ Len(stack) >= 2
    /\ LET a == Top(1)
           b == Top(0) IN
       /\ op \in {"Shl", "Shr"} => ~b.sh.s
       /\ op = "Shl" => a.sh.w + Pow2(b.sh.w) - 1 <= MaxW
       /\ op = "Mul" => a.sh.w + b.sh.w <= MaxW
       /\ Emit(2, E(OpShape2(op, a.sh, b.sh), [k \in Vals |-> Bin(op, a.sh, b.sh, a.v[k], b.v[k])]), [op |-> op])

(* --------------------- constant shifts and rotates --------------------- *)
ShiftLeft(n) ==
    /\ "ShiftLeft" \in Ops /\ Len(stack) >= 1
    /\ LET a == Top(0) IN
       Emit(1, E(ShiftLeftShape(a.sh, n),
                 [k \in Vals |-> IF n >= 0 THEN a.v[k] * Pow2(n) ELSE a.v[k] \div Pow2(-n)]),
            [op |-> "ShiftLeft", n |-> n])
ShiftRight(n) ==
    /\ "ShiftRight" \in Ops /\ Len(stack) >= 1
    /\ LET a == Top(0) IN
       Emit(1, E(ShiftRightShape(a.sh, n),
                 [k \in Vals |-> IF n >= 0 THEN a.v[k] \div Pow2(n) ELSE a.v[k] * Pow2(-n)]),
            [op |-> "ShiftRight", n |-> n])
(* rotate left by n: bit i of the result is bit (i - n) mod w of the operand; result unsigned(w) *)
RotL(x, w, n) == IF w = 0 THEN 0 ELSE FromBits([i \in 0..(w - 1) |-> Bit(UPat(x, w), (i - n) % w)], w)
RotateLeft(n) ==
    /\ "RotateLeft" \in Ops /\ Len(stack) >= 1
    /\ LET a == Top(0) IN
       Emit(1, E(Unsigned(a.sh.w), [k \in Vals |-> RotL(a.v[k], a.sh.w, n)]), [op |-> "RotateLeft", n |-> n])
RotateRight(n) ==
    /\ "RotateRight" \in Ops /\ Len(stack) >= 1
    /\ LET a == Top(0) IN
       Emit(1, E(Unsigned(a.sh.w), [k \in Vals |-> RotL(a.v[k], a.sh.w, -n)]), [op |-> "RotateRight", n |-> n])

(* ------------------------ bit-sequence operators ------------------------ *)
Index(i) ==
    /\ "Index" \in Ops /\ Len(stack) >= 1
    /\ LET a == Top(0) IN
       /\ ~a.p
       /\ -a.sh.w <= i /\ i < a.sh.w
       /\ Emit(1, E(Unsigned(1), [k \in Vals |-> Bit(UPat(a.v[k], a.sh.w), i % a.sh.w)]), [op |-> "Index", i |-> i])
Slice(lo, hi) ==
    /\ "Slice" \in Ops /\ Len(stack) >= 1
    /\ LET a == Top(0)
           l == ClampIdx(lo, a.sh.w)
           h == ClampIdx(hi, a.sh.w) IN
       /\ ~a.p
       /\ l <= h
       /\ Emit(1, E(Unsigned(h - l), [k \in Vals |-> Field(UPat(a.v[k], a.sh.w), l, h)]),
               [op |-> "Slice", lo |-> lo, hi |-> hi])
(* a[::st] for st in {2, 3, -1, -2}: Python extended slice over all bits *)
StepIdx(w, st) == IF st > 0 THEN [j \in 0..((w + st - 1) \div st - 1) |-> j * st]
                  ELSE [j \in 0..((w + (-st) - 1) \div (-st) - 1) |-> w - 1 + j * st]
SliceStep(st) ==
    /\ "SliceStep" \in Ops /\ Len(stack) >= 1
    /\ LET a == Top(0)
           ix == StepIdx(a.sh.w, st)
           n == IF a.sh.w = 0 THEN 0 ELSE (a.sh.w + AbsI(st) - 1) \div AbsI(st) IN
       /\ ~a.p
       /\ Emit(1, E(Unsigned(n), [k \in Vals |-> FromBits([j \in 0..(n - 1) |-> Bit(UPat(a.v[k], a.sh.w), ix[j])], n)]),
            [op |-> "SliceStep", st |-> st])
(* Cat(a, b, ...): first operand in the least significant position; operands as bit patterns *)
Cat2 ==
    /\ "Cat" \in Ops /\ Len(stack) >= 2
    /\ LET a == Top(1)
           b == Top(0) IN
       Emit(2, E(Unsigned(a.sh.w + b.sh.w),
                 [k \in Vals |-> UPat(a.v[k], a.sh.w) + Pow2(a.sh.w) * UPat(b.v[k], b.sh.w)]), [op |-> "Cat", n |-> 2])
Cat3 ==
    /\ "Cat" \in Ops /\ Len(stack) >= 3
    /\ LET a == Top(2)
           b == Top(1)
           c == Top(0) IN
       Emit(3, E(Unsigned(a.sh.w + b.sh.w + c.sh.w),
                 [k \in Vals |-> UPat(a.v[k], a.sh.w) + Pow2(a.sh.w) * UPat(b.v[k], b.sh.w)
                                 + Pow2(a.sh.w + b.sh.w) * UPat(c.v[k], c.sh.w)]), [op |-> "Cat", n |-> 3])
RECURSIVE RepVal(_, _, _)
RepVal(p, w, n) == IF n = 0 THEN 0 ELSE p + Pow2(w) * RepVal(p, w, n - 1)
Replicate(n) ==
    /\ "Replicate" \in Ops /\ Len(stack) >= 1
    /\ LET a == Top(0) IN
       /\ a.sh.w * n <= MaxW
       /\ Emit(1, E(Unsigned(a.sh.w * n), [k \in Vals |-> RepVal(UPat(a.v[k], a.sh.w), a.sh.w, n)]),
               [op |-> "Replicate", n |-> n])
(* part selects: bits off .. off+w-1 of the operand; beyond the MSB: 0 (unsigned) / sign (signed), *)
(* i.e. the bits of the integer itself                                                             *)
PartVal(x, off, w) == (x \div Pow2(off)) % Pow2(w)
BitSelect(w) ==          \* operand below, run-time offset on top
    /\ "BitSelect" \in Ops /\ Len(stack) >= 2
    /\ LET a == Top(1)
           o == Top(0) IN
       \* an offset that does not depend on the inputs may be folded to the constant spelling, which the
       \* documentation defines only while the selected bits lie inside the operand
       /\ (\A k \in Vals : o.v[k] = o.v[1]) => o.v[1] + w <= a.sh.w
       /\ ~o.sh.s /\ o.sh.w >= 1 /\ Pow2(o.sh.w) - 1 + w <= 30
       /\ Emit(2, E(Unsigned(w), [k \in Vals |-> PartVal(a.v[k], o.v[k], w)]), [op |-> "BitSelect", w |-> w])
WordSelect(w) ==
    /\ "WordSelect" \in Ops /\ Len(stack) >= 2 /\ w >= 1
    /\ LET a == Top(1)
           o == Top(0) IN
       /\ (\A k \in Vals : o.v[k] = o.v[1]) => (o.v[1] + 1) * w <= a.sh.w
       /\ ~o.sh.s /\ o.sh.w >= 1 /\ (Pow2(o.sh.w) - 1) * w + w <= 30
       /\ Emit(2, E(Unsigned(w), [k \in Vals |-> PartVal(a.v[k], o.v[k] * w, w)]), [op |-> "WordSelect", w |-> w])
(* constant offsets, documented only when the selected bits lie within the operand *)
BitSelectC(off, w) ==
    /\ "BitSelectC" \in Ops /\ Len(stack) >= 1
    /\ LET a == Top(0) IN
       /\ off >= 0 /\ off + w <= a.sh.w
       /\ Emit(1, E(Unsigned(w), [k \in Vals |-> PartVal(a.v[k], off, w)]), [op |-> "BitSelectC", off |-> off, w |-> w])
WordSelectC(off, w) ==
    /\ "WordSelectC" \in Ops /\ Len(stack) >= 1
    /\ LET a == Top(0) IN
       /\ off >= 0 /\ (off + 1) * w <= a.sh.w
       /\ Emit(1, E(Unsigned(w), [k \in Vals |-> PartVal(a.v[k], off * w, w)]), [op |-> "WordSelectC", off |-> off, w |-> w])

(* ------------------------------ matches ------------------------------ *)
PatOK(p, sh) == IF p.k = "int" THEN TRUE ELSE p.w = sh.w   \* a string pattern must be as long as the value
PatMatch(p, sh, x) ==
    IF p.k = "int" THEN Fits(p.v, sh) /\ x = p.v
    ELSE AndPat(UPat(x, sh.w), p.mask, sh.w) = p.val
Matches(ps) ==
    /\ "Matches" \in Ops /\ Len(stack) >= 1
    /\ LET a == Top(0) IN
       /\ \A j \in 1..Len(ps) : PatOK(ps[j], a.sh)
       /\ Emit(1, E(Unsigned(1), [k \in Vals |-> B2I(\E j \in 1..Len(ps) : PatMatch(ps[j], a.sh, a.v[k]))]),
               [op |-> "Matches", ps |-> ps])

(* --------------------------- choice operators --------------------------- *)
Mux ==                   \* Mux(sel, a, b): sel pushed first
    /\ "Mux" \in Ops /\ Len(stack) >= 3
    /\ LET sel == Top(2)
           a == Top(1)
           b == Top(0) IN
       Emit(3, E(Unify(a.sh, b.sh), [k \in Vals |-> IF sel.v[k] # 0 THEN a.v[k] ELSE b.v[k]]), [op |-> "Mux"])
ArrayIndex2 ==           \* Array([e0, e1])[idx]: e0, e1, idx pushed in this order; idx unsigned(1): always in range
    /\ "ArrayIndex" \in Ops /\ Len(stack) >= 3
    /\ LET e0 == Top(2)
           e1 == Top(1)
           ix == Top(0) IN
       /\ ix.sh \in {Unsigned(1), Unsigned(0)}
       \* the proxy is shape-wise an equivalent mux tree over the elements the index can address
       /\ Emit(3, EP(IF ix.sh.w = 0 THEN e0.sh ELSE Unify(e0.sh, e1.sh),
                    [k \in Vals |-> IF ix.v[k] = 0 THEN e0.v[k] ELSE e1.v[k]]), [op |-> "ArrayIndex", n |-> 2])
ArrayIndex3 ==           \* Array([e0, e1, e2])[idx] with a 1-bit index: e2 can never be selected
    /\ "ArrayIndex" \in Ops /\ Len(stack) >= 4
    /\ LET e0 == Top(3)
           e1 == Top(2)
           e2 == Top(1)
           ix == Top(0) IN
       /\ ix.sh = Unsigned(1)
       /\ Emit(4, EP(Unify(e0.sh, e1.sh), [k \in Vals |-> IF ix.v[k] = 0 THEN e0.v[k] ELSE e1.v[k]]), [op |-> "ArrayIndex", n |-> 3])

(* Array([e0, e1, e2])[idx] with a two-bit index of either signedness: an index whose value equals no position     *)
(* (3 for an unsigned, -2 / -1 for a signed index; position 2 cannot even be written in signed(2)) selects nothing: *)
(* reading gives 0.  Only the testbench side (C05: "handled identically in both") is judged on this.                *)
ArrayIndexS ==
    /\ "ArrayIndexS" \in Ops /\ Len(stack) >= 4
    /\ LET e0 == Top(3)
           e1 == Top(2)
           e2 == Top(1)
           ix == Top(0) IN
       /\ ix.sh \in {Signed(2), Unsigned(2)}
       /\ Emit(4, EP(Unify(Unify(e0.sh, e1.sh), e2.sh),
                    [k \in Vals |-> IF ix.v[k] = 0 THEN e0.v[k] ELSE IF ix.v[k] = 1 THEN e1.v[k]
                                    ELSE IF ix.v[k] = 2 THEN e2.v[k] ELSE 0]), [op |-> "ArrayIndex", n |-> 3])

UnOps == {"Neg", "Pos", "Inv", "Abs", "Bool", "Any", "All", "XorR", "AsSigned", "AsUnsigned"}
BinOps == {"Add", "Sub", "Mul", "FloorDiv", "Mod", "Eq", "Ne", "Lt", "Le", "Gt", "Ge", "And", "Or", "Xor", "Shl", "Shr"}

Init == prog = <<>> /\ stack = <<>>
Next ==
    \/ \E i \in 1..NSig, sh \in LeafShapes : PushSig(i, sh)
    \/ \E c \in Consts : PushConst(c)
    \/ \E op \in UnOps : Unary(op)
    \/ \E op \in BinOps : Binary(op)
    \/ \E n \in ShAmts : ShiftLeft(n) \/ ShiftRight(n) \/ RotateLeft(n) \/ RotateRight(n)
    \/ \E i \in Idxs : Index(i)
    \/ \E lo \in Idxs, hi \in Idxs : Slice(lo, hi)
    \/ \E st \in {2, 3, -1, -2} : SliceStep(st)
    \/ Cat2 \/ Cat3
    \/ \E n \in Reps : Replicate(n)
    \/ \E w \in PartWs : BitSelect(w) \/ WordSelect(w)
    \/ \E off \in (Idxs \cap Nat), w \in PartWs : BitSelectC(off, w) \/ WordSelectC(off, w)
    \/ \E ps \in PatSets : Matches(ps)
    \/ Mux \/ ArrayIndex2 \/ ArrayIndex3 \/ ArrayIndexS
Spec == Init /\ [][Next]_vars

(* ------------------------------ properties ------------------------------ *)
(* no operator overflows, wraps or loses a sign: every value lies in the range of the reported shape *)
NoOverflow == \A j \in 1..Len(stack) : \A k \in Vals : Fits(stack[j].v[k], stack[j].sh)
WellFormedShapes == \A j \in 1..Len(stack) : IsShape(stack[j].sh)
Last == prog[Len(prog)].op
SeqOpsUnsigned == Len(prog) > 0 /\ Last \in {"Index", "Slice", "SliceStep", "Cat", "Replicate", "BitSelect", "WordSelect",
                                             "BitSelectC", "WordSelectC", "RotateLeft", "RotateRight", "AsUnsigned"}
                    => ~Top(0).sh.s
CmpIsBit == Len(prog) > 0 /\ Last \in {"Eq", "Ne", "Lt", "Le", "Gt", "Ge", "Bool", "Any", "All", "XorR", "Matches"}
                    => Top(0).sh = Unsigned(1) /\ \A k \in Vals : Top(0).v[k] \in {0, 1}
=============================================================================
