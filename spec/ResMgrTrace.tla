------------------------------ MODULE ResMgrTrace ------------------------------
(* Trace validation for amaranth.build.res.ResourceManager / build.plat.Platform (property C19). *)
(* Every execution recorded from the real code (harness/props/c19.py) -- a sequence of           *)
(* request(name, number, dir=, xdr=) calls on a fresh manager built from a platform table,        *)
(* optionally ended by Platform.build(design, do_build=False) -- must agree, call by call, with   *)
(* the contract ResMgrOps!Outcome evaluated on the specification's own allocation state.          *)
(* The batch (tables and traces) is read from the JSON file named by TRACE_FILE; each trace is    *)
(* validated in its own behaviour (tid chosen in Init); the verdict is total: every trace prints  *)
(* <<"ACC", tid, steps>> or <<"REJ", tid, step, clause, info>>.                                    *)
(*                                                                                                *)
(* trace = [table |-> index into Batch.tables, steps |-> << step, ... >>]                          *)
(* step  = [type |-> "request", req |-> [name, number, dir, xdr],                                  *)
(*          obs |-> [class |-> "granted" | "ResourceError" | "OtherError",                         *)
(*                   ports |-> << [path, diff, width, p, n, invert (per bit), direction, dir, xdr,  *)
(*                                 clock_ps] >> ]]        (what the returned object shows)         *)
(*       | [type |-> "build", has_clocks |-> BOOLEAN,                                              *)
(*          top    |-> << [known, name, number, path, pol, width, raw] >>   ports of the top module *)
(*          lines  |-> << [known, name, number, path, pol, bit, pin, raw] >> location constraints   *)
(*          clocks |-> << [known, name, number, path, pol, period_ps, raw] >> ]  clock constraints   *)
(*   known = the harness received this I/O port from a granted request (name, number, path, pol).   *)
EXTENDS ResMgrOps, Json, IOUtils, TLCExt

Batch  == JsonDeserialize(IOEnv.TRACE_FILE)
Traces == Batch.traces
Tables == Batch.tables

VARIABLES tid, i, requested, owner, granted,
          taint,      \* ghost: physical pin -> the refused requests <<name, number, reason>> that named it
          verdict
vars == <<tid, i, requested, owner, granted, taint, verdict>>

Tr == Traces[tid]
T  == Tables[Tr.table]

ASSUME \A k \in DOMAIN Tables : TableOK(Tables[k])

Min(S) == CHOOSE x \in S : \A y \in S : x <= y

(* ---------------------------------- request steps ------------------------------------------ *)
PortClause(e, o) ==
    IF o.path # e.path THEN "port_member_path"
    ELSE IF o.diff # e.diff THEN "port_kind"
    ELSE IF o.width # Len(e.p) THEN "port_width"
    ELSE IF o.p # e.p THEN (IF Len(o.p) = Len(e.p) /\ Range(o.p) = Range(e.p) THEN "pin_order" ELSE "pin_names")
    ELSE IF o.n # e.n THEN (IF Len(o.n) = Len(e.n) /\ Range(o.n) = Range(e.n) THEN "pin_order" ELSE "pin_names")
    ELSE IF o.invert # [b \in DOMAIN e.p |-> e.invert] THEN "invert"
    ELSE IF o.direction # e.direction THEN "direction"
    ELSE IF o.dir # e.dir THEN "pin_dir"
    ELSE IF o.xdr # e.xdr THEN "pin_xdr"
    ELSE IF o.clock_ps # e.clock * 1000 THEN "clock_period"
    ELSE ""

PortsClause(ep, op) ==
    IF Len(op) # Len(ep) THEN "port_count"
    ELSE LET bad == {k \in DOMAIN ep : PortClause(ep[k], op[k]) # ""}
         IN IF bad = {} THEN "" ELSE PortClause(ep[Min(bad)], op[Min(bad)])

GrantedAgainst(why) ==
    IF "already_requested" \in why THEN "resource_granted_twice"
    ELSE IF "pin_conflict" \in why THEN "shared_pin_granted"
    ELSE IF "unknown" \in why THEN "unknown_resource_granted"
    ELSE IF "bad_dir" \in why THEN "bad_direction_granted"
    ELSE "bad_xdr_granted"

ReqPins(q) == IF HasRes(T, <<q.name, q.number>>) THEN PortPins(ResPorts(T, <<q.name, q.number>>)) ELSE {}
TaintOn(q) == UNION {taint[pin] : pin \in ReqPins(q) \cap DOMAIN taint}

RequestClause(e, s) ==
    IF ~ReqOK(T, s.req) THEN "harness_bad_request"
    ELSE IF e.kind = "grant"
    THEN IF s.obs.class # "granted"
         THEN (IF TaintOn(s.req) # {} THEN "refused_request_changed_allocation" ELSE "legitimate_request_refused")
         ELSE PortsClause(e.ports, s.obs.ports)
    ELSE IF s.obs.class = "granted" THEN GrantedAgainst(e.why)
    ELSE IF s.obs.class \notin ErrClasses(e.why)
    THEN (IF s.obs.class = "ResourceError" /\ TaintOn(s.req) # {} THEN "refused_request_changed_allocation"
          ELSE "wrong_error_class")
    ELSE ""

(* ---------------------------------- the build step ----------------------------------------- *)
LeafOf(id, path) ==
    LET hits == {k \in DOMAIN granted[id] : granted[id][k].path = path}
    IN IF hits = {} THEN 0 ELSE CHOOSE k \in hits : TRUE

LineClause(l) ==
    IF ~l.known
    THEN (IF l.pin \in DOMAIN taint THEN "refused_request_leaked_into_constraints" ELSE "constraint_for_unknown_port")
    ELSE LET id == <<l.name, l.number>> IN
         IF id \notin DOMAIN granted THEN "constraint_for_ungranted_request"
         ELSE IF LeafOf(id, l.path) = 0 THEN "constraint_for_unknown_port"
         ELSE LET v  == granted[id][LeafOf(id, l.path)]
                  sq == IF l.pol = "n" THEN v.n ELSE v.p
              IN IF l.pol # "n" /\ l.pol # Pol(v) THEN "constraint_for_unknown_port"
                 ELSE IF (l.bit + 1) \notin DOMAIN sq THEN "constraint_bit_out_of_range"
                 ELSE IF sq[l.bit + 1] # l.pin THEN "constraint_names_wrong_pin"
                 ELSE ""

ClockClause(c) ==
    IF ~c.known THEN (IF DOMAIN taint # {} THEN "refused_request_leaked_into_constraints"
                      ELSE "clock_constraint_for_unknown_port")
    ELSE LET id == <<c.name, c.number>> IN
         IF id \notin DOMAIN granted THEN "clock_constraint_for_ungranted_request"
         ELSE IF LeafOf(id, c.path) = 0 THEN "clock_constraint_for_unknown_port"
         ELSE LET v == granted[id][LeafOf(id, c.path)] IN
              IF c.pol # Pol(v) \/ v.clock = 0 THEN "clock_constraint_for_unclocked_port"
              ELSE IF c.period_ps > v.clock * 1000 + 1 \/ c.period_ps + 1 < v.clock * 1000 THEN "clock_period_wrong"
              ELSE ""

FirstBad(sq, Cl(_)) ==
    LET bad == {k \in DOMAIN sq : Cl(sq[k]) # ""} IN IF bad = {} THEN "" ELSE Cl(sq[Min(bad)])

InTop(s, id, v) == \E k \in DOMAIN s.top : LET t == s.top[k] IN
                      t.known /\ <<t.name, t.number>> = id /\ t.path = v.path /\ t.pol = Pol(v)

BuildClause(s) ==
    LET c1 == FirstBad(s.lines, LineClause) IN
    IF c1 # "" THEN c1
    ELSE IF \E a, b \in DOMAIN s.lines : a # b /\ s.lines[a].raw = s.lines[b].raw /\ s.lines[a].bit = s.lines[b].bit
         THEN "constraint_duplicate"
    ELSE IF \E a, b \in DOMAIN s.lines : a # b /\ s.lines[a].pin = s.lines[b].pin THEN "pin_assigned_twice"
    ELSE IF \E k \in DOMAIN s.top : ~s.top[k].known
         THEN (IF DOMAIN taint # {} THEN "refused_request_leaked_into_design" ELSE "design_port_of_unknown_origin")
    ELSE IF \E k \in DOMAIN s.top : \E b \in 0..(s.top[k].width - 1) :
                ~\E a \in DOMAIN s.lines : s.lines[a].raw = s.top[k].raw /\ s.lines[a].bit = b
         THEN "constraint_missing"
    ELSE IF \E id \in DOMAIN granted : \E k \in DOMAIN granted[id] : ~InTop(s, id, granted[id][k])
         THEN "harness_granted_port_unused"
    ELSE IF ~s.has_clocks THEN ""
    ELSE LET c2 == FirstBad(s.clocks, ClockClause) IN
         IF c2 # "" THEN c2
         ELSE IF \E a, b \in DOMAIN s.clocks : a # b /\ s.clocks[a].raw = s.clocks[b].raw THEN "clock_duplicate"
         ELSE IF \E id \in DOMAIN granted : \E k \in DOMAIN granted[id] :
                    /\ granted[id][k].clock # 0
                    /\ ~\E a \in DOMAIN s.clocks : LET c == s.clocks[a] IN
                           c.known /\ <<c.name, c.number>> = id /\ c.path = granted[id][k].path
              THEN "clock_missing"
         ELSE ""

(* ---------------------------------- the validator ------------------------------------------ *)
Init == /\ tid \in 1..Len(Traces) /\ i = 1
        /\ requested = {} /\ owner = <<>> /\ granted = <<>> /\ taint = <<>> /\ verdict = ""

Step ==
    /\ verdict = "" /\ i <= Len(Tr.steps)
    /\ LET s == Tr.steps[i] IN
       IF s.type = "build"
       THEN LET c == BuildClause(s) IN
            IF c # ""
            THEN /\ verdict' = c /\ PrintT(<<"REJ", tid, i, c, [after |-> UNION {taint[pin] : pin \in DOMAIN taint},
                                                             constraints |-> Constraints(granted)]>>)
                 /\ UNCHANGED <<tid, i, requested, owner, granted, taint>>
            ELSE /\ i' = i + 1
                 /\ (Tr.show => PrintT(<<"CONSTRAINTS", tid, Constraints(granted)>>))
                 /\ UNCHANGED <<tid, requested, owner, granted, taint, verdict>>
       ELSE LET e  == Outcome(T, requested, owner, s.req)
                c  == RequestClause(e, s)
                id == <<s.req.name, s.req.number>>
            IN IF c # ""
               THEN /\ verdict' = c /\ PrintT(<<"REJ", tid, i, c, [after |-> TaintOn(s.req), expected |-> e]>>)
                    /\ UNCHANGED <<tid, i, requested, owner, granted, taint>>
               ELSE /\ i' = i + 1
                    /\ IF e.kind = "grant"
                       THEN /\ requested' = requested \cup {id}
                            /\ owner' = OwnerOf(id, e.ports) @@ owner
                            /\ granted' = (id :> View(e.ports)) @@ granted
                            /\ UNCHANGED taint
                       ELSE /\ taint' = [pin \in DOMAIN taint \cup ReqPins(s.req) |->
                                            (IF pin \in DOMAIN taint THEN taint[pin] ELSE {})
                                            \cup (IF pin \in ReqPins(s.req) THEN {<<id[1], id[2], w>> : w \in e.why} ELSE {})]
                            /\ UNCHANGED <<requested, owner, granted>>
                    /\ UNCHANGED <<tid, verdict>>

Finish ==
    /\ verdict = "" /\ i = Len(Tr.steps) + 1
    /\ verdict' = "ACC" /\ PrintT(<<"ACC", tid, Len(Tr.steps)>>)
    /\ UNCHANGED <<tid, i, requested, owner, granted, taint>>

Next == Step \/ Finish
Spec == Init /\ [][Next]_vars

(* invariants of the specification's own state along every real execution *)
OneToOne == \A a, b \in DOMAIN granted : a # b => Range(PortPinSeq(granted[a])) \cap Range(PortPinSeq(granted[b])) = {}
OwnerExact == DOMAIN granted = requested /\ DOMAIN owner = UNION {Range(PortPinSeq(granted[a])) : a \in DOMAIN granted}
=============================================================================
