------------------------------ MODULE AmMemTrace ------------------------------
(* Trace validation for amaranth.lib.memory (property C11): every execution recorded from the real      *)
(* Memory in the Python simulator (harness/mem_drive.py) must be a behaviour of the array-of-rows        *)
(* semantics of AmMemOps.  A batch of traces is read from the JSON file named by the environment        *)
(* variable TRACE_FILE; each trace is validated in its own behaviour (tid chosen in Init).  The verdict *)
(* is total: every trace ends by printing                                                               *)
(*    <<"ACC", tid, steps, st>>    st = <<transparent captures, plain captures of a row written at the  *)
(*                                 same edge (old data), writes beyond depth, reads beyond depth,       *)
(*                                 colliding bits, cross-domain hazards, of which old data was seen,    *)
(*                                 partial-granule writes, testbench writes>>  (how often each clause   *)
(*                                 was really exercised; the harness refuses vacuous batches)           *)
(* or <<"REJ", tid, step, clause, port-or-row>>.                                                        *)
(*                                                                                                      *)
(* trace = [cfg |-> configuration (AmMemOps), steps |-> << step, ... >>]                                *)
(* step  = <<D, ra, re, wa, wd, we, tbi, tbv, outs, rows>>                                              *)
(*    first the testbench writes row tbi (1-based; 0: none) with value tbv, then the clocks in D rise   *)
(*    together (0: none) while the ports hold the inputs ra..we; afterwards the data output of every    *)
(*    read port (outs) and every row, read directly by the testbench (rows), are sampled, as the Python *)
(*    values the simulator returns.                                                                     *)
(* The monitor's state is (rows, outputs) as last observed, starting from the declared initial contents *)
(* and unknown outputs.  A step is judged by the declarative contract AmMemOps!Clause on (state before, *)
(* event, observed state after), by the asynchronous-read rule on the observed rows, and finally by     *)
(* comparison with the deterministic step function.  Where the semantics leave a bit open (read beyond  *)
(* the depth, colliding writes, cross-domain read/write hazard) any observed value is accepted and      *)
(* adopted: it only has to be held / read back consistently from then on.                               *)
EXTENDS AmMemOps, Json, IOUtils, TLC, TLCExt

Batch == JsonDeserialize(IOEnv.TRACE_FILE)
Traces == Batch.traces

VARIABLES tid, i, rows, lat, st, verdict
vars == <<tid, i, rows, lat, st, verdict>>

T == Traces[tid]
C == T.cfg
NStats == 9

ObsBits(v) == Bits(Raw(C, v), C.w)
Count(S) == Cardinality(S)

(* <<"", 0>> or <<clause, index>> for step s from monitor state (rows, lat) *)
Judge(s) ==
    LET D    == s[1]
        inp  == <<s[2], s[3], s[4], s[5], s[6]>>
        tbi  == s[7]
        tbv  == s[8]
        outs == s[9]
        orow == s[10]
        shapeBadO == {k \in 1..NR(C) : ~InShape(C, outs[k])}
        shapeBadR == {a \in 1..C.depth : ~InShape(C, orow[a])}
    IN IF Len(outs) # NR(C) \/ Len(orow) # C.depth THEN <<"malformed_step", 0>>
       ELSE IF tbi # 0 /\ ~(tbi \in 1..C.depth /\ DeclOK(C, tbv)) THEN <<"malformed_step", 1>>
       ELSE IF shapeBadO # {} THEN <<"observed_output_outside_row_shape", One(shapeBadO)>>
       ELSE IF shapeBadR # {} THEN <<"observed_row_outside_row_shape", One(shapeBadR)>>
       ELSE
       LET R1 == IF tbi # 0 THEN TbWriteRows(C, rows, tbi, tbv) ELSE rows
           R2 == [a \in 1..C.depth |-> ObsBits(orow[a])]
           L2 == [k \in 1..NR(C) |-> ObsBits(outs[k])]
           cl == Clause(C, D, inp, R1, lat, R2, L2)
           badAsync == {k \in 1..NR(C) : ~IsSync(C, k) /\ ~Matches(AsyncOut(C, R2, RA(inp)[k]), L2[k])}
           eR == StepRows(C, "", D, inp, R1)
           eL == StepLat(C, "", D, inp, R1, lat)
       IN IF cl # "" THEN <<cl, 0>>
          ELSE IF badAsync # {} THEN <<"async_read_output_is_not_the_addressed_row", One(badAsync)>>
          ELSE IF \E a \in 1..C.depth : ~Matches(eR[a], R2[a]) THEN <<"step_function_disagrees_on_rows", 0>>
          ELSE IF \E k \in 1..NR(C) : IsSync(C, k) /\ ~Matches(eL[k], L2[k])
               THEN <<"step_function_disagrees_on_outputs", 0>>
          ELSE <<"", 0>>

(* how often the interesting clauses were exercised by step s *)
Stats(s) ==
    LET D    == s[1]
        inp  == <<s[2], s[3], s[4], s[5], s[6]>>
        R1   == IF s[7] # 0 THEN TbWriteRows(C, rows, s[7], s[8]) ELSE rows
        L2   == [k \in 1..NR(C) |-> ObsBits(s[9][k])]
        rd   == {k \in 1..NR(C) : Captures(C, D, inp, k) /\ RA(inp)[k] < C.depth}
        ok   == {k \in rd : ~CrossHazard(C, D, inp, k)}
        hz   == rd \ ok
        actw == {j \in 1..NW(C) : Rises(C.wp[j].dom, D) /\ WE(inp)[j] # 0}
    IN << Count({k \in ok : \E b \in 1..C.w : Cardinality(TWriters(C, D, inp, k, b)) = 1}),
          Count({k \in ok : \E b \in 1..C.w : /\ TWriters(C, D, inp, k, b) = {}
                                              /\ Writers(C, D, inp, RA(inp)[k], b) # {}}),
          Count({j \in actw : WA(inp)[j] >= C.depth}),
          Count({k \in 1..NR(C) : RA(inp)[k] >= C.depth /\ (~IsSync(C, k) \/ Captures(C, D, inp, k))}),
          Count({p \in (1..C.depth) \X (1..C.w) : Cardinality(Writers(C, D, inp, p[1] - 1, p[2])) >= 2}),
          Count(hz),
          Count({k \in hz : L2[k] = R1[RA(inp)[k] + 1]}),
          Count({j \in actw : C.wp[j].ng > 1 /\ WE(inp)[j] # Pow2(C.wp[j].ng) - 1 /\ WA(inp)[j] < C.depth}),
          IF s[7] # 0 THEN 1 ELSE 0 >>

Init == /\ tid \in 1..Len(Traces) /\ i = 1
        /\ rows = InitRows(Traces[tid].cfg)
        /\ lat = [k \in 1..Len(Traces[tid].cfg.rp) |-> Unknown(Traces[tid].cfg.w)]
        /\ st = [n \in 1..NStats |-> 0]
        /\ verdict = ""

Step ==
    /\ verdict = "" /\ i <= Len(T.steps)
    /\ LET s == T.steps[i]
           j == IF WellFormed(C) THEN Judge(s) ELSE <<"malformed_configuration", 0>>
       IN IF j[1] # ""
          THEN /\ verdict' = j[1] /\ PrintT(<<"REJ", tid, i, j[1], j[2]>>)
               /\ UNCHANGED <<tid, i, rows, lat, st>>
          ELSE /\ rows' = [a \in 1..C.depth |-> ObsBits(s[10][a])]
               /\ lat' = [k \in 1..NR(C) |-> ObsBits(s[9][k])]
               /\ st' = LET d == Stats(s) IN [n \in 1..NStats |-> st[n] + d[n]]
               /\ i' = i + 1
               /\ UNCHANGED <<tid, verdict>>

Finish ==
    /\ verdict = "" /\ i = Len(T.steps) + 1
    /\ verdict' = "ACC" /\ PrintT(<<"ACC", tid, Len(T.steps), st>>)
    /\ UNCHANGED <<tid, i, rows, lat, st>>

Next == Step \/ Finish
Spec == Init /\ [][Next]_vars

(* the monitor's own state is always concrete and within the shape *)
MonitorConcrete == /\ \A a \in 1..Len(rows) : Len(rows[a]) = C.w
                   /\ i = 1 \/ \A a \in 1..Len(rows) : Concrete(rows[a])
=============================================================================
