---- MODULE MC_AmExpr ----
(* Model-checking instances of AmExpr (constants as definitions; the .cfg picks an instance). *)
EXTENDS AmExpr
LS4 == {Unsigned(w) : w \in 0..4} \cup {Signed(w) : w \in 1..4}
LS3 == {Unsigned(w) : w \in 0..3} \cup {Signed(w) : w \in 1..3}
LS2 == {Unsigned(w) : w \in 0..2} \cup {Signed(w) : w \in 1..2}
(* mutant used to show that NoOverflow is not vacuous: addition without the carry bit *)
BadShiftLeftShape(a, n) == a     \* a constant left shift that forgets to widen the result
LSp == {Unsigned(0), Unsigned(2), Signed(2)}
(* wide leaves with sampled valuations: raw inputs of 8 bits taken from corner values *)
LSw == {Unsigned(0), Signed(1), Unsigned(3), Unsigned(5), Signed(5), Unsigned(7), Signed(8), Unsigned(8)}
WideRaws == {0, 1, 85, 127, 128, 170, 200, 255}
WideVals == {r1 + 256 * r2 + 1 : r1 \in WideRaws, r2 \in WideRaws}
LSc =={Unsigned(0), Unsigned(2), Signed(2), Unsigned(3), Signed(3)}
CS == {[v |-> 0, sh |-> Unsigned(0)], [v |-> 5, sh |-> Unsigned(3)], [v |-> -3, sh |-> Signed(3)],
       [v |-> 1, sh |-> Unsigned(1)], [v |-> -1, sh |-> Signed(1)]}
CS2 == {[v |-> 0, sh |-> Unsigned(0)], [v |-> 2, sh |-> Unsigned(2)], [v |-> -1, sh |-> Signed(1)]}
SeqOps == {"ShiftLeft", "ShiftRight", "RotateLeft", "RotateRight", "Index", "Slice", "SliceStep", "Cat", "Replicate",
           "BitSelect", "WordSelect", "BitSelectC", "WordSelectC", "Matches"}
Leaves == {"PushSig", "PushConst"}
AllOps == UnOps \cup BinOps \cup Leaves \cup SeqOps \cup {"Mux", "ArrayIndex"}
ConstOps == {"PushConst", "Cat", "Slice", "Index", "SliceStep", "Replicate", "RotateLeft", "RotateRight"}
(* a choice operator whose selector or branch is the result of one reinterpreting / complementing operator *)
ChoiceOpsS == Leaves \cup {"AsSigned", "AsUnsigned", "ArrayIndexS"}
ChoiceOps == Leaves \cup {"Inv", "Neg", "AsSigned", "AsUnsigned", "ShiftRight", "Mux", "ArrayIndex"}
TernOps ==Leaves \cup {"Mux", "ArrayIndex", "Cat"}
Amts == {-5, -1, 0, 1, 2, 5}
Amts2 == {-1, 1, 2}
Ix == {-5, -2, -1, 0, 1, 2, 3, 6}
Ix2 == {-1, 0, 1, 2}
PS == { <<>>, <<[k |-> "int", v |-> 1]>>, <<[k |-> "int", v |-> -1], [k |-> "int", v |-> 2]>>,
        <<[k |-> "str", w |-> 3, mask |-> 5, val |-> 4]>>,
        <<[k |-> "str", w |-> 4, mask |-> 9, val |-> 8], [k |-> "int", v |-> 3]>>,
        <<[k |-> "int", v |-> 15]>>, <<[k |-> "str", w |-> 0, mask |-> 0, val |-> 0]>>,
        <<[k |-> "str", w |-> 2, mask |-> 2, val |-> 2], [k |-> "str", w |-> 2, mask |-> 3, val |-> 1]>>,
        \* fully specified bit strings (no don't-care) whose leading bit is 1: compared bit by bit, also on signed values
        <<[k |-> "str", w |-> 1, mask |-> 1, val |-> 1]>>, <<[k |-> "str", w |-> 2, mask |-> 3, val |-> 2]>>,
        <<[k |-> "str", w |-> 3, mask |-> 7, val |-> 5], [k |-> "str", w |-> 3, mask |-> 7, val |-> 3]>>,
        <<[k |-> "str", w |-> 4, mask |-> 15, val |-> 10]>>, <<[k |-> "str", w |-> 2, mask |-> 3, val |-> 3]>> }
PS2 == { <<[k |-> "int", v |-> 1]>>, <<[k |-> "str", w |-> 2, mask |-> 2, val |-> 2], [k |-> "int", v |-> -1]>>,
         <<[k |-> "str", w |-> 2, mask |-> 3, val |-> 2]>>, <<[k |-> "str", w |-> 1, mask |-> 1, val |-> 1]>>,
         <<[k |-> "str", w |-> 3, mask |-> 7, val |-> 6]>> }
====
