------------------------------- MODULE MC_Fmt -------------------------------
EXTENDS FmtCases
U(w) == [w |-> w, s |-> FALSE]
S(w) == [w |-> w, s |-> TRUE]
ShapesFull == {U(0), U(1), U(4), S(4), U(8), S(8), U(16), U(24)}
ShapesQuick == {S(4), U(8), U(16)}
ShapesTiny == {U(4), S(4)}
ShapesTinyWide == {U(16)}
Fills == {<<>>, <<42>>, <<48>>}
FillAlignsFull == {<<<<>>, "">>} \cup {<<f, a>> : f \in Fills, a \in {"<", ">", "=", "^"}}
FillAlignsTiny == {<<<<>>, "">>, <<<<>>, "=">>}
SignsFull == {"", "+", "-", " "}
SignsQuick == {"", "+", " "}
WidthsFull == {0, 1, 5, 9}
WidthsQuick == {0, 5, 9}
GrpsFull == {"", "_", ","}
FillAlignsQuick == {<<<<>>, "">>, <<<<>>, "^">>} \cup {<<f, a>> : f \in Fills, a \in {"<", ">", "="}}
GrpsQuick == {"", "_"}
TypesTiny == {"d", "x"}
PicksFull == {0, 1, 7, 10, 65, 127, 128, 255, 256, 999, 1000, 4096,
              16961,      \* 0x4241     "AB"
              16640,      \* 0x4100     NUL then "A"
              43459,      \* 0xA9C3     U+00E9 as C3 A9
              55295, 57344, 65535, 65536, 1114111,
              4407873,    \* 0x434241   "ABC"
              4259906,    \* 0x410042   "B", NUL, "A"
              11305698,   \* 0xAC82E2   U+20AC as E2 82 AC
              4303299,    \* 0x41A9C3   U+00E9 "A"
              12345678}
PicksQuick == {0, 1, 10, 65, 1000, 16640, 43459}
=============================================================================
