------------------------------ MODULE ResMgr ------------------------------
(* The resource manager of a platform (amaranth.build.res.ResourceManager, property C19) as a   *)
(* state machine over all request histories, for every table of a batch of platform tables.     *)
(* The oracle itself (who is granted what, which physical pins a port names) is ResMgrOps.      *)
(* TLC explores every history of requests drawn from T.reqs (up to MaxLen requests; MaxLen = 0: *)
(* unbounded -- the graph is finite because `requested` only grows); the dumped graph           *)
(* (-dump dot,actionlabels) is replayed edge by edge on the real ResourceManager.               *)
EXTENDS ResMgrOps, Json, IOUtils

CONSTANTS TableSource, \* "json": the batch of platform tables in the file named by TABLE_FILE; "demo": DemoTables
          MaxReqs,     \* an upper bound on the size of the request vocabularies (Len(T.reqs))
          MaxLen,      \* bound on the history length, 0 = none
          Mutant       \* "" or "leak_partial" (a refused request keeps the pins examined before the conflict)

(* a table written out in TLA+ (TableSource = "demo"): a cut-down version of the generated table "subsig", *)
(* in which a request is refused at a later subsignal although an earlier one is free                     *)
Leaf(nm, k, names, nnames, d, inv, clk) ==
    [name |-> nm, kind |-> k, subs |-> <<>>, names |-> names, nnames |-> nnames, dir |-> d, invert |-> inv,
     has_conn |-> FALSE, conn |-> [name |-> "", number |-> 0], clock |-> clk]
Group(nm, subs) ==
    [name |-> nm, kind |-> "group", subs |-> subs, names |-> <<>>, nnames |-> <<>>, dir |-> "io", invert |-> FALSE,
     has_conn |-> FALSE, conn |-> [name |-> "", number |-> 0], clock |-> 0]
Numbered(node, num) == [f \in DOMAIN node \cup {"number"} |-> IF f = "number" THEN num ELSE node[f]]
Rq(nm, num, d, x) == [name |-> nm, number |-> num, dir |-> d, xdr |-> x]
DemoTable ==
    [name |-> "demo_written_out",
     resources |-> << Numbered(Leaf("led", "pins", <<"A1">>, <<>>, "o", FALSE, 0), 0),
                      Numbered(Group("bus", << Leaf("d", "pins", <<"B1", "B2">>, <<>>, "io", FALSE, 0),
                                               Leaf("clk", "pins", <<"K1">>, <<>>, "i", FALSE, 40),
                                               Leaf("cs", "pins", <<"A1">>, <<>>, "o", TRUE, 0) >>), 0),
                      Numbered(Leaf("btn", "pins", <<"B1">>, <<>>, "i", FALSE, 0), 0),
                      Numbered(Leaf("lvds", "diff", <<"C1">>, <<"C2">>, "i", TRUE, 0), 0) >>,
     connectors |-> <<>>,
     reqs |-> << Rq("led", 0, <<"-">>, <<-1>>), Rq("bus", 0, <<"-", "-", "-">>, <<-1, -1, -1>>),
                 Rq("btn", 0, <<"-">>, <<-1>>), Rq("lvds", 0, <<"-">>, <<-1>>), Rq("nope", 0, <<"-">>, <<-1>>) >>]
DemoTables == <<DemoTable>>

(* the platform tables of this run: a constant of the model (see ResMgrOps for the shape) *)
Tables == IF TableSource = "demo" THEN DemoTables ELSE JsonDeserialize(IOEnv.TABLE_FILE).tables

VARIABLES tab,         \* which table of the batch this behaviour is about
          requested,   \* set of <<name, number>> granted so far
          owner,       \* physical pin -> <<id, path>> of the granted request component that uses it
          granted,     \* id -> View(ports) handed out for it
          out,         \* outcome of the last request
          n            \* length of the history (stays 0 if MaxLen = 0)
vars == <<tab, requested, owner, granted, out, n>>

T == Tables[tab]

ASSUME \A k \in DOMAIN Tables : Len(Tables[k].reqs) <= MaxReqs
ASSUME \A k \in DOMAIN Tables : TableOK(Tables[k]) /\ \A j \in DOMAIN Tables[k].reqs : ReqOK(Tables[k], Tables[k].reqs[j])

Init == /\ tab \in DOMAIN Tables
        /\ requested = {} /\ owner = <<>> /\ granted = <<>>
        /\ out = [kind |-> "init", id |-> <<"", 0>>, why |-> {}, ports |-> <<>>, req |-> <<>>]
        /\ n = 0

(* resolved once per table and vocabulary entry (constant of the run) *)
Static == [t \in DOMAIN Tables |-> [k \in DOMAIN Tables[t].reqs |->
             LET id == <<Tables[t].reqs[k].name, Tables[t].reqs[k].number>> IN
             [has |-> HasRes(Tables[t], id), base |-> IF HasRes(Tables[t], id) THEN ResPorts(Tables[t], id) ELSE <<>>]]]

(* request(name, number, dir=, xdr=), the k-th entry of the table's request vocabulary; the request *)
(* itself is kept in out.req so that the dumped graph carries it                                    *)
Request(k) ==
    /\ k \in DOMAIN T.reqs
    /\ MaxLen > 0 => n < MaxLen
    /\ n' = IF MaxLen > 0 THEN n + 1 ELSE 0
    /\ LET q == T.reqs[k]
           o == OutcomeFrom(Static[tab][k].has, Static[tab][k].base, requested, owner, q)
       IN out' = [kind |-> o.kind, id |-> o.id, why |-> o.why, ports |-> o.ports,
                  req |-> <<q.name, q.number, q.dir, q.xdr>>]
    /\ IF out'.kind = "grant"
       THEN /\ requested' = requested \cup {out'.id}
            /\ owner' = OwnerOf(out'.id, out'.ports) @@ owner
            /\ granted' = (out'.id :> View(out'.ports)) @@ granted
       ELSE IF Mutant = "leak_partial" /\ out'.why = {"pin_conflict"}
       THEN /\ owner' = [pin \in LeakedPins(owner, Static[tab][k].base) |-> <<out'.id, <<>>>>] @@ owner
            /\ UNCHANGED <<requested, granted>>
       ELSE UNCHANGED <<requested, owner, granted>>
    /\ UNCHANGED tab

Next == \E k \in 1..MaxReqs : Request(k)
Spec == Init /\ [][Next]_vars

----------------------------------------------------------------------------
GrantedPins(id) == PortPinSeq(granted[id])

(* no physical pin is handed out twice, neither to two requests nor twice within one *)
OneToOne ==
    /\ \A a, b \in DOMAIN granted : a # b => Range(GrantedPins(a)) \cap Range(GrantedPins(b)) = {}
    /\ \A a \in DOMAIN granted : NoDup(GrantedPins(a))
(* the allocation table is exactly the pins of the granted requests, attributed to their users *)
OwnerExact ==
    /\ DOMAIN granted = requested
    /\ DOMAIN owner = UNION {Range(GrantedPins(a)) : a \in DOMAIN granted}
    /\ \A pin \in DOMAIN owner : owner[pin][1] \in requested /\ pin \in Range(GrantedPins(owner[pin][1]))
(* a resource is granted at most once *)
AtMostOnce == [][out'.kind = "grant" => out'.id \notin requested /\ requested' = requested \cup {out'.id}]_vars
(* a refused request leaves the allocation unchanged *)
RefusedLeavesStateUnchanged ==
    [][out'.kind = "refuse" => (requested' = requested /\ owner' = owner /\ granted' = granted)]_vars
(* a request is refused for a shared pin exactly when one of its pins is owned *)
ConflictMeansOwned ==
    out.kind = "grant" => \A pin \in PortPins(out.ports) : owner[pin][1] = out.id
(* the constraint set is a one-to-one map port bit <-> physical pin, one period per clock port *)
ConstraintsOneToOne ==
    LET c == Constraints(granted) IN
    /\ \A x, y \in c.pins : (x[5] = y[5] \/ <<x[1], x[2], x[3], x[4]>> = <<y[1], y[2], y[3], y[4]>>) => x = y
    /\ \A x, y \in c.clocks : <<x[1], x[2], x[3]>> = <<y[1], y[2], y[3]>> => x = y
    /\ Cardinality(c.pins) = Cardinality(DOMAIN owner)
=============================================================================
