----------------------------- MODULE MC_AmDesign -----------------------------
EXTENDS AmDesign
DC(e, r) == [edge |-> e, rst |-> r]
AllDomCfgs == {DC(e, r) : e \in {"pos", "neg"}, r \in {"none", "sync", "async"}}
FewDomCfgs == {DC("pos", "sync"), DC("neg", "async")}
R(d, c) == [k |-> "reset", dom |-> d, c |-> c]
En(d, c) == [k |-> "enable", dom |-> d, c |-> c]
Rn(d, t) == [k |-> "rename", dom |-> d, to |-> t]
Ws == {R("A", "c1"), R("B", "c1"), R("A", "c2"), En("A", "c2"), En("B", "c2"), En("A", "c1"), Rn("A", "B"), Rn("B", "A")}
Stacks1 == {<<>>} \cup {<<w>> : w \in Ws}
Stacks2 == Stacks1 \cup {<<w1, w2>> : w1 \in Ws, w2 \in Ws}
Stacks3 == Stacks2 \cup {<<w1, w2, w3>> : w1 \in Ws, w2 \in Ws, w3 \in Ws}
StacksTiny == {<<>>, <<R("A", "c1")>>, <<En("A", "c2")>>, <<R("A", "c1"), En("A", "c2")>>, <<En("A", "c2"), R("A", "c1")>>, <<Rn("A", "B")>>}
AllRegDoms == {<<"A", "A">>, <<"A", "B">>, <<"B", "A">>, <<"B", "B">>}
OneRegDoms == {<<"A", "B">>}
==============================================================================
