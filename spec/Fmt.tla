-------------------------------- MODULE Fmt --------------------------------
(* Property C20, text part: the format mini-language of amaranth's `Format` as data and functions.   *)
(*                                                                                                  *)
(* The contract is "the text equals what Python's str.format produces for the same specification    *)
(* applied to the value interpreted in its own shape".  So this module states Python's format       *)
(* specification mini-language (library reference, "Format Specification Mini-Language", PEP 378    *)
(* and PEP 515 for the grouping options) for the two kinds of operand that occur:                   *)
(*   - an integer  (presentation types b o d x X c and none)  -> FormatInt                          *)
(*   - a string    (presentation type s)                      -> FormatStr                          *)
(* and the interpretation of a raw bit pattern in its shape (two's complement for signed shapes;     *)
(* for `s`: the bytes of the value, least significant first, zero bytes dropped, decoded as UTF-8).  *)
(* Text is a sequence of character codes (Unicode code points).                                      *)
(*                                                                                                  *)
(* A specification is a record                                                                       *)
(*   [fill : <<>> or <<code>>, align : "" "<" ">" "=" "^", sign : "" "+" "-" " ", alt : BOOLEAN,     *)
(*    zero : BOOLEAN, width : Nat (0 = none), grp : "" "_" ",", type : "" b o d x X c s]             *)
(* written  [[fill]align][sign][#][0][width][grp][type].                                             *)
EXTENDS Integers, Sequences, FiniteSets

CONSTANT FmtMutant      \* "" = the specification; otherwise a seeded error (non-vacuity of the invariants):
                        \*   "unsigned"  signed shapes formatted as unsigned
                        \*   "group3"    `_` groups of three for every base
                        \*   "nozfill"   the 0 flag pads on the left of the sign

Max(a, b) == IF a >= b THEN a ELSE b
Rep(ch, n) == IF n <= 0 THEN <<>> ELSE [i \in 1..n |-> ch]

(* ------------------------------ the value in its shape ------------------------------ *)
(* shape = [w |-> width in bits, s |-> signed]; raw = the bit pattern as a natural number < 2^w *)
Interp(raw, sh) ==
    IF sh.s /\ FmtMutant # "unsigned" /\ raw >= 2^(sh.w - 1) THEN raw - 2^sh.w ELSE raw

Bytes(raw, sh) == [i \in 1..(sh.w \div 8) |-> (raw \div (256^(i - 1))) % 256]
NonZeroBytes(raw, sh) == SelectSeq(Bytes(raw, sh), LAMBDA b : b # 0)

Cont(b) == b >= 128 /\ b <= 191
RECURSIVE Utf8Valid(_)
Utf8Valid(bs) ==
    IF Len(bs) = 0 THEN TRUE
    ELSE LET b == bs[1] n == Len(bs) IN
         IF b < 128 THEN Utf8Valid(Tail(bs))
         ELSE IF b >= 194 /\ b <= 223 THEN n >= 2 /\ Cont(bs[2]) /\ Utf8Valid(SubSeq(bs, 3, n))
         ELSE IF b >= 224 /\ b <= 239 THEN
              /\ n >= 3 /\ Cont(bs[2]) /\ Cont(bs[3])
              /\ (b = 224 => bs[2] >= 160)          \* no overlong forms
              /\ (b = 237 => bs[2] <= 159)          \* no surrogates
              /\ Utf8Valid(SubSeq(bs, 4, n))
         ELSE IF b >= 240 /\ b <= 244 THEN
              /\ n >= 4 /\ Cont(bs[2]) /\ Cont(bs[3]) /\ Cont(bs[4])
              /\ (b = 240 => bs[2] >= 144)
              /\ (b = 244 => bs[2] <= 143)
              /\ Utf8Valid(SubSeq(bs, 5, n))
         ELSE FALSE
RECURSIVE Utf8Decode(_)
Utf8Decode(bs) ==
    IF Len(bs) = 0 THEN <<>>
    ELSE LET b == bs[1] n == Len(bs) IN
         IF b < 128 THEN <<b>> \o Utf8Decode(Tail(bs))
         ELSE IF b <= 223 THEN <<(b - 192) * 64 + (bs[2] - 128)>> \o Utf8Decode(SubSeq(bs, 3, n))
         ELSE IF b <= 239 THEN <<(b - 224) * 4096 + (bs[2] - 128) * 64 + (bs[3] - 128)>> \o Utf8Decode(SubSeq(bs, 4, n))
         ELSE <<(b - 240) * 262144 + (bs[2] - 128) * 4096 + (bs[3] - 128) * 64 + (bs[4] - 128)>> \o Utf8Decode(SubSeq(bs, 5, n))
RECURSIVE Utf8Encode(_)
Utf8Encode(cs) ==
    IF Len(cs) = 0 THEN <<>>
    ELSE LET c == cs[1] IN
         (IF c < 128 THEN <<c>>
          ELSE IF c < 2048 THEN <<192 + c \div 64, 128 + (c % 64)>>
          ELSE IF c < 65536 THEN <<224 + c \div 4096, 128 + ((c \div 64) % 64), 128 + (c % 64)>>
          ELSE <<240 + c \div 262144, 128 + ((c \div 4096) % 64), 128 + ((c \div 64) % 64), 128 + (c % 64)>>)
         \o Utf8Encode(Tail(cs))

ValidCodePoint(v) == v >= 0 /\ v <= 1114111 /\ ~(v >= 55296 /\ v <= 57343)
StringOf(raw, sh) == Utf8Decode(NonZeroBytes(raw, sh))

(* ------------------------------ the specification text ------------------------------ *)
Types == {"", "b", "o", "d", "x", "X", "c", "s"}
Code(ch) == CASE ch = "<" -> 60 [] ch = ">" -> 62 [] ch = "=" -> 61 [] ch = "^" -> 94
              [] ch = "+" -> 43 [] ch = "-" -> 45 [] ch = " " -> 32 [] ch = "_" -> 95 [] ch = "," -> 44
              [] ch = "b" -> 98 [] ch = "o" -> 111 [] ch = "d" -> 100 [] ch = "x" -> 120 [] ch = "X" -> 88
              [] ch = "c" -> 99 [] ch = "s" -> 115 [] ch = "#" -> 35 [] ch = "0" -> 48
Opt(ch) == IF ch = "" THEN <<>> ELSE <<Code(ch)>>
RECURSIVE Digits(_, _, _)
Digits(n, base, upper) ==
    LET d == n % base
        c == IF d < 10 THEN 48 + d ELSE (IF upper THEN 55 ELSE 87) + d
    IN IF n < base THEN <<c>> ELSE Append(Digits(n \div base, base, upper), c)

SpecText(sp) ==
    sp.fill \o Opt(sp.align) \o Opt(sp.sign) \o (IF sp.alt THEN <<35>> ELSE <<>>) \o (IF sp.zero THEN <<48>> ELSE <<>>)
    \o (IF sp.width > 0 THEN Digits(sp.width, 10, FALSE) ELSE <<>>) \o Opt(sp.grp) \o Opt(sp.type)

WellFormed(sp) == sp.fill # <<>> => sp.align # ""       \* a fill character is only expressible together with an alignment

(* ------------------------------ which specifications are valid ------------------------------ *)
(* Python's own rules, per presentation type (a specification Python rejects for the operand kind can *)
(* never have "the text str.format produces": it is invalid and must be rejected at construction).    *)
PyValid(sp) ==
    CASE sp.type = "s" -> sp.sign = "" /\ ~sp.alt /\ sp.align # "=" /\ sp.grp = ""
      [] sp.type = "c" -> sp.sign = "" /\ ~sp.alt /\ sp.grp = ""
      [] sp.type \in {"b", "o", "x", "X"} -> sp.grp # ","
      [] OTHER -> TRUE
(* The shape must be able to carry the operand kind: a code point and a byte string are unsigned, and   *)
(* a byte string is a whole number of bytes.                                                            *)
ShapeValid(sp, sh) ==
    /\ sp.type \in {"c", "s"} => ~sh.s
    /\ sp.type = "s" => sh.w % 8 = 0
(* The subset of Python's language that `Format` supports (RFC 50): no centring, no `,` grouping, and  *)
(* for c/s none of the numeric options (0 flag, `=` alignment).  Rejection is expected for these; if an *)
(* implementation accepts one, the text must still be Python's (the harness checks that instead).       *)
Unsupported(sp) ==
    \/ sp.align = "^"
    \/ sp.grp = ","
    \/ sp.type \in {"c", "s"} /\ sp.zero
    \/ sp.type = "c" /\ sp.align = "="

Class(sp, sh) == IF ~PyValid(sp) THEN "reject"
                 ELSE IF ~ShapeValid(sp, sh) THEN "reject"
                 ELSE IF Unsupported(sp) THEN "unsupported" ELSE "accept"
Why(sp, sh) == IF ~PyValid(sp) THEN "python" ELSE IF ~ShapeValid(sp, sh) THEN "shape"
               ELSE IF Unsupported(sp) THEN "subset" ELSE ""
Accepted(sp, sh) == Class(sp, sh) = "accept"

(* ------------------------------ formatting an integer ------------------------------ *)
TypeOf(sp) == IF sp.type = "" THEN "d" ELSE sp.type
Base(t) == CASE t = "b" -> 2 [] t = "o" -> 8 [] t \in {"x", "X"} -> 16 [] OTHER -> 10
GroupLen(t) == IF FmtMutant = "group3" THEN 3 ELSE IF Base(t) = 10 THEN 3 ELSE 4

(* separators between groups of g digits counted from the right *)
Grouped(ds, g, sep) ==
    LET n == Len(ds)
        total == n + (n - 1) \div g
    IN [i \in 1..total |->
          LET r == total - i IN      \* distance from the right end
          IF r % (g + 1) = g THEN sep ELSE ds[n - (r - r \div (g + 1))]]

FieldLen(n, g) == IF g = 0 THEN n ELSE n + (n - 1) \div g
(* sign-aware zero padding (fill 0 with alignment =) pads the *digits*, and the grouping option applies *)
(* to the padding zeros too (PEP 378: format(1234, "08,d") = "0,001,234"): the digit string is extended *)
(* with zeros to the least length whose grouped form fills the field.                                    *)
ZeroExtend(ds, g, minw) ==
    LET n0 == Len(ds)
        n == CHOOSE k \in n0..Max(n0, minw) :
                /\ FieldLen(k, g) >= minw
                /\ \A m \in n0..(k - 1) : FieldLen(m, g) < minw
    IN Rep(48, n - n0) \o ds

EffFill(sp) == IF sp.fill # <<>> THEN sp.fill[1] ELSE IF sp.zero THEN 48 ELSE 32
EffAlignInt(sp) == IF sp.align # "" THEN sp.align ELSE IF sp.zero THEN "=" ELSE ">"
EffAlignStr(sp) == IF sp.align # "" THEN sp.align ELSE "<"

SignOf(v, sp) == IF TypeOf(sp) = "c" THEN <<>>
                 ELSE IF v < 0 THEN <<45>> ELSE IF sp.sign = "+" THEN <<43>> ELSE IF sp.sign = " " THEN <<32>> ELSE <<>>
PrefixOf(sp) == IF sp.alt /\ TypeOf(sp) \in {"b", "o", "x", "X"} THEN <<48, Code(TypeOf(sp))>> ELSE <<>>
RawDigits(v, sp) == LET t == TypeOf(sp) IN
                    IF t = "c" THEN <<v>> ELSE Digits(IF v < 0 THEN -v ELSE v, Base(t), t = "X")
G(sp) == IF sp.grp = "" THEN 0 ELSE GroupLen(TypeOf(sp))
DigitField(v, sp, minw) ==
    LET ds == IF minw > 0 THEN ZeroExtend(RawDigits(v, sp), G(sp), minw) ELSE RawDigits(v, sp)
    IN IF G(sp) = 0 THEN ds ELSE Grouped(ds, G(sp), Code(sp.grp))

(* the text without any padding: what the specification produces when no width is given *)
Core(v, sp) == SignOf(v, sp) \o PrefixOf(sp) \o DigitField(v, sp, 0)

Pad(body, fillc, align, width, lead) ==       \* lead = the part that stays left of `=` padding
    LET p == Max(0, width - Len(body) - Len(lead)) IN
    CASE align = "<" -> lead \o body \o Rep(fillc, p)
      [] align = ">" -> Rep(fillc, p) \o lead \o body
      [] align = "=" -> lead \o Rep(fillc, p) \o body
      [] align = "^" -> Rep(fillc, p \div 2) \o lead \o body \o Rep(fillc, p - p \div 2)

FormatInt(v, sp) ==
    LET lead == SignOf(v, sp) \o PrefixOf(sp)
        zf == EffFill(sp) = 48 /\ EffAlignInt(sp) = "="
    IN IF FmtMutant = "nozfill" /\ zf
       THEN Pad(DigitField(v, sp, 0), 48, ">", sp.width, lead)
       ELSE Pad(DigitField(v, sp, IF zf THEN sp.width - Len(lead) ELSE 0), EffFill(sp), EffAlignInt(sp), sp.width, lead)

FormatStr(cs, sp) == Pad(cs, EffFill(sp), EffAlignStr(sp), sp.width, <<>>)

(* the text for a raw bit pattern of a shape *)
Text(raw, sp, sh) == IF sp.type = "s" THEN FormatStr(StringOf(raw, sh), sp) ELSE FormatInt(Interp(raw, sh), sp)
(* values for which Python itself has no result are outside the contract *)
Defined(raw, sp, sh) ==
    CASE sp.type = "c" -> ValidCodePoint(Interp(raw, sh))
      [] sp.type = "s" -> Utf8Valid(NonZeroBytes(raw, sh))
      [] OTHER -> TRUE

(* ------------------------------ theorems used as invariants ------------------------------ *)
(* reading a padding-free text back as a number; independent of the functions above *)
DigitVal(c) == IF c >= 48 /\ c <= 57 THEN c - 48 ELSE IF c >= 97 /\ c <= 102 THEN c - 87
               ELSE IF c >= 65 /\ c <= 70 THEN c - 55 ELSE 99
RECURSIVE ValueOfDigits(_, _)
ValueOfDigits(ds, base) == IF Len(ds) = 0 THEN 0 ELSE ValueOfDigits(SubSeq(ds, 1, Len(ds) - 1), base) * base + DigitVal(ds[Len(ds)])
ReadBack(core, sp) ==
    LET t == TypeOf(sp)
        neg == Len(core) > 0 /\ core[1] = 45
        a == IF Len(core) > 0 /\ core[1] \in {45, 43, 32} THEN SubSeq(core, 2, Len(core)) ELSE core
        b == IF sp.alt /\ Base(t) # 10 THEN SubSeq(a, 3, Len(a)) ELSE a
        ds == SelectSeq(b, LAMBDA c : c # 95 /\ c # 44)
        m == ValueOfDigits(ds, Base(t))
    IN IF \E i \in 1..Len(ds) : DigitVal(ds[i]) >= Base(t) THEN -1073741824     \* not a number in this base
       ELSE IF neg THEN -m ELSE m
(* the integer a raw pattern stands for, declaratively: the representative of raw modulo 2^w in the shape's range *)
ValueIn(raw, sh) == IF ~sh.s THEN raw
                    ELSE CHOOSE v \in (-(2^(sh.w - 1)))..(2^(sh.w - 1) - 1) : (v - raw) % (2^sh.w) = 0
=============================================================================
