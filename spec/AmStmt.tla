-------------------------------- MODULE AmStmt -------------------------------
(* The Module DSL as a builder state machine (guide: "Control flow", "Assigning to signals",     *)
(* "Combinational / Synchronous evaluation", "Finite state machines").                           *)
(* Every action is one DSL call; TLC's reachable states are all modules up to the bounds.  A     *)
(* state carries the *meaning* of the module built so far: for every valuation (inputs, previous  *)
(* register contents, previous FSM state) the value of every combinationally driven signal and    *)
(* the next value of every synchronously driven signal.                                          *)
(*   meaning: comb value = initial value overridden by the active assignments in program order;   *)
(*   sync next value = previous value overridden the same way; an assignment is active iff every  *)
(*   enclosing block is selected; in a construct the FIRST block whose condition is non-zero /    *)
(*   whose pattern matches is selected (Else / Default if none).                                  *)
EXTENDS AmLhs, TLC

CONSTANTS
    Sigs,          \* set of target signal ids
    SigSh,         \* [Sigs -> shape]
    SigInit,       \* [Sigs -> initial value]
    Exprs,         \* names of the expression catalogue (conditions, tests, right-hand sides, offsets)
    ESh,           \* [Exprs -> shape]
    EVal(_, _),    \* EVal(name, k): value of the expression in valuation k
    NV,            \* number of valuations
    PrevOf(_, _),  \* PrevOf(sig, k): previous (register) value of sig in valuation k
    FsmPrev(_, _), \* FsmPrev(f, k): previous state (a state id) of FSM f in valuation k
    RegOf(_),      \* RegOf(e): id of the signal whose *current* value the expression e reads (0: e reads inputs only)
    NFsm,          \* number of FSMs a module may contain (the second may be nested in a State of the first)
    Conds, Tests, Rhs,   \* subsets of Exprs used as If conditions / Switch tests / right-hand sides
    PatSets(_),    \* PatSets(test): set of pattern sequences usable in Case for that test
    Targets,       \* set of [t |-> target tree, d |-> "comb" | "sync"]   (assignable targets with their domain)
    States,        \* FSM state ids
    Inits,         \* allowed FSM init arguments (0 = unspecified)
    MaxLen, MaxDepth, MaxAssign,
    Mutant         \* "" | "last_match"

VARIABLES prog, frames, comb, nxt, dom, fsm
vars == <<prog, frames, comb, nxt, dom, fsm>>

Vals == 1..NV
AllT == [k \in Vals |-> TRUE]
NoneT == [k \in Vals |-> FALSE]
Env(k) == [e \in Exprs |-> EVal(e, k)]

Cur == IF frames = <<>> THEN AllT ELSE frames[Len(frames)].act
TopF == frames[Len(frames)]
BodyOpen == IF frames = <<>> THEN TRUE ELSE TopF.body        \* a statement may be placed here
InState == \E j \in 1..Len(frames) : frames[j].kind = "fsm" /\ frames[j].body
(* m.next refers to the innermost enclosing FSM *)
InnerFsm == LET J == {j \in 1..Len(frames) : frames[j].kind = "fsm" /\ frames[j].body} IN
            frames[CHOOSE j \in J : \A i \in J : i <= j].f
NFsmUsed == Cardinality({f \in 1..NFsm : fsm[f].exists})
NAssign == Cardinality({j \in 1..Len(prog) : prog[j].op \in {"Assign", "Next"}})

Step(rec) == Len(prog) < MaxLen /\ prog' = Append(prog, rec)
(* install the next block of the top construct; nsel counts, per valuation, the blocks selected so far *)
ReplaceTop(f) == frames' = [frames EXCEPT ![Len(frames)] =
                               [f EXCEPT !.nsel = [k \in Vals |-> frames[Len(frames)].nsel[k] + (IF f.act[k] THEN 1 ELSE 0)]]]

(* ------------------------------- If / Elif / Else ------------------------------- *)
CondT(c) == [k \in Vals |-> EVal(c, k) # 0]
If(c) ==
    /\ BodyOpen /\ Len(frames) < MaxDepth
    /\ Step([op |-> "If", c |-> c])
    /\ frames' = Append(frames, [kind |-> "if", stage |-> "if", body |-> TRUE, outer |-> Cur,
                                 taken |-> [k \in Vals |-> Cur[k] /\ CondT(c)[k]],
                                 act |-> [k \in Vals |-> Cur[k] /\ CondT(c)[k]], test |-> c, f |-> 0,
                                 nsel |-> [k \in Vals |-> IF Cur[k] /\ CondT(c)[k] THEN 1 ELSE 0]])
    /\ UNCHANGED <<comb, nxt, dom, fsm>>
Elif(c) ==
    /\ frames # <<>> /\ TopF.kind = "if" /\ TopF.stage \in {"if", "elif"}
    /\ Step([op |-> "Elif", c |-> c])
    /\ LET a == [k \in Vals |-> TopF.outer[k] /\ ~TopF.taken[k] /\ CondT(c)[k]] IN
       ReplaceTop([TopF EXCEPT !.stage = "elif", !.act = a,
                               !.taken = [k \in Vals |-> TopF.taken[k] \/ a[k]]])
    /\ UNCHANGED <<comb, nxt, dom, fsm>>
Else ==
    /\ frames # <<>> /\ TopF.kind = "if" /\ TopF.stage \in {"if", "elif"}
    /\ Step([op |-> "Else"])
    /\ ReplaceTop([TopF EXCEPT !.stage = "else", !.act = [k \in Vals |-> TopF.outer[k] /\ ~TopF.taken[k]]])
    /\ UNCHANGED <<comb, nxt, dom, fsm>>

(* ------------------------------ Switch / Case / Default ------------------------------ *)
Switch(t) ==
    /\ BodyOpen /\ Len(frames) < MaxDepth
    /\ Step([op |-> "Switch", t |-> t])
    /\ frames' = Append(frames, [kind |-> "switch", stage |-> "open", body |-> FALSE, outer |-> Cur,
                                 taken |-> NoneT, act |-> NoneT, test |-> t, f |-> 0, nsel |-> [k \in Vals |-> 0]])
    /\ UNCHANGED <<comb, nxt, dom, fsm>>
MatchT(t, ps) == [k \in Vals |-> AnyPatMatches(ps, ESh[t], EVal(t, k))]
Case(ps) ==
    /\ frames # <<>> /\ TopF.kind = "switch"
    /\ Step([op |-> "Case", ps |-> ps])
    /\ LET m == MatchT(TopF.test, ps)
           a == IF Mutant = "last_match"
                THEN [k \in Vals |-> TopF.outer[k] /\ m[k]]
                ELSE [k \in Vals |-> TopF.outer[k] /\ ~TopF.taken[k] /\ m[k]] IN
       ReplaceTop([TopF EXCEPT !.stage = "case", !.body = TRUE, !.act = a,
                               !.taken = [k \in Vals |-> TopF.taken[k] \/ a[k]]])
    /\ UNCHANGED <<comb, nxt, dom, fsm>>
Default ==
    /\ frames # <<>> /\ TopF.kind = "switch"
    /\ Step([op |-> "Default"])
    /\ ReplaceTop([TopF EXCEPT !.stage = "case", !.body = TRUE,
                               !.act = [k \in Vals |-> TopF.outer[k] /\ ~TopF.taken[k]],
                               !.taken = TopF.outer])
    /\ UNCHANGED <<comb, nxt, dom, fsm>>

(* ----------------------------------- FSM ----------------------------------- *)
FSM(init) ==           \* the first FSM at the top level; a second one anywhere a statement may go (e.g. inside a State)
    /\ NFsmUsed < NFsm /\ BodyOpen /\ Len(frames) < MaxDepth
    /\ NFsmUsed = 0 => frames = <<>>
    /\ LET f == NFsmUsed + 1 IN
       /\ Step([op |-> "FSM", f |-> f, init |-> init])
       /\ frames' = Append(frames, [kind |-> "fsm", stage |-> "open", body |-> FALSE, outer |-> Cur,
                                    taken |-> NoneT, act |-> NoneT, test |-> "", f |-> f, nsel |-> [k \in Vals |-> 0]])
       /\ fsm' = [fsm EXCEPT ![f].exists = TRUE, ![f].init = init]
    /\ UNCHANGED <<comb, nxt, dom>>
State(s) ==
    /\ frames # <<>> /\ TopF.kind = "fsm"
    /\ \A j \in 1..Len(fsm[TopF.f].defined) : fsm[TopF.f].defined[j] # s
    /\ Step([op |-> "State", s |-> s])
    /\ ReplaceTop([TopF EXCEPT !.stage = "state", !.body = TRUE,
                               !.act = [k \in Vals |-> TopF.outer[k] /\ FsmPrev(TopF.f, k) = s]])
    /\ fsm' = [fsm EXCEPT ![TopF.f].defined = Append(@, s)]
    /\ UNCHANGED <<comb, nxt, dom>>
NextSt(s) ==                       \* m.next = s
    /\ BodyOpen /\ InState /\ NAssign < MaxAssign
    /\ Step([op |-> "Next", s |-> s])
    /\ LET f == InnerFsm IN
       fsm' = [fsm EXCEPT ![f].referenced = @ \cup {s},
                          ![f].nextst = [k \in Vals |-> IF Cur[k] THEN s ELSE fsm[f].nextst[k]]]
    /\ UNCHANGED <<frames, comb, nxt, dom>>

End ==
    /\ frames # <<>>
    /\ TopF.kind = "switch" => TRUE
    /\ TopF.kind = "fsm" =>
         LET F == fsm[TopF.f] IN
         /\ F.defined # <<>>
         /\ \A s \in F.referenced : \E j \in 1..Len(F.defined) : F.defined[j] = s
         /\ F.init # 0 => \E j \in 1..Len(F.defined) : F.defined[j] = F.init
    /\ Step([op |-> "End"])
    /\ frames' = SubSeq(frames, 1, Len(frames) - 1)
    /\ UNCHANGED <<comb, nxt, dom, fsm>>

(* -------------------------------- assignments -------------------------------- *)
RECURSIVE TSigs(_)
TSigs(t) == CASE t.k = "sig" -> {t.i}
              [] t.k \in {"slice", "part", "rei"} -> TSigs(t.x)
              [] t.k \in {"cat", "arr"} -> UNION {TSigs(t.xs[j]) : j \in 1..Len(t.xs)}
(* names of the run-time offsets / indices used inside a target *)
RECURSIVE TOffs(_)
TOffs(t) == CASE t.k = "sig" -> {}
              [] t.k = "part" -> {t.off} \cup TOffs(t.x)
              [] t.k \in {"slice", "rei"} -> TOffs(t.x)
              [] t.k = "arr" -> {t.idx} \cup UNION {TOffs(t.xs[j]) : j \in 1..Len(t.xs)}
              [] t.k = "cat" -> UNION {TOffs(t.xs[j]) : j \in 1..Len(t.xs)}
AssignTo(tg, r) ==
    /\ BodyOpen /\ NAssign < MaxAssign
    \* an offset that reads a register is the register's value BEFORE the edge, whatever was assigned to it earlier in
    \* the program; generated only in the register's own synchronous domain, after the register has been assigned
    /\ \A e \in TOffs(tg.t) : RegOf(e) # 0 => tg.d = "sync" /\ dom[RegOf(e)] = "sync"
    /\ \A s \in TSigs(tg.t) : dom[s] \in {"none", tg.d}        \* one driving domain per signal
    /\ Step([op |-> "Assign", d |-> tg.d, t |-> tg.t, r |-> r])
    /\ dom' = [s \in Sigs |-> IF s \in TSigs(tg.t) THEN tg.d ELSE dom[s]]
    /\ IF tg.d = "comb"
       THEN /\ comb' = [k \in Vals |-> IF Cur[k] THEN Assign(tg.t, EVal(r, k), comb[k], Env(k), SigSh) ELSE comb[k]]
            /\ nxt' = nxt
       ELSE /\ nxt' = [k \in Vals |-> IF Cur[k] THEN Assign(tg.t, EVal(r, k), nxt[k], Env(k), SigSh) ELSE nxt[k]]
            /\ comb' = comb
    /\ UNCHANGED <<frames, fsm>>

Init ==
    /\ prog = <<>> /\ frames = <<>>
    /\ comb = [k \in Vals |-> [s \in Sigs |-> SigInit[s]]]
    /\ nxt = [k \in Vals |-> [s \in Sigs |-> PrevOf(s, k)]]
    /\ dom = [s \in Sigs |-> "none"]
    /\ fsm = [f \in 1..NFsm |-> [exists |-> FALSE, init |-> 0, defined |-> <<>>, referenced |-> {},
                                  nextst |-> [k \in Vals |-> FsmPrev(f, k)]]]

Next ==
    \/ \E c \in Conds : If(c) \/ Elif(c)
    \/ Else \/ End \/ Default
    \/ \E t \in Tests : Switch(t)
    \/ \E ps \in (IF frames # <<>> /\ TopF.kind = "switch" THEN PatSets(TopF.test) ELSE {}) : Case(ps)
    \/ \E i \in Inits : FSM(i)
    \/ \E s \in States : State(s) \/ NextSt(s)
    \/ \E tg \in Targets, r \in Rhs : AssignTo(tg, r)
Spec == Init /\ [][Next]_vars

(* -------------------------------- properties -------------------------------- *)
(* in each construct at most one block is selected: a block's activity excludes all earlier ones *)
AtMostOneSelected ==
    \A j \in 1..Len(frames) : \A k \in Vals :
        /\ frames[j].act[k] => frames[j].outer[k]
        /\ frames[j].nsel[k] <= 1
(* signals no assignment has touched keep their initial / previous value *)
FrameCondition ==
    \A s \in Sigs : \A k \in Vals :
        /\ dom[s] # "comb" => comb[k][s] = SigInit[s]
        /\ dom[s] # "sync" => nxt[k][s] = PrevOf(s, k)
ValuesInRange ==
    \A s \in Sigs : \A k \in Vals : Fits(comb[k][s], SigSh[s]) /\ Fits(nxt[k][s], SigSh[s])
(* the state an FSM starts in and returns to on reset *)
FsmInit(f) == IF fsm[f].init # 0 THEN fsm[f].init ELSE IF fsm[f].defined # <<>> THEN fsm[f].defined[1] ELSE 0
Closed == frames = <<>>
=============================================================================
