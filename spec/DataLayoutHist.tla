---------------------------- MODULE DataLayoutHist ----------------------------
(* C15, histories of uses of ONE aggregate class / layout object.                                  *)
(* data.Struct / data.Union: "Any annotations containing shape-like objects are used ... to         *)
(* construct a StructLayout.  The values assigned to such annotations are used to populate the     *)
(* initial value ... The initial values for individual fields can be overridden during             *)
(* instantiation" (and for a Union: an explicit initialiser replaces the declared one).  Building   *)
(* a constant / signal of a class is therefore a FUNCTION of the class declaration and of the      *)
(* initialiser of that call: every omitted field has its declared default, or 0; the class object  *)
(* has no other state.  The state machine below keeps the class's table of defaults `cur` as a      *)
(* state variable that every operation leaves unchanged; TLC enumerates all histories of up to     *)
(* MaxHist operations on one class object, each step carrying the expected result computed from    *)
(* `cur`; the theorem HistoryFree says that this is the result computed from the declaration.       *)
(* A class is [k |-> "cstruct" | "cunion" | "plain", lay |-> layout (DataLayout notation),         *)
(*   d |-> per field <<has default, default initialiser>>, sub |-> per field a nested class or NoCls]*)
(* ("plain": a plain StructLayout object, no defaults).  Initialisers are ordered mappings          *)
(* << <<position, value>>, ... >>; the value of a class-typed field is again such a mapping and is   *)
(* built by the nested class (its defaults apply), a field that is omitted and has no default is 0. *)
EXTENDS DataLayout

CONSTANTS MaxHist, HistMutant
VARIABLES cls, cur, hist
hvars == <<cls, cur, hist, items, top, tab>>

NoCls == [k |-> "none"]
Given(init, i) == \E k \in 1..Len(init) : init[k][1] = i
ValOf(init, i) == init[CHOOSE k \in 1..Len(init) : init[k][1] = i][2]

RECURSIVE ClassBits(_, _, _), SumFields(_, _, _, _)
PartBits(C, i, v) == IF C.sub[i].k # "none" THEN ClassBits(C.sub[i], C.sub[i].d, v) ELSE ConstVal(Sub(C.lay, i), v)
SumFields(C, d, init, n) ==
    IF n = 0 THEN 0
    ELSE SumFields(C, d, init, n - 1) +
         (IF Given(init, n) THEN PartBits(C, n, ValOf(init, n)) * Pow2(Off(C.lay, n))
          ELSE IF d[n][1] THEN PartBits(C, n, d[n][2]) * Pow2(Off(C.lay, n))
          ELSE 0)
DefaultOf(d) == LET RECURSIVE Go(_)
                    Go(i) == IF i > Len(d) THEN <<>> ELSE (IF d[i][1] THEN << <<i, d[i][2]>> >> ELSE <<>>) \o Go(i + 1)
                IN Go(1)
(* the bits of Class.const(init) for a class whose table of defaults is d *)
ClassBits(C, d, init) ==
    IF C.k = "cunion"
    THEN LET eff == IF init # <<>> THEN init ELSE DefaultOf(d) IN       \* "init or default"
         IF eff = <<>> THEN 0 ELSE PartBits(C, eff[1][1], eff[1][2])
    ELSE SumFields(C, d, init, NF(C.lay))

(* ---- the classes under test ---- *)
Lf(nm) == Catalogue[nm]
Flat == Struct(Named(<<Lf("u2"), Lf("s3"), Lf("e2")>>))
InnerL == Struct(Named(<<Lf("s3"), Lf("u2")>>))
OuterL == Struct(Named(<<Lf("u2"), Lf("s3"), InnerL, Array(Lf("u2"), 2)>>))
UniL == Union(Named(<<Lf("u2"), Lf("s3")>>))
No == <<FALSE, 0>>
None3 == <<NoCls, NoCls, NoCls>>
Inner1 == [k |-> "cstruct", lay |-> InnerL, d |-> << <<TRUE, 0 - 2>>, No >>, sub |-> <<NoCls, NoCls>>]
Inner0 == [k |-> "cstruct", lay |-> InnerL, d |-> <<No, No>>, sub |-> <<NoCls, NoCls>>]
Classes == <<
    [k |-> "cstruct", lay |-> Flat, d |-> <<No, No, No>>, sub |-> None3],
    [k |-> "cstruct", lay |-> Flat, d |-> << <<TRUE, 1>>, No, <<TRUE, 3>> >>, sub |-> None3],
    [k |-> "cstruct", lay |-> Flat, d |-> <<No, <<TRUE, 0 - 3>>, No>>, sub |-> None3],
    [k |-> "cstruct", lay |-> OuterL, d |-> << <<TRUE, 1>>, No, No, <<TRUE, << <<1, 1>>, <<2, 2>> >> >> >>,
        sub |-> <<NoCls, NoCls, Inner1, NoCls>>],
    [k |-> "cstruct", lay |-> OuterL, d |-> <<No, No, <<TRUE, << <<2, 3>> >> >>, No>>, sub |-> <<NoCls, NoCls, Inner1, NoCls>>],
    [k |-> "cstruct", lay |-> OuterL, d |-> <<No, No, No, No>>, sub |-> <<NoCls, NoCls, Inner0, NoCls>>],
    [k |-> "cunion", lay |-> UniL, d |-> <<No, <<TRUE, 0 - 1>> >>, sub |-> <<NoCls, NoCls>>],
    [k |-> "cunion", lay |-> UniL, d |-> <<No, No>>, sub |-> <<NoCls, NoCls>>],
    [k |-> "plain", lay |-> OuterL, d |-> <<No, No, No, No>>, sub |-> <<NoCls, NoCls, NoCls, NoCls>>],
    [k |-> "plain", lay |-> Flat, d |-> <<No, No, No>>, sub |-> None3] >>

(* initialisers that give explicit values to different subsets of the fields *)
InitsOf(C) ==
    IF C.lay = Flat THEN << << <<1, 2>> >>, << <<2, 2>>, <<3, 1>> >>, << <<3, 0>>, <<1, 3>> >>, <<>> >>
    ELSE IF C.lay = UniL THEN << << <<1, 2>> >>, << <<2, 3>> >>, <<>> >>
    ELSE << << <<1, 2>>, <<3, << <<2, 3>> >> >> >>,                         \* a and the nested field's b
            << <<2, 0 - 1>>, <<4, << <<1, 3>>, <<2, 0>> >> >> >>,         \* b and the array
            << <<3, << <<1, 1>> >> >> >>,                                  \* the nested field's a
            << <<4, << <<2, 3>> >> >>, <<1, 0>> >>,                         \* one array element (by index) and a
            <<>> >>
StepsOf(C) ==
    LET ins == InitsOf(C) IN
    [j \in 1..Len(ins) |-> [op |-> "const", init |-> ins[j], none |-> FALSE]]
    \o <<[op |-> "const", init |-> <<>>, none |-> TRUE], [op |-> "signal", init |-> <<>>, none |-> TRUE],
         [op |-> "signal", init |-> ins[1], none |-> FALSE], [op |-> "signal", init |-> ins[2], none |-> FALSE],
         [op |-> "simset", init |-> ins[2], none |-> FALSE], [op |-> "simset", init |-> ins[1], none |-> FALSE],
         [op |-> "from_bits", init |-> <<>>, none |-> TRUE]>>

Result(C, d, s) ==
    LET bits == IF s.op = "from_bits" THEN Pow2(Size(C.lay)) - 2 ELSE ClassBits(C, d, s.init)
        ps == Paths(C.lay)
    IN [op |-> s.op, init |-> s.init, none |-> s.none, bits |-> bits,
        vals |-> [j \in 1..Len(ps) |-> FieldOf(bits, C.lay, ps[j])]]

HInit == /\ \E c \in 1..Len(Classes) : cls = Classes[c] /\ cur = Classes[c].d
         /\ hist = <<>> /\ items = <<>> /\ top = NoTop /\ tab = <<>>
HStep == /\ Len(hist) < MaxHist
         /\ \E j \in 1..Len(StepsOf(cls)) :
              LET s == StepsOf(cls)[j] IN
              /\ hist' = Append(hist, Result(cls, cur, s))
              /\ cur' = IF HistMutant = "defaults_leak" /\ cls.k = "cstruct" /\ s.op # "from_bits"
                        THEN [i \in 1..Len(cur) |-> IF Given(s.init, i) THEN <<TRUE, ValOf(s.init, i)>> ELSE cur[i]]
                        ELSE cur                                 \* no operation changes the class
         /\ UNCHANGED <<cls, items, top, tab>>
HSpec == HInit /\ [][HStep]_hvars

(* every step's result is the one computed from the class DECLARATION and the step's own initialiser *)
HistoryFree ==
    /\ cur = cls.d
    /\ \A k \in 1..Len(hist) :
          hist[k].bits = (IF hist[k].op = "from_bits" THEN hist[k].bits ELSE ClassBits(cls, cls.d, hist[k].init))
(* omitted fields are the declared default or 0, given fields the given value (top-level leaves of structs) *)
OmittedAreDefaults ==
    cls.k # "cunion" =>
    \A k \in 1..Len(hist) : hist[k].op = "from_bits" \/
        \A i \in 1..NF(cls.lay) :
            LET got == FieldOf(hist[k].bits, cls.lay, <<i>>)
                f == Sub(cls.lay, i) IN
            IsLeaf(f) =>
                got = (IF Given(hist[k].init, i) THEN Reinterpret(ValOf(hist[k].init, i) % Pow2(f.w), f)
                       ELSE IF cls.d[i][1] THEN Reinterpret(cls.d[i][2] % Pow2(f.w), f) ELSE 0)
=============================================================================
