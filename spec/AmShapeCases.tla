---------------------------- MODULE AmShapeCases ----------------------------
(* Property C10 as an enumeration: every initial state is one question about shape casting /    *)
(* constant normalisation together with the answer AmShape gives; the invariants are the        *)
(* theorems that make the answer "exact and minimal".  The harness asks the real amaranth the    *)
(* same questions (Shape.cast, Const, Signal(init=), MemoryData(init=), bits_for, ceil_log2).    *)
EXTENDS AmShape, TLC

CONSTANTS RMag,            \* range start/stop in -RMag..RMag
          Steps,           \* range steps (defined in the MC module: may be negative)
          EMag, EMax,      \* enumeration member values in -EMag..EMag and maximal member count
          VMag, WMax,      \* (value, shape) box: values -VMag..VMag, widths 0..WMax
          BitArgs          \* arguments for bits_for / ceil_log2
RLo == -RMag
RHi == RMag
ELo == -EMag
EHi == EMag
VLo == -VMag
VHi == VMag

VARIABLE c

Shapes == {Unsigned(w) : w \in 0..WMax} \cup {Signed(w) : w \in 1..WMax}

RangeCases == {[k |-> "range", a |-> a, b |-> b, st |-> st, exp |-> ShapeOfRange(a, b, st)]
                 : a \in RLo..RHi, b \in RLo..RHi, st \in Steps}
EnumSets == {S \in SUBSET (ELo..EHi) : Cardinality(S) <= EMax}
EnumCases == {[k |-> "enum", ms |-> S, exp |-> ShapeOfEnum(S)] : S \in EnumSets}
ConstCases == {[k |-> "const", v |-> v, sh |-> sh, exp |-> ConstNorm(v, sh)] : v \in VLo..VHi, sh \in Shapes}
BitsCases == {[k |-> "bits", v |-> v, sg |-> sg, exp |-> BitsFor(v, sg)] : v \in BitArgs, sg \in BOOLEAN}
ClogCases == {[k |-> "clog", v |-> v, exp |-> CeilLog2(v)] : v \in {x \in BitArgs : x >= 0}}
(* a range-shaped signal accepts an explicit initial value iff it is an element of the range *)
RInitCases == {[k |-> "rinit", a |-> a, b |-> b, st |-> st, v |-> v,
                exp |-> IF v \in RangeElems(a, b, st) THEN "ok" ELSE "reject"]
                 : a \in (RLo \div 3)..(RHi \div 3), b \in (RLo \div 3)..(RHi \div 3), st \in Steps,
                   v \in (RLo \div 3 - 1)..(RHi \div 3 + 1)}

Init == c \in RangeCases \cup EnumCases \cup ConstCases \cup BitsCases \cup ClogCases \cup RInitCases
Next == UNCHANGED c
Spec == Init /\ [][Next]_c

(* ---- theorems: the answers are exact and minimal ---- *)
RangeExact == c.k = "range" => MinShapeMinimal(RangeElems(c.a, c.b, c.st))
EnumExact == c.k = "enum" =>
    /\ \A v \in c.ms : Fits(v, c.exp)
    /\ c.exp.s = (\E v \in c.ms : v < 0)
    \* minimal among shapes in which every member is representable *with the shape it has as a constant*
    /\ c.ms # {} => \A v \in c.ms : LET m == ShapeOfInt(v) IN (IF c.exp.s /\ ~m.s THEN m.w + 1 ELSE m.w) <= c.exp.w
    /\ c.ms # {} => \E v \in c.ms : LET m == ShapeOfInt(v) IN (IF c.exp.s /\ ~m.s THEN m.w + 1 ELSE m.w) = c.exp.w
ConstExact == c.k = "const" => NormUnique(c.v, c.sh)
BitsExact == c.k = "bits" /\ ~c.sg => BitsForBracket(c.v)
ClogExact == c.k = "clog" => CeilLog2Bracket(c.v)
=============================================================================
