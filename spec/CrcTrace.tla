------------------------------ MODULE CrcTrace ------------------------------
(* Trace validation for amaranth.lib.crc (property C16): executions recorded from the real      *)
(* Parameters.compute / Parameters.residue and from the real Processor simulated in pysim       *)
(* (harness/props/c16.py) are judged against the Williams model and the Processor contract of   *)
(* module Crc.  A batch is read from the JSON file named by the environment variable TRACE_FILE;*)
(* each trace is validated in its own behaviour (tid chosen in Init).  The verdict is total:    *)
(* every trace prints <<"ACC", tid, steps, own, matches>> or <<"REJ", tid, step, clause>>       *)
(* (followed by a line "<<778, tid, expected>>" with the values the specification expected).    *)
(*                                                                                             *)
(* All CRC values, polynomials and data words are bit vectors, MSB first (see Crc.tla).         *)
(* trace = [kind |-> "sw" | "res" | "hw", dw |-> data width,                                    *)
(*          p |-> [w, poly, init, refin (0/1), refout (0/1), xorout],                           *)
(*   sw : words |-> <<word, ...>>, out |-> the value returned by compute(words)                 *)
(*   res: out |-> the value returned by residue()                                               *)
(*   hw : steps |-> << <<start, valid, data, crc, match_detected>>, ... >>  one per clock cycle;*)
(*        crc / match_detected are sampled before the clock edge at which start/valid/data are  *)
(*        applied, i.e. they show the effect of all earlier cycles ("one cycle after")]         *)
(*                                                                                             *)
(* Clauses (hardware), each cycle from reset on (reset leaves initial_crc, like a start):         *)
(*   crc                  crc = Williams CRC of the words accepted since the last start         *)
(*   match_residue        match_detected <=> the register holds the residue (documented rule)   *)
(*   match_own_crc        crc_width is a whole number k of data words and the last k words are  *)
(*                        the CRC of the words before them, in transmission order => match      *)
(*   match_other_trailer  same case, polynomial with the +1 term, any other trailer => no match *)
EXTENDS Crc, Json, IOUtils, TLCExt

Batch == JsonDeserialize(IOEnv.TRACE_FILE)
Traces == Batch.traces

VARIABLES tid, i, regs, residue, nown, nmatch, verdict
tvars == <<tid, i, regs, residue, nown, nmatch, verdict>>

T == Traces[tid]

IsBits(v, n) == Len(v) = n /\ \A j \in 1..n : v[j] \in Bit
ParamOf(t) == [w |-> t.p.w, poly |-> t.p.poly, init |-> t.p.init, refin |-> t.p.refin = 1,
               refout |-> t.p.refout = 1, xorout |-> t.p.xorout]
WellFormed(t) == /\ t.p.w >= 1 /\ t.dw >= 1
                 /\ IsBits(t.p.poly, t.p.w) /\ IsBits(t.p.init, t.p.w) /\ IsBits(t.p.xorout, t.p.w)
                 /\ t.p.refin \in {0, 1} /\ t.p.refout \in {0, 1}

TInit == /\ tid \in 1..Len(Traces)
         /\ P = ParamOf(Traces[tid])
         /\ dw = Traces[tid].dw
         /\ reg = P.init              \* out of reset the register holds initial_crc, as after a start
         /\ started = TRUE
         /\ ws = <<>>
         /\ regs = <<P.init>>         \* regs[j+1] = register after j words since the last start / reset
         /\ residue = IF WellFormed(Traces[tid]) THEN Residue(P) ELSE <<>>
         /\ i = 1 /\ nown = 0 /\ nmatch = 0 /\ verdict = ""

Reject(step, clause, info) ==
    /\ verdict' = clause
    /\ PrintT(<<"REJ", tid, step, clause>>)
    /\ PrintT(ToString(<<778, tid, info>>))      \* what the specification expected (one unwrapped line)
    /\ UNCHANGED <<tid, i, regs, residue, nown, nmatch, P, dw, reg, started, ws>>
Accept(n) ==
    /\ verdict' = "ACC"
    /\ PrintT(<<"ACC", tid, n, nown, nmatch>>)
    /\ UNCHANGED <<tid, i, regs, residue, nown, nmatch, P, dw, reg, started, ws>>

Malformed == verdict = "" /\ ~WellFormed(T) /\ Reject(0, "malformed", <<>>)

(* ---- software: compute() and residue() ---- *)
Software ==
    /\ verdict = "" /\ WellFormed(T) /\ T.kind \in {"sw", "res"}
    /\ IF T.kind = "sw"
       THEN IF \E j \in 1..Len(T.words) : ~IsBits(T.words[j], dw) THEN Reject(0, "malformed", <<>>)
            ELSE LET c == ComputeWords(P, T.words)
                 IN IF c = T.out THEN Accept(Len(T.words)) ELSE Reject(Len(T.words), "compute", c)
       ELSE IF residue = T.out THEN Accept(0) ELSE Reject(0, "residue", residue)

(* ---- hardware: one Processor clock cycle per step ---- *)
HwStep ==
    /\ verdict = "" /\ WellFormed(T) /\ T.kind = "hw" /\ i <= Len(T.steps)
    /\ LET s      == T.steps[i]
           start  == s[1] = 1
           valid  == s[2] = 1
           data   == s[3]
           crcObs == s[4]
           mObs   == s[5] = 1
           k      == P.w \div dw
           n      == Len(ws)
           cw     == started /\ WholeWords(P, dw) /\ n >= k
           own    == cw /\ SubVec(ws, n - k + 1, n) = TxWords(P, dw, Finalise(P, regs[n - k + 1]))
           mExp   == RegOut(P, reg) = residue
           c      == IF ~IsBits(data, dw) \/ ~IsBits(crcObs, P.w) THEN "malformed"
                     ELSE IF ~started THEN ""
                     ELSE IF crcObs # CrcOut(P, reg) THEN "crc"
                     ELSE IF mObs # mExp THEN "match_residue"
                     ELSE IF own /\ ~mObs THEN "match_own_crc"
                     ELSE IF cw /\ PolyOdd(P) /\ ~own /\ mObs THEN "match_other_trailer"
                     ELSE ""
           r1     == NextReg(P, reg, start, valid, data)
       IN IF c # ""
          THEN Reject(i, c, <<CrcOut(P, reg), IF mExp THEN 1 ELSE 0>>)
          ELSE /\ reg' = r1
               /\ started' = (started \/ start)
               /\ ws' = IF started \/ start THEN NextHist(ws, start, valid, data) ELSE <<>>
               /\ regs' = IF start THEN (IF valid THEN <<P.init, r1>> ELSE <<P.init>>)
                          ELSE IF started /\ valid THEN Append(regs, r1) ELSE regs
               /\ nown' = IF own THEN nown + 1 ELSE nown
               /\ nmatch' = IF started /\ mObs THEN nmatch + 1 ELSE nmatch
               /\ i' = i + 1
               /\ UNCHANGED <<tid, residue, verdict, P, dw>>

HwFinish ==
    /\ verdict = "" /\ WellFormed(T) /\ T.kind = "hw" /\ i = Len(T.steps) + 1
    /\ Accept(Len(T.steps))

TNext == Malformed \/ Software \/ HwStep \/ HwFinish
TSpec == TInit /\ [][TNext]_<<vars, tvars>>
=============================================================================
